//! C12 — streaming loop (`cameleon/src/u3v/stream_handle.rs`), payload channels
//! (`cameleon/src/payload.rs`) and `AsyncPool` (`device/src/u3v/async_read.rs`).
//!
//! TRACE ACCEPTANCE: the real `StreamHandle`/`StreamingLoop` runs over a scripted bulk endpoint
//! (`VerifUsb`), together with a receiver thread and a controller thread.  A turnstile lets exactly
//! one of the three threads run between two yield points (the loop's named yield points and every
//! submit/poll/cancel of the fake endpoint; one channel operation per receiver turn), the seeded
//! scheduler decides who goes next, and every atomic event is logged.  The trace is sent to the
//! Lean driver, which accepts it iff every event is an enabled transition of
//! `CamVerif.Model.StreamLoop` and every delivered payload is what the model delivers.
//! Independently the property oracle is evaluated on the implementation's own behaviour.

use std::collections::{BTreeSet, HashMap, HashSet, VecDeque};
use std::sync::{Arc, Condvar, Mutex};
use std::time::{Duration, Instant};

use camharness::*;
use cameleon::payload::{channel, Payload, PayloadReceiver, PayloadType};
use cameleon::u3v::StreamHandle;
use cameleon::{ControlError, ControlResult, DeviceControl, PayloadStream, StreamError};
use cameleon_device::u3v::verif::{VerifPoll, VerifUsb};
use cameleon_device::u3v::{BusSpeed, ControlIfaceInfo, Device, DeviceInfo, LibUsbError, ReceiveIfaceInfo};

// ---------------------------------------------------------------------------------------------
// Lifetime of the memory the USB stack owns
// ---------------------------------------------------------------------------------------------
//
// Every submitted transfer registers the address range of its buffer (hook `submit_bulk_at`) until
// its completion has been reported to the pool.  The global allocator of this binary checks every
// deallocation against the registered ranges: freeing a buffer while a transfer on it is still
// outstanding (e.g. the payload buffer dropped before the `AsyncPool`) is what, with libusb, lets
// the reap write into freed heap.  Lock-free and allocation-free, so it is safe inside `dealloc`.

use std::sync::atomic::{AtomicUsize, Ordering};

const REG_SLOTS: usize = 256;
static REG_START: [AtomicUsize; REG_SLOTS] = [const { AtomicUsize::new(0) }; REG_SLOTS];
static REG_LEN: [AtomicUsize; REG_SLOTS] = [const { AtomicUsize::new(0) }; REG_SLOTS];
static FREED_WHILE_OUTSTANDING: AtomicUsize = AtomicUsize::new(0);

fn reg_insert(start: usize, len: usize) -> Option<usize> {
    if len == 0 {
        return None;
    }
    for i in 0..REG_SLOTS {
        if REG_LEN[i].compare_exchange(0, len, Ordering::SeqCst, Ordering::SeqCst).is_ok() {
            REG_START[i].store(start, Ordering::SeqCst);
            return Some(i);
        }
    }
    None
}

fn reg_remove(slot: Option<usize>) {
    if let Some(i) = slot {
        REG_START[i].store(0, Ordering::SeqCst);
        REG_LEN[i].store(0, Ordering::SeqCst);
    }
}

fn reg_clear() {
    for i in 0..REG_SLOTS {
        reg_remove(Some(i));
    }
}

struct WatchingAlloc;

unsafe impl std::alloc::GlobalAlloc for WatchingAlloc {
    unsafe fn alloc(&self, l: std::alloc::Layout) -> *mut u8 {
        std::alloc::System.alloc(l)
    }
    unsafe fn dealloc(&self, p: *mut u8, l: std::alloc::Layout) {
        let (a, n) = (p as usize, l.size());
        for i in 0..REG_SLOTS {
            let len = REG_LEN[i].load(Ordering::Relaxed);
            if len != 0 {
                let start = REG_START[i].load(Ordering::Relaxed);
                if start != 0 && start < a + n && a < start + len {
                    FREED_WHILE_OUTSTANDING.fetch_add(1, Ordering::SeqCst);
                }
            }
        }
        std::alloc::System.dealloc(p, l)
    }
    unsafe fn realloc(&self, p: *mut u8, l: std::alloc::Layout, new: usize) -> *mut u8 {
        std::alloc::System.realloc(p, l, new)
    }
}

#[global_allocator]
static GLOBAL: WatchingAlloc = WatchingAlloc;

// ---------------------------------------------------------------------------------------------
// Turnstile
// ---------------------------------------------------------------------------------------------

const LOOP: usize = 0;
const RX: usize = 1;
const CTL: usize = 2;

#[derive(Default)]
struct SchedState {
    waiting: [bool; 3],
    granted: Option<usize>,
    running: Option<usize>,
    finished: [bool; 3],
    blocked: [bool; 3],
    /// threads run without the turnstile (clean-up after a watchdog expiry / end of session)
    free_run: bool,
    over: bool,
    log: Vec<String>,
    /// index in `log` of every loop-thread event
    loop_events: Vec<usize>,
    /// number of scheduled events after which the controller's next action is due
    ctl_next_at: usize,
    /// the controller's next action blocks outside the turnstile (stop / close / drop)
    ctl_will_block: bool,
    drain: bool,
}

struct Sched {
    m: Mutex<SchedState>,
    /// wakes the scheduler
    cv: Condvar,
    /// wakes one role each
    cv_role: [Condvar; 3],
}

impl Sched {
    fn wake_all(&self) {
        self.cv.notify_all();
        for c in &self.cv_role {
            c.notify_all();
        }
    }
}

impl Sched {
    fn new() -> Arc<Self> {
        Arc::new(Sched { m: Mutex::new(SchedState::default()), cv: Condvar::new(), cv_role: [Condvar::new(), Condvar::new(), Condvar::new()] })
    }
    /// Park at a yield point until the scheduler grants this thread the baton.
    /// Returns `false` when the session is over (or running free).
    fn yield_at(&self, role: usize) -> bool {
        let mut st = self.m.lock().unwrap();
        if st.free_run {
            return !st.over;
        }
        if st.running == Some(role) {
            st.running = None;
        }
        st.blocked[role] = false;
        st.waiting[role] = true;
        self.cv.notify_all();
        loop {
            if st.free_run {
                st.waiting[role] = false;
                return !st.over;
            }
            if st.granted == Some(role) {
                st.granted = None;
                st.waiting[role] = false;
                st.running = Some(role);
                return true;
            }
            st = self.cv_role[role].wait(st).unwrap();
        }
    }
    /// The baton holder is about to block outside the turnstile (controller in `stop`).
    fn block_begin(&self, role: usize) {
        let mut st = self.m.lock().unwrap();
        if st.running == Some(role) {
            st.running = None;
        }
        st.blocked[role] = true;
        self.cv.notify_all();
    }
    fn finish(&self, role: usize) {
        let mut st = self.m.lock().unwrap();
        if st.running == Some(role) {
            st.running = None;
        }
        st.finished[role] = true;
        st.waiting[role] = false;
        st.blocked[role] = false;
        self.cv.notify_all();
    }
    fn log(&self, role: usize, ev: String) {
        let mut st = self.m.lock().unwrap();
        if role == LOOP {
            let i = st.log.len();
            st.loop_events.push(i);
        }
        st.log.push(ev);
    }
}

// ---------------------------------------------------------------------------------------------
// Scripted endpoint
// ---------------------------------------------------------------------------------------------

#[derive(Clone, Copy, PartialEq, Eq, Debug)]
enum Cls {
    Io,
    Disc,
    Timeout,
}

impl Cls {
    fn name(self) -> &'static str {
        match self {
            Cls::Io => "io",
            Cls::Disc => "disc",
            Cls::Timeout => "timeout",
        }
    }
    fn lib(self, variant: u64) -> LibUsbError {
        match self {
            Cls::Io => match variant % 11 {
                0 => LibUsbError::Other,
                1 => LibUsbError::Pipe,
                2 => LibUsbError::Overflow,
                3 => LibUsbError::Io,
                4 => LibUsbError::InvalidParam,
                5 => LibUsbError::Access,
                6 => LibUsbError::Interrupted,
                7 => LibUsbError::NoMem,
                8 => LibUsbError::NotSupported,
                9 => LibUsbError::BadDescriptor,
                _ => LibUsbError::Busy,
            },
            Cls::Disc => {
                if variant % 2 == 0 {
                    LibUsbError::NoDevice
                } else {
                    LibUsbError::NotFound
                }
            }
            Cls::Timeout => LibUsbError::Timeout,
        }
    }
}

#[derive(Clone, Debug)]
enum Item {
    Data(Vec<u8>),
    Fault(Cls),
}

/// Where a script item comes from: (frame index, part index, parts of that frame, unmodified?).
#[derive(Clone, Copy, Debug)]
struct Tag {
    frame: usize,
    part: usize,
    nparts: usize,
    pristine: bool,
}

struct XferSt {
    len: usize,
    /// slot of the buffer's address range in the registry of memory the USB stack owns
    reg: Option<usize>,
    cancelled: bool,
    /// polls that still return Pending before the completion of the cancelled transfer is reported
    late_left: u64,
}

struct FakeState {
    script: Vec<Item>,
    consumed: usize,
    base_id: u64,
    next_id: u64,
    xfers: HashMap<u64, XferSt>,
    order: VecDeque<u64>,
    pend_at: HashSet<usize>,
    submit_fail: HashMap<u64, Cls>,
    submits: u64,
    protocol_errors: Vec<String>,
    /// (transfer id, script index) of every completed data transfer, in order
    completions: Vec<(u64, usize)>,
    /// loop threads seen so far (one per `start_streaming_loop`), oldest first
    loop_threads: Vec<std::thread::ThreadId>,
    /// libusb cancels asynchronously: the completion of a cancelled transfer is reported up to
    /// `late_max` polls late (how many exactly: seeded per transfer)
    late_max: u64,
    late_seed: u64,
    poll_err_at: HashMap<usize, Cls>,
    poll_err_forever_at: Option<(usize, Cls)>,
    /// every `Disc` fault is reported as NO_DEVICE (an unplugged device), not alternately NOT_FOUND
    disc_is_nodevice: bool,
    /// set by the harness once a hang has been recorded: everything completes so that threads end
    release_all: bool,
}

impl FakeState {
    /// Two streaming loops must never use the endpoint concurrently: once a newer loop thread has
    /// performed an operation, an older one must not come back.
    fn note_thread(&mut self) {
        let t = std::thread::current().id();
        if self.loop_threads.last() == Some(&t) {
            return;
        }
        if self.loop_threads.contains(&t) {
            self.protocol_errors.push("endpoint operation by the loop thread of an earlier session after a newer loop started".into());
        } else {
            self.loop_threads.push(t);
        }
    }
}

struct FakeUsb {
    sched: Mutex<Arc<Sched>>,
    st: Mutex<FakeState>,
}

impl FakeUsb {
    fn sched(&self) -> Arc<Sched> {
        self.sched.lock().unwrap().clone()
    }
}

impl VerifUsb for FakeUsb {
    fn claim_interface(&self, _iface: u8) -> Result<(), LibUsbError> {
        Ok(())
    }
    fn release_interface(&self, _iface: u8) -> Result<(), LibUsbError> {
        Ok(())
    }
    fn read_bulk(&self, _ep: u8, _buf: &mut [u8], _t: Duration) -> Result<usize, LibUsbError> {
        Err(LibUsbError::Timeout)
    }
    fn write_bulk(&self, _ep: u8, buf: &[u8], _t: Duration) -> Result<usize, LibUsbError> {
        Ok(buf.len())
    }
    fn clear_halt(&self, _ep: u8) -> Result<(), LibUsbError> {
        Ok(())
    }
    fn write_control(&self, _rt: u8, _r: u8, _v: u16, _i: u16, _b: &[u8], _t: Duration) -> Result<usize, LibUsbError> {
        Ok(0)
    }

    fn submit_bulk(&self, ep: u8, len: usize) -> Result<u64, LibUsbError> {
        self.submit_bulk_at(ep, std::ptr::null(), len)
    }

    fn submit_bulk_at(&self, _ep: u8, buffer: *const u8, len: usize) -> Result<u64, LibUsbError> {
        let sched = self.sched();
        sched.yield_at(LOOP);
        let mut st = self.st.lock().unwrap();
        st.note_thread();
        let n = st.submits;
        st.submits += 1;
        if let Some(cls) = st.submit_fail.remove(&n) {
            sched.log(LOOP, format!("SF{}", cls.name()));
            return Err(cls.lib(n));
        }
        let id = st.next_id;
        st.next_id += 1;
        let reg = if buffer.is_null() { None } else { reg_insert(buffer as usize, len) };
        st.xfers.insert(id, XferSt { len, reg, cancelled: false, late_left: 0 });
        st.order.push_back(id);
        sched.log(LOOP, format!("S{},{}", id - st.base_id, len));
        Ok(id)
    }

    fn poll_bulk(&self, id: u64, _timeout: Duration) -> VerifPoll {
        let sched = self.sched();
        sched.yield_at(LOOP);
        let mut st = self.st.lock().unwrap();
        st.note_thread();
        let rel = id.wrapping_sub(st.base_id);
        if st.order.front() != Some(&id) {
            st.protocol_errors.push(format!("poll of transfer {rel} which is not the oldest outstanding one"));
        }
        // persistent failure of the event loop (known finding): every poll fails
        if !st.release_all {
            if let Some((at, cls)) = st.poll_err_forever_at {
                if st.consumed >= at {
                    sched.log(LOOP, format!("PX{rel},{}", cls.name()));
                    return VerifPoll::Error(cls.lib(at as u64));
                }
            }
        }
        let release_all = st.release_all;
        let late_seed = st.late_seed;
        let cancelled = match st.xfers.get_mut(&id) {
            Some(x) => {
                if x.cancelled && x.late_left > 0 && !release_all {
                    x.late_left -= 1;
                    // the completion is not there yet: the poll times out, or the event loop fails
                    if Rng::new(late_seed ^ id.wrapping_mul(77) ^ x.late_left).chance(1, 3) {
                        sched.log(LOOP, format!("PX{rel},io"));
                        return VerifPoll::Error(LibUsbError::Interrupted);
                    }
                    sched.log(LOOP, format!("PL{rel}"));
                    return VerifPoll::Pending;
                }
                x.cancelled
            }
            None => {
                st.protocol_errors.push(format!("poll of unknown transfer {rel}"));
                sched.log(LOOP, format!("PC{rel}"));
                return VerifPoll::Completed(Err(LibUsbError::Timeout));
            }
        };
        if cancelled {
            let x = st.xfers.remove(&id);
            reg_remove(x.and_then(|x| x.reg));
            st.order.retain(|x| *x != id);
            // a transfer that had already FAILED when it was cancelled (device unplugged, bus error on
            // several transfers) is reaped with its own error status, not with CANCELLED
            let idx = st.consumed;
            if !release_all {
                if let Some(Item::Fault(cls)) = st.script.get(idx).cloned() {
                    st.consumed += 1;
                    sched.log(LOOP, format!("PE{rel},{}", cls.name()));
                    let e = if cls == Cls::Disc && st.disc_is_nodevice { LibUsbError::NoDevice } else { cls.lib(idx as u64) };
                    return VerifPoll::Completed(Err(e));
                }
            }
            sched.log(LOOP, format!("PC{rel}"));
            return VerifPoll::Completed(Err(LibUsbError::Timeout));
        }
        let idx = st.consumed;
        if let Some(cls) = st.poll_err_at.remove(&idx) {
            sched.log(LOOP, format!("PX{rel},{}", cls.name()));
            return VerifPoll::Error(cls.lib(idx as u64));
        }
        if idx >= st.script.len() || st.pend_at.remove(&idx) {
            sched.log(LOOP, format!("PP{rel}"));
            return VerifPoll::Pending;
        }
        st.consumed += 1;
        let x = st.xfers.remove(&id);
        reg_remove(x.and_then(|x| x.reg));
        st.order.retain(|x| *x != id);
        match st.script[idx].clone() {
            Item::Data(d) => {
                st.completions.push((rel, idx));
                sched.log(LOOP, format!("PD{rel},{},{:x}", d.len(), fnv_bytes(FNV_INIT, &d)));
                VerifPoll::Completed(Ok(d))
            }
            Item::Fault(cls) => {
                sched.log(LOOP, format!("PE{rel},{}", cls.name()));
                let e = if cls == Cls::Disc && st.disc_is_nodevice { LibUsbError::NoDevice } else { cls.lib(idx as u64) };
                VerifPoll::Completed(Err(e))
            }
        }
    }

    fn cancel_bulk(&self, id: u64) {
        let sched = self.sched();
        sched.yield_at(LOOP);
        let mut st = self.st.lock().unwrap();
        st.note_thread();
        let rel = id.wrapping_sub(st.base_id);
        let late = if st.late_max == 0 { 0 } else { Rng::new(st.late_seed ^ id.wrapping_mul(0x9E37_79B9)).below(st.late_max + 1) };
        match st.xfers.get_mut(&id) {
            Some(x) => {
                x.cancelled = true;
                x.late_left = late;
            }
            None => st.protocol_errors.push(format!("cancel of unknown transfer {rel}")),
        }
        sched.log(LOOP, format!("C{rel}"));
    }
}

// ---------------------------------------------------------------------------------------------
// In-memory DeviceControl serving the bootstrap registers `StreamParams::from_control` reads
// ---------------------------------------------------------------------------------------------

#[derive(Clone, Copy, Debug, PartialEq, Eq)]
struct Params {
    ls: usize,
    ts: usize,
    ps: usize,
    pc: usize,
    f1: usize,
    f2: usize,
    timeout_ms: u32,
}

impl Params {
    fn max_payload(&self) -> usize {
        self.ps * self.pc + self.f1 + self.f2
    }
    /// lengths of the payload transfers, in order
    fn payload_slots(&self) -> Vec<usize> {
        let mut v = vec![self.ps; self.pc];
        if self.f1 != 0 {
            v.push(self.f1);
        }
        if self.f2 != 0 {
            v.push(self.f2);
        }
        v
    }
    fn t(&self) -> usize {
        self.payload_slots().len() + 2
    }
}

const SBRM: usize = 0x1_0000;
const SIRM: usize = 0x2_0000;

struct MemCtrl {
    mem: Vec<u8>,
}

impl MemCtrl {
    fn new(p: &Params) -> Self {
        let mut mem = vec![0u8; SIRM + 0x100];
        let mut put = |a: usize, v: &[u8]| mem[a..a + v.len()].copy_from_slice(v);
        put(0x01C4, &0u64.to_le_bytes()); // DEVICE_CAPABILITY
        put(0x01CC, &p.timeout_ms.to_le_bytes()); // MAXIMUM_DEVICE_RESPONSE_TIME
        put(0x01D8, &(SBRM as u64).to_le_bytes()); // SBRM_ADDRESS
        put(SBRM + 0x04, &1u64.to_le_bytes()); // U3VCP_CAPABILITY: SIRM available
        put(SBRM + 0x20, &(SIRM as u64).to_le_bytes()); // SIRM_ADDRESS
        put(SIRM + 0x18, &(p.ls as u32).to_le_bytes()); // MAXIMUM_LEADER_SIZE
        put(SIRM + 0x1C, &(p.ps as u32).to_le_bytes()); // PAYLOAD_TRANSFER_SIZE
        put(SIRM + 0x20, &(p.pc as u32).to_le_bytes()); // PAYLOAD_TRANSFER_COUNT
        put(SIRM + 0x24, &(p.f1 as u32).to_le_bytes()); // PAYLOAD_FINAL_TRANSFER1_SIZE
        put(SIRM + 0x28, &(p.f2 as u32).to_le_bytes()); // PAYLOAD_FINAL_TRANSFER2_SIZE
        put(SIRM + 0x2C, &(p.ts as u32).to_le_bytes()); // MAXIMUM_TRAILER_SIZE
        MemCtrl { mem }
    }
}

impl DeviceControl for MemCtrl {
    fn open(&mut self) -> ControlResult<()> {
        Ok(())
    }
    fn close(&mut self) -> ControlResult<()> {
        Ok(())
    }
    fn is_opened(&self) -> bool {
        true
    }
    fn read(&mut self, address: u64, buf: &mut [u8]) -> ControlResult<()> {
        let a = address as usize;
        if a + buf.len() > self.mem.len() {
            return Err(ControlError::InvalidDevice("out of range".into()));
        }
        buf.copy_from_slice(&self.mem[a..a + buf.len()]);
        Ok(())
    }
    fn write(&mut self, _address: u64, _data: &[u8]) -> ControlResult<()> {
        Ok(())
    }
    fn genapi(&mut self) -> ControlResult<String> {
        Err(ControlError::NotOpened)
    }
    fn enable_streaming(&mut self) -> ControlResult<()> {
        Ok(())
    }
    fn disable_streaming(&mut self) -> ControlResult<()> {
        Ok(())
    }
}

// ---------------------------------------------------------------------------------------------
// Frames
// ---------------------------------------------------------------------------------------------

const LEADER_MAGIC: u32 = 0x4C56_3355;
const TRAILER_MAGIC: u32 = 0x5456_3355;

#[derive(Clone, Debug)]
struct Frame {
    block_id: u64,
    kind: u8, // 0 image, 1 chunk, 2 image extended chunk
    leader: Vec<u8>,
    payload: Vec<u8>,
    trailer: Vec<u8>,
    valid: usize,
}

fn mk_leader(block_id: u64, kind: u8, ts: u64, w: u32, h: u32) -> Vec<u8> {
    let mut b = vec![];
    b.extend_from_slice(&LEADER_MAGIC.to_le_bytes());
    b.extend_from_slice(&0u16.to_le_bytes());
    let size: u16 = if kind == 1 { 28 } else { 52 };
    b.extend_from_slice(&size.to_le_bytes());
    b.extend_from_slice(&block_id.to_le_bytes());
    b.extend_from_slice(&0u16.to_le_bytes());
    let pt: u16 = match kind {
        0 => 0x0001,
        1 => 0x4000,
        _ => 0x4001,
    };
    b.extend_from_slice(&pt.to_le_bytes());
    b.extend_from_slice(&ts.to_le_bytes());
    if kind != 1 {
        b.extend_from_slice(&0x0108_0001u32.to_le_bytes()); // Mono8
        b.extend_from_slice(&w.to_le_bytes());
        b.extend_from_slice(&h.to_le_bytes());
        b.extend_from_slice(&3u32.to_le_bytes());
        b.extend_from_slice(&5u32.to_le_bytes());
        b.extend_from_slice(&0u16.to_le_bytes());
        b.extend_from_slice(&0u16.to_le_bytes());
    }
    b
}

fn mk_trailer(block_id: u64, kind: u8, status: u16, valid: u64, h: u32) -> Vec<u8> {
    let mut b = vec![];
    b.extend_from_slice(&TRAILER_MAGIC.to_le_bytes());
    b.extend_from_slice(&0u16.to_le_bytes());
    let size: u16 = if kind == 2 { 36 } else { 32 };
    b.extend_from_slice(&size.to_le_bytes());
    b.extend_from_slice(&block_id.to_le_bytes());
    b.extend_from_slice(&status.to_le_bytes());
    b.extend_from_slice(&0u16.to_le_bytes());
    b.extend_from_slice(&valid.to_le_bytes());
    match kind {
        0 => b.extend_from_slice(&h.to_le_bytes()),
        1 => b.extend_from_slice(&7u32.to_le_bytes()),
        _ => {
            b.extend_from_slice(&h.to_le_bytes());
            b.extend_from_slice(&9u32.to_le_bytes());
        }
    }
    b
}

/// A well-formed frame whose payload has `n` bytes.
fn mk_frame(rng: &mut Rng, block_id: u64, n: usize) -> Frame {
    let mut kind = match rng.below(6) {
        0 => 1u8,
        1 => 2u8,
        _ => 0u8,
    };
    if kind == 2 && n < 8 {
        kind = 0;
    }
    let mut payload = rng.bytes(n);
    if kind == 2 {
        // one chunk: [image data | chunk id (4) | size (4, big endian)]
        let data = n - 8;
        payload[n - 4..].copy_from_slice(&(data as u32).to_be_bytes());
    }
    let ts = rng.below(1 << 40);
    let w = rng.below(5000) as u32;
    let h = rng.below(5000) as u32;
    // the trailer may declare fewer valid bytes than were sent (extra bytes are ignored)
    let valid = if kind != 2 && n > 0 && rng.chance(2, 5) { rng.below(n as u64 + 1) as usize } else { n };
    Frame {
        block_id,
        kind,
        leader: mk_leader(block_id, kind, ts, w, h),
        payload,
        trailer: mk_trailer(block_id, kind, 0, valid as u64, h),
        valid,
    }
}

/// Bulk packets of a frame in the programmed layout (all payload transfers full, last one short).
fn frame_packets(p: &Params, f: &Frame) -> Vec<Vec<u8>> {
    let mut v = vec![f.leader.clone()];
    let mut off = 0;
    for len in p.payload_slots() {
        let end = (off + len).min(f.payload.len());
        v.push(f.payload[off.min(end)..end].to_vec());
        off = end;
    }
    v.push(f.trailer.clone());
    v
}

// ---------------------------------------------------------------------------------------------
// One streaming session
// ---------------------------------------------------------------------------------------------

#[derive(Clone, Debug)]
struct RxBehaviour {
    name: &'static str,
    /// scheduling weight relative to the loop's 4 (0 = never scheduled before the final drain)
    weight: u64,
    hold_max: usize,
    release_pct: u64,
    send_back_pct: u64,
    close_after: Option<u32>,
}

const RX_BEHAVIOURS: &[RxBehaviour] = &[
    RxBehaviour { name: "eager-sendback", weight: 12, hold_max: 1, release_pct: 90, send_back_pct: 100, close_after: None },
    RxBehaviour { name: "eager-drop", weight: 12, hold_max: 1, release_pct: 90, send_back_pct: 0, close_after: None },
    RxBehaviour { name: "mixed", weight: 4, hold_max: 3, release_pct: 40, send_back_pct: 50, close_after: None },
    RxBehaviour { name: "slow-hoarder", weight: 1, hold_max: 6, release_pct: 15, send_back_pct: 70, close_after: None },
    RxBehaviour { name: "never", weight: 0, hold_max: 8, release_pct: 50, send_back_pct: 50, close_after: None },
    RxBehaviour { name: "closes-early", weight: 4, hold_max: 2, release_pct: 50, send_back_pct: 50, close_after: Some(0) },
    RxBehaviour { name: "closes-later", weight: 4, hold_max: 2, release_pct: 50, send_back_pct: 50, close_after: Some(7) },
];

struct Plan {
    params: Params,
    cap: usize,
    frames: Vec<Frame>,
    script: Vec<Item>,
    tags: Vec<Option<Tag>>,
    pend_at: Vec<usize>,
    submit_fail: Vec<(u64, Cls)>,
    rx: RxBehaviour,
    /// number of scheduled events after which the controller calls `stop`
    stop_at: usize,
    sched_seed: u64,
    /// no fault of any kind and conforming framing
    clean: bool,
    conforming: bool,
    /// how long the scheduler lets the controller park in the rendezvous `send` after `KC`
    park_us: u64,
    /// the yield hook panics at the n-th `loop_top` (thread death injection; not sent to the model)
    kill_at_top: Option<usize>,
    /// how the controller ends the session: 0 = stop_streaming_loop, 1 = close, 2 = drop the handle
    ctl_mode: u8,
    /// call `start_streaming_loop` once more while the loop is running, after that many events
    start_again_at: Option<usize>,
    /// completions of cancelled transfers are reported up to that many polls late
    late_cancel: u64,
    /// wall-clock patience of the scheduler
    watchdog: Duration,
    /// the event loop fails once (`VerifPoll::Error`) when the transfer that would receive this script
    /// item is polled
    poll_err_at: Vec<(usize, Cls)>,
    /// from this script item on the event loop fails on EVERY poll (known finding: `AsyncPool::drop`
    /// then spins forever)
    poll_err_forever_at: Option<(usize, Cls)>,
    /// `Disc` faults are NO_DEVICE (unplugged device / whole frame lost with NO_DEVICE)
    disc_is_nodevice: bool,
}

/// What survives a session: the scripted endpoint, the device and (unless dropped) the handle.
struct Ctx {
    fake: Arc<FakeUsb>,
    _dev: Device,
    strm: Option<StreamHandle>,
    /// payloads kept from the previous session on this handle, with the length of their buffer
    /// (payload, length of its buffer, the receiver's token of it in the previous session)
    foreign: Vec<(Payload, usize, u64)>,
    /// first receiver token of the next session (tokens are unique over all sessions of a handle)
    tok_base: u64,
}

fn new_ctx() -> Ctx {
    let fake = Arc::new(FakeUsb {
        sched: Mutex::new(Sched::new()),
        st: Mutex::new(FakeState {
            script: vec![],
            consumed: 0,
            base_id: 0,
            next_id: 0,
            xfers: HashMap::new(),
            order: VecDeque::new(),
            pend_at: HashSet::new(),
            submit_fail: HashMap::new(),
            submits: 0,
            protocol_errors: vec![],
            completions: vec![],
            loop_threads: vec![],
            late_max: 0,
            late_seed: 0,
            poll_err_at: HashMap::new(),
            poll_err_forever_at: None,
            disc_is_nodevice: false,
            release_all: false,
        }),
    });
    let dev = Device::verif_new(
        fake.clone(),
        ControlIfaceInfo { iface_number: 0, bulk_in_ep: 0x81, bulk_out_ep: 0x01 },
        None,
        Some(ReceiveIfaceInfo { iface_number: 2, bulk_in_ep: 0x83 }),
        device_info(),
    );
    let strm = StreamHandle::verif_new(&dev).expect("stream handle").expect("stream iface");
    Ctx { fake, _dev: dev, strm: Some(strm), foreign: vec![], tok_base: 0 }
}

#[derive(Clone, Debug)]
struct RxRec {
    log_index: usize,
    id: u64,
    valid: usize,
    bytes: Vec<u8>,
}

#[derive(Default)]
struct RxReport {
    recs: Vec<RxRec>,
    problems: Vec<String>,
}

struct Outcome {
    log: Vec<String>,
    loop_events: Vec<usize>,
    completions: Vec<(u64, usize)>,
    consumed: usize,
    rx: RxReport,
    outstanding: usize,
    protocol_errors: Vec<String>,
    stop_ok: Option<bool>,
    stop_dur: Duration,
    running_after: bool,
    loop_poisoned: bool,
    hang: Option<String>,
    params_seen: Option<Params>,
    /// close/drop: the receive channel lock was free when the call returned (the loop thread is gone)
    lock_free_after: bool,
    /// result of the `start_streaming_loop` issued while the loop was running
    start_again: Option<String>,
    /// deallocations that hit the buffer of a transfer the USB stack still owned
    freed_while_outstanding: usize,
    /// payloads the receiver still held at the end (carried into a restart session)
    kept: Vec<(u64, Payload)>,
}

fn info_string(p: &Payload) -> String {
    let ty = match p.payload_type() {
        PayloadType::Image => "Image",
        PayloadType::ImageExtendedChunk => "ImageExtendedChunk",
        PayloadType::Chunk => "Chunk",
    };
    let img = match p.image_info() {
        None => "none".to_string(),
        Some(i) => format!("{},{},{},{},{:?},{}", i.width, i.height, i.x_offset, i.y_offset, i.pixel_format, i.image_size),
    };
    format!("{}|{}|{}|{}", p.id(), ty, p.timestamp().as_nanos(), img)
}

fn cls_of(e: &StreamError) -> &'static str {
    match e {
        StreamError::Io(_) => "io",
        StreamError::Disconnected => "disc",
        StreamError::Timeout => "timeout",
        StreamError::InvalidPayload(_) => "invalid",
        _ => "other",
    }
}

fn rx_thread(
    sched: Arc<Sched>,
    receiver: PayloadReceiver,
    b: RxBehaviour,
    seed: u64,
    mut foreign: Vec<(Payload, usize, u64)>,
    tok_base: u64,
) -> (RxReport, Vec<(u64, Payload)>) {
    let mut rng = Rng::new(seed ^ 0x5151);
    let mut rep = RxReport::default();
    let mut receiver = Some(receiver);
    let mut held: Vec<(u64, Payload, u64, usize)> = vec![];
    let mut next_tok = tok_base;
    let mut actions = 0u32;
    loop {
        if !sched.yield_at(RX) {
            break;
        }
        // a payload the receiver holds must never change
        for (tok, p, h, ptr) in &held {
            if fnv_bytes(FNV_INIT, p.payload()) != *h || (*ptr != 0 && p.payload().as_ptr() as usize != *ptr) {
                rep.problems.push(format!("payload token {tok} changed while held by the receiver"));
            }
        }
        let drain = sched.m.lock().unwrap().drain;
        let want_close = receiver.is_some() && !drain && b.close_after.map_or(false, |n| actions >= n);
        actions += 1;
        // hand back a payload this loop never produced (kept from the previous session on the same
        // handle, whose layout was different): a buffer of a foreign size enters the send-back channel
        if receiver.is_some() && !foreign.is_empty() && !want_close && rng.chance(1, 3) {
            // (in the model this is `rxSendBack` of the payload the receiver has held since the earlier
            // session: same token, same buffer identity)
            let (p, _full_len, tok) = foreign.pop().unwrap();
            receiver.as_ref().unwrap().send_back(p);
            sched.log(RX, format!("RB{tok}"));
            continue;
        }
        if want_close {
            receiver = None;
            sched.log(RX, "RX".into());
            continue;
        }
        // (in the final drain nothing is released: what the receiver still holds is carried into a
        // restart session and handed back there as a buffer of a foreign size)
        if drain && receiver.is_none() {
            break;
        }
        let release = !drain
            && !held.is_empty()
            && (receiver.is_none() || held.len() > b.hold_max || rng.chance(b.release_pct, 100));
        if release {
            let i = rng.below(held.len() as u64) as usize;
            let (tok, p, _, _) = held.remove(i);
            if receiver.is_some() && rng.chance(b.send_back_pct, 100) {
                receiver.as_ref().unwrap().send_back(p);
                sched.log(RX, format!("RB{tok}"));
            } else {
                drop(p);
                sched.log(RX, format!("RD{tok}"));
            }
            continue;
        }
        match &receiver {
            Some(r) => match r.try_recv() {
                Ok(p) => {
                    let tok = next_tok;
                    next_tok += 1;
                    let bytes = p.payload().to_vec();
                    let h = fnv_bytes(FNV_INIT, &bytes);
                    // an empty Vec has no allocation: no identity to compare
                    let ptr = if bytes.is_empty() { 0 } else { p.payload().as_ptr() as usize };
                    if held.iter().any(|(_, q, _, qp)| *qp == ptr && !q.payload().is_empty() && !bytes.is_empty()) {
                        rep.problems.push(format!("payload token {tok} aliases a payload the receiver still holds"));
                    }
                    let info = fnv_bytes(FNV_INIT, info_string(&p).as_bytes());
                    let li = {
                        let mut st = sched.m.lock().unwrap();
                        st.log.push(format!("RO{tok},{ptr},{},{info:x},{h:x}", bytes.len()));
                        st.log.len() - 1
                    };
                    rep.recs.push(RxRec { log_index: li, id: p.id(), valid: bytes.len(), bytes });
                    held.push((tok, p, h, ptr));
                }
                Err(StreamError::ReceiveError(_)) => sched.log(RX, "RN".into()),
                Err(e) => sched.log(RX, format!("RE{}", cls_of(&e))),
            },
            None => {
                // nothing left to do
                break;
            }
        }
    }
    for (tok, p, h, _) in &held {
        if fnv_bytes(FNV_INIT, p.payload()) != *h {
            rep.problems.push(format!("payload token {tok} changed while held by the receiver (end)"));
        }
    }
    sched.finish(RX);
    // what is still held — from this session or, not yet handed back, from the previous one
    let mut kept: Vec<(u64, Payload)> = held.into_iter().map(|(t, p, _, _)| (t, p)).collect();
    kept.extend(foreign.into_iter().map(|(p, _, t)| (t, p)));
    (rep, kept)
}

fn device_info() -> DeviceInfo {
    DeviceInfo {
        gencp_version: semver::Version::new(1, 0, 0),
        u3v_version: semver::Version::new(1, 0, 0),
        guid: "guid".into(),
        vendor_name: "v".into(),
        model_name: "m".into(),
        family_name: None,
        device_version: "1".into(),
        manufacturer_info: "i".into(),
        serial_number: "s".into(),
        user_defined_name: None,
        supported_speed: BusSpeed::SuperSpeed,
    }
}

/// wall-clock patience of the scheduler (a verdict based on it is re-checked once with ten times more)
const WATCHDOG: Duration = Duration::from_secs(3);
/// One session never schedules more events / takes longer than this, whatever the implementation does.
const SESSION_EVENT_BUDGET: usize = 100_000;
const SESSION_TIME_BUDGET: Duration = Duration::from_secs(60);
/// Wall-clock budget of a whole run (per tier); when it is exhausted no further session is started and
/// the run reports what it found so far plus a `run-budget-exhausted` violation.
const RUN_BUDGET_QUICK: Duration = Duration::from_secs(8 * 60);
const RUN_BUDGET_THOROUGH: Duration = Duration::from_secs(40 * 60);
static RUN_T0: std::sync::OnceLock<(Instant, Duration)> = std::sync::OnceLock::new();
static RUN_BUDGET_HIT: std::sync::atomic::AtomicBool = std::sync::atomic::AtomicBool::new(false);

fn run_session(plan: &Plan, mut ctx: Ctx) -> (Outcome, Option<Ctx>) {
    let sched = Sched::new();
    let fake = ctx.fake.clone();
    *fake.sched.lock().unwrap() = sched.clone();
    {
        let mut st = fake.st.lock().unwrap();
        st.script = plan.script.clone();
        st.consumed = 0;
        st.base_id = st.next_id;
        st.xfers.clear();
        reg_clear();
        st.order.clear();
        st.pend_at = plan.pend_at.iter().copied().collect();
        st.submit_fail = plan.submit_fail.iter().copied().collect();
        st.submits = 0;
        st.late_max = plan.late_cancel;
        st.late_seed = plan.sched_seed;
        st.poll_err_at = plan.poll_err_at.iter().copied().collect();
        st.poll_err_forever_at = plan.poll_err_forever_at;
        st.disc_is_nodevice = plan.disc_is_nodevice;
        st.release_all = false;
        st.protocol_errors.clear();
        st.completions.clear();
    }
    let freed0 = FREED_WHILE_OUTSTANDING.load(Ordering::SeqCst);
    let mut strm = ctx.strm.take().expect("handle");
    strm.open().expect("open");
    let inner = strm.inner.clone();
    let (sender, receiver) = channel(plan.cap, 5);
    let mut ctrl = MemCtrl::new(&plan.params);

    {
        let s2 = sched.clone();
        let kill = plan.kill_at_top;
        let tops = Mutex::new(0usize);
        cameleon::u3v::verif::set_yield_hook(Some(Box::new(move |name| {
            s2.yield_at(LOOP);
            let ev = match name {
                "loop_top" => "Ytop",
                "buffer_obtained" => "Yobt",
                "before_poll" => "Ypoll",
                "before_send_payload" => "Ysend",
                "before_obtain_buffer" => "Yget",
                "before_send_error" => "Yerr",
                _ => "Yunknown",
            };
            s2.log(LOOP, ev.into());
            if name == "loop_top" {
                let mut t = tops.lock().unwrap();
                *t += 1;
                if kill == Some(*t) {
                    drop(t);
                    panic!("injected death of the streaming loop thread");
                }
            }
        })));
    }

    strm.start_streaming_loop(sender, &mut ctrl).expect("start_streaming_loop");
    let sp = strm.params();
    let params_seen = Some(Params {
        ls: sp.leader_size,
        ts: sp.trailer_size,
        ps: sp.payload_size,
        pc: sp.payload_count,
        f1: sp.payload_final1_size,
        f2: sp.payload_final2_size,
        timeout_ms: sp.timeout.as_millis() as u32,
    });

    let rx_handle = {
        let s = sched.clone();
        let b = plan.rx.clone();
        let seed = plan.sched_seed;
        let foreign = std::mem::take(&mut ctx.foreign);
        let tok_base = ctx.tok_base;
        std::thread::spawn(move || rx_thread(s, receiver, b, seed, foreign, tok_base))
    };
    let ctl_handle = {
        let s = sched.clone();
        let mode = plan.ctl_mode;
        let start_again_at = plan.start_again_at;
        let stop_at = plan.stop_at;
        let (cap, params) = (plan.cap, plan.params);
        let inner2 = inner.clone();
        std::thread::spawn(move || {
            let mut start_again = None;
            if let Some(at) = start_again_at {
                {
                    let mut st = s.m.lock().unwrap();
                    st.ctl_next_at = at;
                    st.ctl_will_block = false;
                }
                s.yield_at(CTL);
                let (snd, _rcv) = channel(cap, 5);
                let mut c2 = MemCtrl::new(&params);
                let r = strm.start_streaming_loop(snd, &mut c2);
                let what = match &r {
                    Err(StreamError::InStreaming) => "InStreaming".to_string(),
                    Ok(()) => "Ok".to_string(),
                    Err(e) => format!("{e:?}"),
                };
                s.log(CTL, if what == "InStreaming" { "KS".into() } else { format!("KSunexpected") });
                start_again = Some(what);
            }
            {
                let mut st = s.m.lock().unwrap();
                st.ctl_next_at = stop_at;
                st.ctl_will_block = true;
            }
            s.yield_at(CTL);
            s.log(CTL, "KC".into());
            s.block_begin(CTL);
            let t0 = Instant::now();
            let (strm, ok) = match mode {
                0 => {
                    let r = strm.stop_streaming_loop();
                    (Some(strm), r.is_ok())
                }
                1 => {
                    let r = strm.close();
                    (Some(strm), r.is_ok())
                }
                _ => {
                    drop(strm);
                    (None, true)
                }
            };
            let dt = t0.elapsed();
            // (the scheduler probes the same lock for an instant to see whether the loop thread is gone:
            // one busy probe means nothing, the loop thread would hold it for good)
            // Only close/drop promise that the loop thread is gone; after a plain stop the return is
            // reported to the scheduler at once, so that what the loop does afterwards is observed.
            let mut lock_free_after = mode == 0;
            for _ in 0..(if mode == 0 { 0 } else { 200 }) {
                if !matches!(inner2.try_lock(), Err(std::sync::TryLockError::WouldBlock)) {
                    lock_free_after = true;
                    break;
                }
                std::thread::sleep(Duration::from_micros(50));
            }
            {
                let mut st = s.m.lock().unwrap();
                st.ctl_next_at = 0;
                st.ctl_will_block = false;
            }
            s.yield_at(CTL);
            let ev = match (mode, ok) {
                (0, true) => "KRok",
                (0, false) => "KRerr",
                (1, true) => "KLok",
                (1, false) => "KLerr",
                _ => "KD",
            };
            s.log(CTL, ev.into());
            let running_after = strm.as_ref().map_or(false, |h| h.is_loop_running());
            s.finish(CTL);
            (strm, ok, dt, running_after, lock_free_after, start_again)
        })
    };

    // ---- the scheduler ----
    let mut rng = Rng::new(plan.sched_seed);
    let mut events = 0usize;
    let mut loop_seen = false;
    let mut ctl_called = false;
    let mut drain_left = 3 * plan.cap + 12;
    let mut rn_in_drain = 0;
    let mut hang: Option<String> = None;
    let mut loop_poisoned = false;
    let max_events = 30_000usize;
    let mut kc_at: Option<usize> = None;
    let session_t0 = Instant::now();
    'sched: loop {
        let deadline = Instant::now() + plan.watchdog;
        let mut st = sched.m.lock().unwrap();
        loop {
            if st.waiting[LOOP] {
                loop_seen = true;
            }
            // the loop thread returns from `run` (or dies) without passing another yield point
            if loop_seen && !st.finished[LOOP] && !st.waiting[LOOP] && (st.running == Some(LOOP) || st.running.is_none()) {
                match inner.try_lock() {
                    Ok(_) => {
                        st.finished[LOOP] = true;
                        if st.running == Some(LOOP) {
                            st.running = None;
                        }
                    }
                    Err(std::sync::TryLockError::Poisoned(_)) => {
                        st.finished[LOOP] = true;
                        loop_poisoned = true;
                        if st.running == Some(LOOP) {
                            st.running = None;
                        }
                    }
                    Err(std::sync::TryLockError::WouldBlock) => {}
                }
            }
            let reg = |r: usize| st.waiting[r] || st.finished[r] || st.blocked[r];
            // once the loop is gone a blocked `stop` must return
            let ctl_settled = !(st.finished[LOOP] && st.blocked[CTL]);
            if st.running.is_none() && loop_seen && reg(LOOP) && reg(RX) && reg(CTL) && ctl_settled {
                break;
            }
            if Instant::now() > deadline {
                hang = Some(format!(
                    "no progress for {:?}: running={:?} waiting={:?} finished={:?} blocked={:?}",
                    plan.watchdog, st.running, st.waiting, st.finished, st.blocked
                ));
                st.free_run = true;
                sched.wake_all();
                break 'sched;
            }
            let wait = if st.running == Some(LOOP) || st.blocked[CTL] { 200 } else { 3000 };
            let (g, _) = sched.cv.wait_timeout(st, Duration::from_micros(wait)).unwrap();
            st = g;
        }
        // a loop that keeps running long after the stop/close/drop request — whether the call is still
        // blocked (it never returns) or has returned already (it did not wait for the loop)
        if let Some(kc) = kc_at.or_else(|| st.log.iter().position(|e| e == "KC")) {
            kc_at = Some(kc);
            let since = st.loop_events.len() - st.loop_events.partition_point(|i| *i <= kc);
            if since > 40 * ((3 + plan.late_cancel as usize) * plan.params.t() + 10) {
                hang = Some(if st.blocked[CTL] {
                    format!("stop/close/drop did not return although the loop performed {since} operations after the request")
                } else {
                    format!("the loop is still running {since} operations after the stop/close/drop request (the call returned)")
                });
                st.free_run = true;
                sched.wake_all();
                break 'sched;
            }
        }
        // budgets of one session: it must end whatever the implementation does
        if events > SESSION_EVENT_BUDGET || session_t0.elapsed() > SESSION_TIME_BUDGET * if plan.watchdog > WATCHDOG { 2 } else { 1 } {
            hang = Some(format!("session budget exhausted ({events} scheduled events, {:?})", session_t0.elapsed()));
            st.free_run = true;
            sched.wake_all();
            break 'sched;
        }
        // choose who runs next
        let session_done = st.finished[LOOP] && st.finished[CTL];
        let choice = if session_done {
            st.drain = true;
            if st.waiting[RX] && drain_left > 0 && rn_in_drain < 2 {
                drain_left -= 1;
                Some(RX)
            } else {
                None
            }
        } else {
            let ctl_due = st.waiting[CTL] && (events >= st.ctl_next_at || events >= max_events || st.finished[LOOP]);
            if ctl_due {
                ctl_called = true;
                Some(CTL)
            } else {
                let wl = if st.waiting[LOOP] { 4 } else { 0 };
                let wr = if st.waiting[RX] { plan.rx.weight } else { 0 };
                if wl + wr == 0 {
                    if st.waiting[CTL] {
                        ctl_called = true;
                        Some(CTL)
                    } else {
                        None
                    }
                } else if rng.below(wl + wr) < wl {
                    Some(LOOP)
                } else {
                    Some(RX)
                }
            }
        };
        match choice {
            None => break 'sched,
            Some(r) => {
                let before = st.log.len();
                st.granted = Some(r);
                st.running = Some(r);
                events += 1;
                sched.cv_role[r].notify_all();
                let first_ctl = r == CTL && st.ctl_will_block;
                drop(st);
                if first_ctl {
                    // `stop_streaming_loop` is entered outside the turnstile: give the controller time to
                    // park in the rendezvous `send` (the model's `stopBlock` step)
                    let t0 = Instant::now();
                    // (a stop on a dead loop returns at once: the controller is then already waiting again)
                    loop {
                        let st = sched.m.lock().unwrap();
                        if st.blocked[CTL] || st.waiting[CTL] || st.finished[CTL] || t0.elapsed() > plan.watchdog {
                            break;
                        }
                        drop(st);
                        std::thread::yield_now();
                    }
                    std::thread::sleep(Duration::from_micros(plan.park_us));
                }
                if session_done {
                    // wait for the receiver's turn to finish to see whether the channel is drained
                    let t0 = Instant::now();
                    loop {
                        let st = sched.m.lock().unwrap();
                        if st.running.is_none() && (st.waiting[RX] || st.finished[RX]) {
                            if st.log.len() > before && st.log.last().map_or(false, |e| e == "RN") {
                                rn_in_drain += 1;
                            }
                            if st.finished[RX] {
                                rn_in_drain = 2;
                            }
                            break;
                        }
                        drop(st);
                        if t0.elapsed() > plan.watchdog {
                            hang = Some("receiver turn did not finish".into());
                            break 'sched;
                        }
                        std::thread::sleep(Duration::from_micros(50));
                    }
                }
            }
        }
    }
    {
        let mut st = sched.m.lock().unwrap();
        st.over = true;
        st.free_run = true;
        sched.wake_all();
    }
    if hang.is_some() {
        // threads may be stuck inside the implementation: do not join.  (Lock order: a loop thread that
        // is still running takes the endpoint's lock and then the scheduler's, never both here.)
        let (completions, consumed, outstanding, protocol_errors) = {
            let mut f = fake.st.lock().unwrap();
            f.release_all = true;
            (f.completions.clone(), f.consumed, f.xfers.len(), f.protocol_errors.clone())
        };
        let (log, loop_events) = {
            let st = sched.m.lock().unwrap();
            (st.log.clone(), st.loop_events.clone())
        };
        return (
            Outcome {
                log,
                loop_events,
                completions,
                consumed,
                rx: RxReport::default(),
                outstanding,
                protocol_errors,
                stop_ok: None,
                stop_dur: Duration::ZERO,
                running_after: false,
                loop_poisoned,
                hang,
                params_seen,
                lock_free_after: false,
                start_again: None,
                freed_while_outstanding: FREED_WHILE_OUTSTANDING.load(Ordering::SeqCst) - freed0,
                kept: vec![],
            },
            None,
        );
    }
    let (rx, kept) = rx_handle.join().unwrap_or_default();
    let (strm, stop_ok, stop_dur, running_after, lock_free_after, start_again) = ctl_handle.join().expect("controller thread");
    cameleon::u3v::verif::set_yield_hook(None);
    let st = sched.m.lock().unwrap();
    let f = fake.st.lock().unwrap();
    let mut log = st.log.clone();
    log.push(format!("F{}", f.xfers.len()));
    let out = Outcome {
        log,
        loop_events: st.loop_events.clone(),
        completions: f.completions.clone(),
        consumed: f.consumed,
        rx,
        outstanding: f.xfers.len(),
        protocol_errors: f.protocol_errors.clone(),
        stop_ok: Some(stop_ok),
        stop_dur,
        running_after,
        loop_poisoned,
        hang: None,
        params_seen,
        lock_free_after,
        start_again,
        freed_while_outstanding: FREED_WHILE_OUTSTANDING.load(Ordering::SeqCst) - freed0,
        kept,
    };
    drop(f);
    drop(st);
    ctx.strm = strm;
    let keep = ctx.strm.is_some() && !loop_poisoned;
    (out, if keep { Some(ctx) } else { None })
}

// ---------------------------------------------------------------------------------------------
// Plans
// ---------------------------------------------------------------------------------------------

const LAYOUTS: &[(usize, usize, usize, usize, usize, usize)] = &[
    (64, 40, 16, 2, 8, 0),
    (52, 36, 0, 0, 0, 0),
    (60, 36, 8, 1, 0, 5),
    (56, 44, 10, 3, 4, 2),
    (52, 36, 32, 1, 0, 0),
    (64, 64, 0, 0, 24, 0),
    (64, 40, 4, 12, 3, 1),
];

const FAULTS: &[&str] = &[
    "none", "pending", "status-io", "status-disc", "status-timeout", "short", "empty", "garbage", "overflow",
    "submit-io", "submit-disc", "submit-timeout", "trailer-status", "valid-gt-read", "drop", "dup", "merge", "hole",
    "poll-err-io", "poll-err-disc",
    // the same error on several consecutive transfers: 2, 3, all remaining transfers of the frame, and
    // every transfer from there on (unplugged device: each one completes with NO_DEVICE)
    "burst2-io", "burst2-disc", "burst2-timeout", "burst3-io", "burst3-disc", "burst3-timeout",
    "frame-io", "frame-disc", "frame-timeout", "unplug-disc", "unplug-io",
];

#[derive(Clone, Debug)]
struct Spec {
    layout: usize,
    cap: usize,
    nframes: usize,
    fault: String,
    fframe: usize,
    fpart: usize,
    rx: usize,
    stop_pm: u64,
    seed: u64,
    extra_faults: u64,
    kill: Option<usize>,
    /// 0 = stop, 1 = close, 2 = drop the handle while the loop is running
    ctl_mode: u8,
    /// `start_streaming_loop` is called once more while the loop is running
    start_twice: bool,
    /// after the session ended with stop or close, a second session runs on the same handle
    restart: bool,
    /// asynchronous cancellation: completions of cancelled transfers come up to that many polls late
    late_cancel: u64,
    /// every other frame has an arbitrary payload length 0..=max
    short_frames: bool,
}

impl Spec {
    fn to_json(&self) -> Value {
        json!({"layout": self.layout, "cap": self.cap, "nframes": self.nframes, "fault": self.fault, "fframe": self.fframe,
               "fpart": self.fpart, "rx": self.rx, "stop_pm": self.stop_pm, "seed": self.seed.to_string(),
               "extra_faults": self.extra_faults, "kill": self.kill, "ctl_mode": self.ctl_mode,
               "start_twice": self.start_twice, "restart": self.restart, "late_cancel": self.late_cancel, "short_frames": self.short_frames})
    }
    fn from_json(v: &Value) -> Spec {
        Spec {
            layout: v["layout"].as_u64().unwrap() as usize,
            cap: v["cap"].as_u64().unwrap() as usize,
            nframes: v["nframes"].as_u64().unwrap() as usize,
            fault: v["fault"].as_str().unwrap().to_string(),
            fframe: v["fframe"].as_u64().unwrap() as usize,
            fpart: v["fpart"].as_u64().unwrap() as usize,
            rx: v["rx"].as_u64().unwrap() as usize,
            stop_pm: v["stop_pm"].as_u64().unwrap(),
            seed: v["seed"].as_str().unwrap().parse().unwrap(),
            extra_faults: v["extra_faults"].as_u64().unwrap_or(0),
            kill: v["kill"].as_u64().map(|x| x as usize),
            ctl_mode: v["ctl_mode"].as_u64().unwrap_or(0) as u8,
            start_twice: v["start_twice"].as_bool().unwrap_or(false),
            restart: v["restart"].as_bool().unwrap_or(false),
            late_cancel: v["late_cancel"].as_u64().unwrap_or(0),
            short_frames: v["short_frames"].as_bool().unwrap_or(false),
        }
    }
}

fn apply_fault(rng: &mut Rng, p: &Params, plan: &mut Plan, kind: &str, frame: usize, part: usize) {
    let t = p.t();
    // position of (frame, part) in the current script
    let pos = plan.tags.iter().position(|tg| tg.map_or(false, |tg| tg.frame == frame && tg.part == part));
    let slot_len = |part: usize| -> usize {
        if part == 0 {
            p.ls
        } else if part == t - 1 {
            p.ts
        } else {
            p.payload_slots()[part - 1]
        }
    };
    let spoil = |plan: &mut Plan, pos: usize| {
        if let Some(tg) = plan.tags[pos].as_mut() {
            tg.pristine = false;
        }
    };
    match kind {
        "none" => return,
        "pending" => {
            if let Some(pos) = pos {
                plan.pend_at.push(pos);
            }
        }
        k if k.starts_with("burst") || k.starts_with("frame-") || k.starts_with("unplug-") => {
            if let Some(pos) = pos {
                let cls = if k.ends_with("-io") {
                    Cls::Io
                } else if k.ends_with("-disc") {
                    Cls::Disc
                } else {
                    Cls::Timeout
                };
                let n = if k.starts_with("burst2") {
                    2
                } else if k.starts_with("burst3") {
                    3
                } else if k.starts_with("frame-") {
                    t - part
                } else {
                    plan.script.len() - pos
                };
                for q in pos..(pos + n).min(plan.script.len()) {
                    plan.script[q] = Item::Fault(cls);
                    spoil(plan, q);
                }
                if k.starts_with("unplug-") {
                    // the device never comes back: every later transfer fails the same way
                    for _ in 0..40 * t {
                        plan.script.push(Item::Fault(cls));
                        plan.tags.push(None);
                    }
                }
                if cls == Cls::Disc {
                    plan.disc_is_nodevice = true;
                }
                plan.conforming = false;
            }
        }
        "poll-err-io" | "poll-err-disc" => {
            if let Some(pos) = pos {
                plan.poll_err_at.push((pos, if kind == "poll-err-io" { Cls::Io } else { Cls::Disc }));
            }
        }
        "poll-err-forever" => {
            if let Some(pos) = pos {
                plan.poll_err_forever_at = Some((pos, Cls::Disc));
            }
        }
        "status-io" | "status-disc" | "status-timeout" => {
            if let Some(pos) = pos {
                let cls = match kind {
                    "status-io" => Cls::Io,
                    "status-disc" => Cls::Disc,
                    _ => Cls::Timeout,
                };
                plan.script[pos] = Item::Fault(cls);
                spoil(plan, pos);
            }
        }
        "short" | "empty" | "garbage" | "overflow" => {
            if let Some(pos) = pos {
                if let Item::Data(d) = &mut plan.script[pos] {
                    match kind {
                        "short" => {
                            let n = rng.below(d.len() as u64) as usize;
                            d.truncate(n);
                        }
                        "empty" => d.clear(),
                        "garbage" => {
                            let n = d.len();
                            *d = rng.bytes(n);
                        }
                        _ => {
                            let n = slot_len(part) + 1 + rng.below(8) as usize;
                            d.resize(n, 0xEE);
                        }
                    }
                }
                spoil(plan, pos);
                plan.conforming = false;
            }
        }
        "submit-io" | "submit-disc" | "submit-timeout" => {
            let cls = match kind {
                "submit-io" => Cls::Io,
                "submit-disc" => Cls::Disc,
                _ => Cls::Timeout,
            };
            plan.submit_fail.push(((frame * t + part) as u64, cls));
        }
        "trailer-status" | "valid-gt-read" => {
            let f = plan.frames[frame].clone();
            let pos = plan.tags.iter().position(|tg| tg.map_or(false, |tg| tg.frame == frame && tg.part == t - 1));
            if let Some(pos) = pos {
                let tr = if kind == "trailer-status" {
                    mk_trailer(f.block_id, f.kind, if rng.bool() { 0xA100 } else { 0xA101 }, f.valid as u64, 1)
                } else {
                    mk_trailer(f.block_id, f.kind, 0, f.payload.len() as u64 + 1 + rng.below(3), 1)
                };
                plan.script[pos] = Item::Data(tr);
                spoil(plan, pos);
                plan.conforming = false;
            }
        }
        "drop" => {
            if let Some(pos) = pos {
                plan.script.remove(pos);
                plan.tags.remove(pos);
                plan.pend_at.iter_mut().for_each(|x| {
                    if *x > pos {
                        *x -= 1
                    }
                });
                plan.conforming = false;
            }
        }
        "hole" => {
            // a NON-final payload packet arrives short (or empty), the later payload packets arrive as
            // usual, and the trailer declares no more valid bytes than were actually transferred
            let slots = p.payload_slots();
            let f = plan.frames[frame].clone();
            if slots.len() >= 2 && f.kind != 2 {
                let k = 1 + part % (slots.len() - 1); // a payload part that is not the last one
                let pos1 = plan.tags.iter().position(|tg| tg.map_or(false, |tg| tg.frame == frame && tg.part == k));
                if let Some(pos1) = pos1 {
                    if let Item::Data(d) = &mut plan.script[pos1] {
                        let cut = 1 + rng.below(d.len().max(1) as u64) as usize;
                        let n = d.len().saturating_sub(cut);
                        d.truncate(n);
                    }
                    spoil(plan, pos1);
                    let mut read = 0usize;
                    for k in 1..t - 1 {
                        if let Some(q) = plan.tags.iter().position(|tg| tg.map_or(false, |tg| tg.frame == frame && tg.part == k)) {
                            if let Item::Data(d) = &plan.script[q] {
                                read += d.len();
                            }
                        }
                    }
                    let post = plan.tags.iter().position(|tg| tg.map_or(false, |tg| tg.frame == frame && tg.part == t - 1));
                    if let Some(post) = post {
                        let valid = if rng.bool() { read } else { rng.below(read as u64 + 1) as usize };
                        plan.script[post] = Item::Data(mk_trailer(f.block_id, f.kind, 0, valid as u64, 1));
                        spoil(plan, post);
                    }
                    plan.conforming = false;
                }
            }
        }
        "merge" => {
            // the device loses the end of frame `frame` and the beginning of the next one: the host sees
            // leader + first `k` payload packets of one frame followed by the rest of the next frame
            let k = part.min(t - 2);
            let mut i = 0;
            while i < plan.script.len() {
                let kill = plan.tags[i].map_or(false, |tg| (tg.frame == frame && tg.part > k) || (tg.frame == frame + 1 && tg.part <= k));
                if kill {
                    plan.script.remove(i);
                    plan.tags.remove(i);
                } else {
                    i += 1;
                }
            }
            plan.pend_at.clear();
            plan.conforming = false;
        }
        "dup" => {
            if let Some(pos) = pos {
                let it = plan.script[pos].clone();
                plan.script.insert(pos, it);
                let mut tg = plan.tags[pos];
                if let Some(t) = tg.as_mut() {
                    t.pristine = false;
                }
                plan.tags.insert(pos, tg);
                plan.conforming = false;
            }
        }
        _ => panic!("unknown fault kind {kind}"),
    }
    plan.clean = false;
}

fn gen_plan(spec: &Spec) -> Plan {
    let mut rng = Rng::new(spec.seed);
    let (ls, ts, ps, pc, f1, f2) = LAYOUTS[spec.layout % LAYOUTS.len()];
    let params = Params { ls, ts, ps, pc, f1, f2, timeout_ms: 1 + rng.below(20) as u32 };
    let t = params.t();
    let max = params.max_payload();
    let last = params.payload_slots().last().copied().unwrap_or(0);
    let mut frames = vec![];
    let mut script = vec![];
    let mut tags = vec![];
    for f in 0..spec.nframes {
        // conforming frames: usually reaching into the last payload transfer; with `short_frames` every
        // other frame has ANY length 0..=max (a short transfer followed by empty transfers)
        let n = if t == 2 {
            0
        } else if spec.short_frames && f % 2 == 1 {
            rng.below(max as u64 + 1) as usize
        } else {
            max - last + 1 + rng.below(last as u64) as usize
        };
        let bid = 1000 + 7 * f as u64 + rng.below(5);
        let fr = mk_frame(&mut rng, bid, n);
        for (i, pk) in frame_packets(&params, &fr).into_iter().enumerate() {
            script.push(Item::Data(pk));
            tags.push(Some(Tag { frame: f, part: i, nparts: t, pristine: true }));
        }
        frames.push(fr);
    }
    let rx = RX_BEHAVIOURS[spec.rx % RX_BEHAVIOURS.len()].clone();
    let est = spec.nframes * (2 * t + 5) + 3 * t + 6;
    let mut plan = Plan {
        params,
        cap: spec.cap,
        frames,
        script,
        tags,
        pend_at: vec![],
        submit_fail: vec![],
        rx,
        stop_at: (est as u64 * spec.stop_pm / 1000) as usize,
        sched_seed: rng.next_u64(),
        clean: true,
        conforming: true,
        park_us: 300,
        kill_at_top: spec.kill,
        ctl_mode: spec.ctl_mode % 3,
        start_again_at: None,
        late_cancel: spec.late_cancel,
        watchdog: WATCHDOG,
        poll_err_at: vec![],
        poll_err_forever_at: None,
        disc_is_nodevice: false,
    };

    if spec.nframes > 0 {
        let fault = spec.fault.clone();
        apply_fault(&mut rng, &params, &mut plan, &fault, spec.fframe % spec.nframes, spec.fpart % t);
        for _ in 0..spec.extra_faults {
            let k = *rng.pick(&FAULTS[1..]);
            let (ff, fp) = (rng.below(spec.nframes as u64) as usize, rng.below(t as u64) as usize);
            apply_fault(&mut rng, &params, &mut plan, k, ff, fp);
        }
    }
    if spec.start_twice && spec.kill.is_none() {
        plan.start_again_at = Some(rng.below(plan.stop_at as u64 + 1) as usize);
    }
    plan
}

// ---------------------------------------------------------------------------------------------
// Property oracle on the implementation's own behaviour
// ---------------------------------------------------------------------------------------------

struct Verdict {
    violations: Vec<(Value, String)>,
    delivered: usize,
    produced: usize,
    dropped_full_or_closed: usize,
}

fn oracle(plan: &Plan, out: &Outcome) -> Verdict {
    let mut v: Vec<(Value, String)> = vec![];
    let t = plan.params.t();
    if let Some(h) = &out.hang {
        let cause = if plan.poll_err_forever_at.is_some() {
            "persistent-event-loop-error"
        } else if h.starts_with("stop/close/drop did not return") {
            "stop-does-not-return"
        } else if h.starts_with("the loop is still running") {
            "loop-runs-on-after-stop"
        } else if h.starts_with("session budget exhausted") {
            "session-budget-exhausted"
        } else {
            "no-progress(wall-clock)"
        };
        v.push((json!({"kind": "hang", "cause": cause}), format!("a thread made no progress: {h}")));
        return Verdict { violations: v, delivered: 0, produced: 0, dropped_full_or_closed: 0 };
    }
    if out.params_seen != Some(plan.params) {
        v.push((json!({"kind": "params"}), format!("StreamParams::from_control read {:?}, programmed {:?}", out.params_seen, plan.params)));
    }
    for e in &out.protocol_errors {
        v.push((json!({"kind": "pool-protocol"}), e.clone()));
    }
    if out.freed_while_outstanding > 0 {
        v.push((json!({"kind": "pool-protocol", "what": "buffer-freed-while-transfer-outstanding"}),
            format!("{} deallocation(s) hit the buffer of a transfer that was still outstanding (not yet cancelled AND reaped): with libusb the USB stack writes into freed memory", out.freed_while_outstanding)));
    }
    for e in &out.rx.problems {
        v.push((json!({"kind": "payload-mutated-or-aliased"}), e.clone()));
    }
    // iterations that reached `try_send(Ok(payload))`, with the script items they consumed
    let mut produced: Vec<(usize, Vec<usize>)> = vec![];
    let mut cur: Vec<usize> = vec![];
    let mut comp = out.completions.iter();
    for (i, e) in out.log.iter().enumerate() {
        if e == "Ytop" {
            cur.clear();
        } else if e.starts_with("PD") {
            if let Some((_, idx)) = comp.next() {
                cur.push(*idx);
            }
        } else if e == "Ysend" {
            produced.push((i, cur.clone()));
        }
    }
    let block_id_of = |idx: usize| -> Option<u64> {
        match &plan.script[idx] {
            Item::Data(d) if d.len() >= 16 => Some(u64::from_le_bytes(d[8..16].try_into().unwrap())),
            _ => None,
        }
    };
    let mut next_cand = 0usize;
    let mut last_frame: Option<usize> = None;
    let mut delivered_frames = BTreeSet::new();
    for r in &out.rx.recs {
        // the iteration that produced this payload: the next one (in order) whose payload packets
        // carry these bytes (fallback: whose leader packet carries this block id)
        let sent_of = |c: usize| -> Vec<u8> {
            let items = &produced[c].1;
            if items.len() < 2 {
                return vec![];
            }
            items[1..items.len() - 1]
                .iter()
                .flat_map(|i| match &plan.script[*i] {
                    Item::Data(d) => d.clone(),
                    _ => vec![],
                })
                .collect()
        };
        let by_bytes = (next_cand..produced.len()).find(|&c| {
            let sent = sent_of(c);
            produced[c].0 < r.log_index && r.valid <= sent.len() && sent[..r.valid] == r.bytes[..]
                && (r.valid > 0 || produced[c].1.first().and_then(|i| block_id_of(*i)) == Some(r.id))
        });
        let found = by_bytes.or_else(|| {
            (next_cand..produced.len()).find(|&c| {
                produced[c].0 < r.log_index && produced[c].1.first().and_then(|i| block_id_of(*i)) == Some(r.id)
            })
        });
        let Some(c) = found else {
            v.push((json!({"kind": "unexplained-delivery"}),
                format!("Ok payload id {} was delivered but no iteration (in order, not already matched) produced it: duplicated or reordered delivery", r.id)));
            continue;
        };
        if produced[c].1.first().and_then(|i| block_id_of(*i)) != Some(r.id) {
            v.push((
                json!({"kind": "mixed-frame-ok", "cause": "stale-leader", "conforming_device": plan.conforming}),
                format!("Ok payload carries block id {} (leader bytes left over from an earlier frame) but its payload and trailer are those of script items {:?}: the leader packet of that iteration was too short to overwrite the leader buffer", r.id, produced[c].1),
            ));
            continue;
        }
        next_cand = c + 1;
        let items = &produced[c].1;
        let tg: Vec<Option<Tag>> = items.iter().map(|i| plan.tags[*i]).collect();
        // one frame as the DEVICE sent it: its leader first, its trailer last, only payload packets of the
        // same frame in between (a device that repeats or omits payload packets of a frame sends other
        // bytes, but still one frame; the bytes are compared below with what it actually sent)
        let one_frame = items.len() == t
            && tg.iter().enumerate().all(|(k, x)| {
                x.map_or(false, |x| {
                    x.frame == tg[0].unwrap().frame
                        && if k == 0 {
                            x.part == 0
                        } else if k == t - 1 {
                            x.part == x.nparts - 1
                        } else {
                            x.part >= 1 && x.part + 1 < x.nparts
                        }
                })
            });
        if !one_frame {
            let frames: BTreeSet<usize> = tg.iter().flatten().map(|x| x.frame).collect();
            v.push((
                json!({"kind": "mixed-frame-ok", "conforming_device": plan.conforming, "frames_mixed": frames.len()}),
                format!("Ok payload id {} assembled from script items {:?} (frame,part = {:?}) which are not the {} packets of one frame",
                    r.id, items, tg.iter().map(|x| x.map(|x| (x.frame, x.part))).collect::<Vec<_>>(), t),
            ));
            continue;
        }
        // a frame whose trailer reports discarded/overrun data must not be delivered as Ok
        if let Item::Data(tr) = &plan.script[items[t - 1]] {
            if tr.len() >= 18 && u16::from_le_bytes([tr[16], tr[17]]) != 0 {
                v.push((json!({"kind": "ok-despite-trailer-status"}),
                    format!("Ok payload id {} although its trailer reports payload status {:#x}", r.id, u16::from_le_bytes([tr[16], tr[17]]))));
            }
        }
        let f = tg[0].unwrap().frame;
        if let Some(lf) = last_frame {
            if f <= lf {
                v.push((json!({"kind": "order"}), format!("frame {f} delivered after frame {lf}")));
            }
        }
        last_frame = Some(f);
        delivered_frames.insert(f);
        // bytes: what the device actually sent for this frame
        let sent: Vec<u8> = items[1..t - 1]
            .iter()
            .flat_map(|i| match &plan.script[*i] {
                Item::Data(d) => d.clone(),
                _ => vec![],
            })
            .collect();
        // byte for byte: the valid bytes must be the bytes the device sent for this frame, in order,
        // without gaps (whatever the packet boundaries were)
        if r.valid > sent.len() || r.bytes[..] != sent[..r.valid] {
            let first_bad = (0..r.valid).find(|j| sent.get(*j) != Some(&r.bytes[*j])).unwrap_or(0);
            let from_earlier = (0..f).any(|g| plan.frames[g].payload.get(first_bad) == Some(&r.bytes[first_bad]));
            v.push((json!({"kind": "bytes", "first_bad_offset_from_earlier_frame": from_earlier}),
                format!("Ok payload of frame {f} (valid {}) is not the byte sequence the device sent for it ({} bytes): first difference at offset {first_bad}", r.valid, sent.len())));
        }
        if tg.iter().all(|x| x.unwrap().pristine) {
            let fr = &plan.frames[f];
            if r.id != fr.block_id || r.valid != fr.valid {
                v.push((json!({"kind": "fields"}), format!("frame {f}: id/valid {}/{} expected {}/{}", r.id, r.valid, fr.block_id, fr.valid)));
            }
        }
    }
    // everything delivered when the receiver keeps up
    let complete_frames = out.consumed / t;
    if plan.clean && plan.kill_at_top.is_none() && plan.cap >= plan.frames.len() + 1 && plan.rx.close_after.is_none() {
        for f in 0..complete_frames.min(plan.frames.len()) {
            if !delivered_frames.contains(&f) {
                v.push((json!({"kind": "frame-lost-although-keeping-up"}), format!("frame {f} was fully transferred, no fault, channel never full, yet it was not delivered")));
            }
        }
    }
    // stop / close / drop
    let kc = out.log.iter().position(|e| e == "KC");
    let kr = out.log.iter().position(|e| matches!(e.as_str(), "KRok" | "KRerr" | "KLok" | "KLerr" | "KD"));
    let what = ["stop_streaming_loop", "close", "drop"][plan.ctl_mode as usize % 3];
    match (kc, kr, out.stop_ok) {
        (Some(kc), Some(kr), Some(ok)) => {
            if plan.kill_at_top.is_none() && !out.loop_poisoned && !ok {
                v.push((json!({"kind": "stop-error", "call": what}), format!("{what} returned an error although the loop was alive")));
            }
            if out.loop_poisoned && plan.kill_at_top.is_none() {
                v.push((json!({"kind": "loop-panicked"}), "the streaming loop thread panicked".into()));
            }
            if out.running_after {
                v.push((json!({"kind": "flag-not-cleared", "call": what}), format!("is_loop_running() is still true after {what} returned")));
            }
            let loop_after_kc = out.loop_events.iter().filter(|i| **i > kc).count();
            let bound = 3 * t + 12 + plan.late_cancel as usize * t;
            if loop_after_kc > bound {
                v.push((json!({"kind": "stop-unbounded", "call": what}), format!("{loop_after_kc} loop events after the {what} request (bound {bound})")));
            }
            if out.loop_events.iter().any(|i| *i > kr) {
                let lo = kr.saturating_sub(6);
                let hi = (kr + 8).min(out.log.len());
                v.push((json!({"kind": "loop-after-stop", "call": what}),
                    format!("the loop performed an operation after {what} returned (events {lo}..{hi}: {})", out.log[lo..hi].join(" "))));
            }
            if plan.ctl_mode != 0 && !out.lock_free_after {
                v.push((json!({"kind": "close-returned-while-loop-alive", "call": what}),
                    format!("{what} returned while the loop thread still held the receive channel")));
            }
            if plan.kill_at_top.is_some() && out.loop_poisoned && ok && plan.ctl_mode != 2 {
                // the loop died before the rendezvous: the property expects an error return
                let died_before = out.log[..kc].iter().filter(|e| *e == "Ytop").count() >= plan.kill_at_top.unwrap();
                if died_before {
                    v.push((json!({"kind": "stop-ok-on-dead-loop", "call": what}), format!("{what} returned Ok although the loop thread had already died")));
                }
            }
        }
        _ => v.push((json!({"kind": "stop-missing", "call": what}), format!("the {what} request did not complete"))),
    }
    if let Some(r) = &out.start_again {
        if r != "InStreaming" {
            v.push((json!({"kind": "start-while-running"}), format!("start_streaming_loop on a running handle returned {r} instead of InStreaming")));
        }
    }
    if out.outstanding != 0 {
        v.push((json!({"kind": "outstanding-transfer"}), format!("{} transfer(s) still outstanding after stop", out.outstanding)));
    }
    let delivered = out.rx.recs.len();
    Verdict { violations: v, delivered, produced: produced.len(), dropped_full_or_closed: produced.len().saturating_sub(delivered) }
}

fn model_request(plan: &Plan, out: &Outcome) -> String {
    let p = &plan.params;
    let mut s = format!("c12 trace {} {} {} {} {} {} {} {} 5 {}", profile(), p.ls, p.ts, p.ps, p.pc, p.f1, p.f2, plan.cap, plan.late_cancel);
    for it in &plan.script {
        match it {
            Item::Data(d) => {
                s.push_str(" id");
                s.push_str(&hex(d));
            }
            Item::Fault(c) => {
                s.push_str(" if");
                s.push_str(c.name());
            }
        }
    }
    for e in &out.log {
        s.push(' ');
        s.push_str(e);
    }
    s
}

// ---------------------------------------------------------------------------------------------

struct Totals {
    states: HashSet<u64>,
    transitions: HashSet<u64>,
    accepted: u64,
    rejected: u64,
}

static HANGS: std::sync::atomic::AtomicUsize = std::sync::atomic::AtomicUsize::new(0);

fn run_spec(rep: &mut Report, tot: &mut Totals, queue: &mut Vec<(String, Spec)>, spec: &Spec, src: &str) {
    // every hung session costs a watchdog period and leaves stuck threads behind: two are enough
    if HANGS.load(std::sync::atomic::Ordering::SeqCst) >= 2 {
        rep.count("skipped-after-two-hung-sessions");
        return;
    }
    if let Some((t0, budget)) = RUN_T0.get() {
        if t0.elapsed() > *budget {
            if !RUN_BUDGET_HIT.swap(true, std::sync::atomic::Ordering::SeqCst) {
                rep.violation(json!({"kind": "run-budget-exhausted"}),
                    &format!("the run used up its wall-clock budget of {budget:?}: the remaining sessions were not run (results so far are reported)"),
                    spec.to_json());
            }
            rep.count("skipped-run-budget-exhausted");
            return;
        }
    }
    let mut plan = gen_plan(spec);
    let t0 = Instant::now();
    let (mut out, mut ctx) = run_session(&plan, new_ctx());
    // The bound on the loop's steps counts from the moment the controller is parked in `send`, which
    // the harness cannot observe: retry with a longer parking delay before reporting it.
    for park in [5_000u64, 50_000] {
        if oracle(&plan, &out).violations.iter().any(|(s, _)| s["kind"] == "stop-unbounded") {
            rep.count("stop-bound-retry(controller not yet parked)");
            plan.park_us = park;
            let r = run_session(&plan, new_ctx());
            out = r.0;
            ctx = r.1;
        }
    }
    // a verdict that rests on wall-clock patience is re-checked once with ten times more of it
    if out.hang.as_ref().map_or(false, |h| h.starts_with("no progress for") || h.starts_with("receiver turn")) {
        rep.count("wall-clock-verdict-rechecked(watchdog x10)");
        plan.watchdog = WATCHDOG * 10;
        let r = run_session(&plan, new_ctx());
        out = r.0;
        ctx = r.1;
    }
    // thread-death sessions (a panic injected into the loop thread) are not sent to the model; what is
    // observed while a thread unwinds is re-checked once and reported only if it reproduces
    if plan.kill_at_top.is_some() && out.hang.is_none() && !oracle(&plan, &out).violations.is_empty() {
        rep.count("thread-death-session-rechecked");
        let r = run_session(&plan, new_ctx());
        out = r.0;
        ctx = r.1;
    }
    if out.stop_dur > Duration::from_secs(2) {
        rep.count("stop/close/drop took more than 2 s of wall-clock (not a verdict)");
    }
    if t0.elapsed() > Duration::from_millis(500) {
        rep.count("slow-session(>0.5s)");
        if std::env::var("C12_DEBUG").is_ok() {
            eprintln!("slow session {:?}: {:?} events={}", t0.elapsed(), spec, out.log.len());
        }
    }
    if std::env::var("C12_TRACE").is_ok() {
        eprintln!("TRACE {}", out.log.join(" "));
    }
    rep.count(["ctl/stop", "ctl/close", "ctl/drop"][plan.ctl_mode as usize % 3]);
    if plan.start_again_at.is_some() {
        rep.count("ctl/start-while-running");
    }
    let mut combined: Option<String> = None;
    // restart: a second session (other layout, other way of ending it) on the SAME handle
    if spec.restart && out.hang.is_none() {
        if let Some(mut c) = ctx.take() {
            let full = plan.params.max_payload();
            c.foreign = std::mem::take(&mut out.kept).into_iter().map(|(t, p)| (p, full, t)).collect();
            c.tok_base = 100_000;
            if !c.foreign.is_empty() {
                rep.count("second-session:with-foreign-payloads-to-send-back");
            }
            let mut spec2 = spec.clone();
            spec2.restart = false;
            spec2.layout = spec.layout + 1;
            spec2.ctl_mode = (spec.ctl_mode + 1) % 3;
            spec2.seed = spec.seed.wrapping_mul(31).wrapping_add(7);
            spec2.kill = None;
            let plan2 = gen_plan(&spec2);
            let (out2, _) = run_session(&plan2, c);
            let verdict2 = oracle(&plan2, &out2);
            rep.count("session/second(restart on the same handle)");
            rep.count(if verdict2.delivered > 0 { "second-session:delivered-some" } else { "second-session:delivered-none" });
            let hang2 = out2.hang.is_some();
            for (mut sig, what) in verdict2.violations {
                sig["session"] = json!(2);
                rep.violation(sig, &format!("second session on the same handle: {what}"), spec.to_json());
            }
            if hang2 {
                HANGS.fetch_add(1, std::sync::atomic::Ordering::SeqCst);
            } else if out.hang.is_none() && plan.kill_at_top.is_none() {
                // BOTH sessions are accepted by ONE run of the model (restart step in between)
                let prefix = format!("c12 trace {} ", profile());
                let s1 = model_request(&plan, &out);
                let s2 = model_request(&plan2, &out2);
                combined = Some(format!("c12 mtrace {} {} | {}", profile(), &s1[prefix.len()..], &s2[prefix.len()..]));
                rep.count("two-session history accepted by one model run");
            }
        }
    }
    let verdict = oracle(&plan, &out);
    let canon = format!("{:?}", spec);
    rep.case(&canon, verdict.delivered > 0);
    rep.count(&format!("src/{src}"));
    rep.count(&format!("fault/{}", spec.fault));
    rep.count(&format!("rx/{}", plan.rx.name));
    rep.count(&format!("cap/{}", plan.cap));
    rep.count(&format!("layout/T={}", plan.params.t()));
    rep.count(if verdict.delivered > 0 { "delivered:some" } else { "delivered:none" });
    if verdict.dropped_full_or_closed > 0 {
        rep.count("frames-dropped(full/closed/in-channel-at-end)");
    }
    for e in &out.log {
        let k: String = e.chars().take_while(|c| c.is_ascii_alphabetic()).collect();
        rep.count(&format!("event/{k}"));
    }
    if rep.samples.len() < 4 && verdict.delivered > 1 {
        rep.sample(json!({"spec": spec.to_json(), "events": out.log.len(), "delivered": verdict.delivered,
                          "trace_head": out.log.iter().take(40).cloned().collect::<Vec<_>>().join(" ")}));
    }
    let hang = out.hang.is_some();
    for (sig, what) in verdict.violations {
        rep.violation(sig, &what, spec.to_json());
    }
    if hang {
        // threads may be stuck: report and leave
        HANGS.fetch_add(1, std::sync::atomic::Ordering::SeqCst);
        return;
    }
    if let Some(c) = combined {
        queue.push((c, spec.clone()));
    } else if plan.kill_at_top.is_none() {
        queue.push((model_request(&plan, &out), spec.clone()));
    } else {
        rep.count("thread-death-injection(not sent to the model)");
    }
    let _ = tot;
}

fn flush(rep: &mut Report, tot: &mut Totals, queue: &mut Vec<(String, Spec)>, camdrv: &str) {
    if queue.is_empty() {
        return;
    }
    let reqs: Vec<String> = queue.iter().map(|q| q.0.clone()).collect();
    let answers = run_model_par(camdrv, &reqs, true);
    for (i, (req, spec)) in queue.iter().enumerate() {
        let a = answers.get(i).map(|s| s.as_str()).unwrap_or("<missing>");
        if let Some(rest) = a.strip_prefix("ACCEPT ") {
            tot.accepted += 1;
            for (k, tok) in rest.split(' ').enumerate() {
                if k == 0 {
                    continue;
                }
                if let Some((t, s)) = tok.split_once(':') {
                    if let (Ok(t), Ok(s)) = (u64::from_str_radix(t, 16), u64::from_str_radix(s, 16)) {
                        tot.transitions.insert(t);
                        tot.states.insert(s);
                    }
                }
            }
        } else {
            tot.rejected += 1;
            rep.n_disagreements += 1;
            if rep.disagreements.len() < 40 {
                let short: String = req.chars().take(600).collect();
                rep.disagreements.push(json!({"request": short, "impl": "trace of the real StreamingLoop", "model": a, "spec": spec.to_json()}));
            }
        }
    }
    *rep.dist.entry("model_requests".into()).or_insert(0) += reqs.len() as u64;
    queue.clear();
}

fn main() {
    let args = parse_args();
    std::panic::set_hook(Box::new(|_| {}));
    let mut rep = Report::new(
        "C12",
        "one case = one streaming session (layout x capacity x frames x fault x receiver behaviour x stop time x schedule seed) of the real StreamingLoop over the scripted endpoint, validated as a trace against the Lean transition system; non-trivial when at least one Ok payload reached the receiver; distinct by the full session spec",
    );
    let mut tot = Totals { states: HashSet::new(), transitions: HashSet::new(), accepted: 0, rejected: 0 };
    let mut queue: Vec<(String, Spec)> = vec![];
    let mut rng = Rng::new(args.seed);

    if let Some(path) = &args.replay {
        let v: Value = serde_json::from_str(&std::fs::read_to_string(path).unwrap()).unwrap();
        let spec = Spec::from_json(&v["replay"]);
        run_spec(&mut rep, &mut tot, &mut queue, &spec, "replay");
        flush(&mut rep, &mut tot, &mut queue, &args.camdrv);
        finish(&mut rep, &tot, &args);
        return;
    }

    // corpus
    if let Ok(rd) = std::fs::read_dir("/verif/corpus/C12") {
        let mut files: Vec<_> = rd.flatten().map(|e| e.path()).collect();
        files.sort();
        for f in files {
            if let Ok(s) = std::fs::read_to_string(&f) {
                if let Ok(v) = serde_json::from_str::<Value>(&s) {
                    let spec = Spec::from_json(&v["replay"]);
                    run_spec(&mut rep, &mut tot, &mut queue, &spec, "corpus");
                }
            }
        }
    }

    let thorough = args.thorough();
    let _ = RUN_T0.set((Instant::now(), if thorough { RUN_BUDGET_THOROUGH } else { RUN_BUDGET_QUICK }));
    // (1) every single fault at every transfer index x receiver behaviour x capacity x stop time
    // quick: final1 != 0 && final2 == 0 (0), final1 == 0 && final2 != 0 (2), both 0 (4); thorough adds both != 0
    // (3, 6), no payload transfer at all (1) and count == 0 (5)
    let layouts: Vec<usize> = if thorough { (0..LAYOUTS.len()).collect() } else { vec![0, 2, 4] };
    let mut grid = 0u64;
    for &layout in &layouts {
        let (ls, ts, ps, pc, f1, f2) = LAYOUTS[layout];
        let t = Params { ls, ts, ps, pc, f1, f2, timeout_ms: 1 }.t();
        for fault in FAULTS {
            for part in 0..t {
                if (*fault == "trailer-status" || *fault == "valid-gt-read") && part != t - 1 {
                    continue;
                }
                if *fault == "none" && part != 0 {
                    continue;
                }
                let combos: Vec<(usize, usize, u64)> = if thorough {
                    // receiver behaviours x capacities 1..4 x stop times
                    let mut c = vec![];
                    for rx in 0..RX_BEHAVIOURS.len() {
                        for cap in 1..=4 {
                            c.push((rx, cap, [150u64, 450, 800, 1250][(rx + cap + part) % 4]));
                        }
                    }
                    c
                } else {
                    vec![((grid as usize) % RX_BEHAVIOURS.len(), 1 + (grid as usize / 7) % 4, [300u64, 700, 1200][grid as usize % 3])]
                };
                for (rx, cap, stop_pm) in combos {
                    grid += 1;
                    let spec = Spec {
                        layout,
                        cap,
                        nframes: 4,
                        fault: fault.to_string(),
                        fframe: 1 + (grid as usize % 2),
                        fpart: part,
                        rx,
                        stop_pm,
                        seed: args.seed.wrapping_mul(1_000_003).wrapping_add(grid),
                        extra_faults: 0,
                        kill: None,
                        ctl_mode: (grid % 3) as u8,
                        start_twice: grid % 5 == 0,
                        restart: grid % 4 == 0,
                        late_cancel: grid % 3,
                        short_frames: grid % 2 == 0,
                    };
                    run_spec(&mut rep, &mut tot, &mut queue, &spec, "grid");
                }
            }
        }
        flush(&mut rep, &mut tot, &mut queue, &args.camdrv);
    }
    // (2) clean sessions with a large channel: everything must arrive
    let n_clean = if thorough { 300 } else { 30 };
    for i in 0..n_clean {
        let nframes = 1 + rng.below(8) as usize;
        let spec = Spec {
            layout: rng.below(LAYOUTS.len() as u64) as usize,
            cap: nframes + 1 + rng.below(3) as usize,
            nframes,
            fault: "none".into(),
            fframe: 0,
            fpart: 0,
            rx: *rng.pick(&[0usize, 1, 2, 3, 4]),
            stop_pm: 1000 + rng.below(400),
            seed: rng.next_u64(),
            extra_faults: 0,
            kill: None,
            ctl_mode: rng.below(3) as u8,
            start_twice: rng.chance(1, 4),
            restart: rng.chance(1, 3),
            late_cancel: rng.below(4),
            short_frames: rng.bool(),
        };
        run_spec(&mut rep, &mut tot, &mut queue, &spec, "clean");
        if i % 100 == 99 {
            flush(&mut rep, &mut tot, &mut queue, &args.camdrv);
        }
    }
    // (3) random sessions with several faults, all stop times incl. immediately
    let n_rand = if thorough { 1500 } else { 120 };
    for i in 0..n_rand {
        let nframes = rng.below(10) as usize;
        let spec = Spec {
            layout: rng.below(LAYOUTS.len() as u64) as usize,
            cap: 1 + rng.below(4) as usize,
            nframes,
            fault: rng.pick(FAULTS).to_string(),
            fframe: rng.below(10) as usize,
            fpart: rng.below(8) as usize,
            rx: rng.below(RX_BEHAVIOURS.len() as u64) as usize,
            stop_pm: if rng.chance(1, 10) { 0 } else { rng.below(1500) },
            seed: rng.next_u64(),
            extra_faults: rng.below(4),
            kill: None,
            ctl_mode: rng.below(3) as u8,
            start_twice: rng.chance(1, 4),
            restart: rng.chance(1, 3),
            late_cancel: rng.below(4),
            short_frames: rng.bool(),
        };
        run_spec(&mut rep, &mut tot, &mut queue, &spec, "random");
        if i % 200 == 199 {
            flush(&mut rep, &mut tot, &mut queue, &args.camdrv);
        }
    }
    // (3b) KNOWN FINDING: the event loop fails on every poll from some transfer on; `AsyncPool::drop`
    // (`while !is_empty() { poll().ok() }`) then spins forever and stop never returns.
    // These sessions always run; the orchestrator matches the violation against known_findings.json.
    {
        for k in 0..(if thorough { 4 } else { 1 }) {
            let spec = Spec {
                layout: [0usize, 2, 4, 3][k % 4],
                cap: 2,
                nframes: 4,
                fault: "poll-err-forever".into(),
                fframe: 1,
                fpart: k % 3,
                // (a receiver that is never scheduled: the loop reaches the failing transfer before the stop)
                rx: 4,
                stop_pm: 1400,
                seed: args.seed.wrapping_add(k as u64),
                extra_faults: 0,
                kill: None,
                ctl_mode: (k % 3) as u8,
                start_twice: false,
                restart: false,
                late_cancel: 0,
                short_frames: false,
            };
            // does not count against the limit of hung sessions
            let before = HANGS.load(std::sync::atomic::Ordering::SeqCst);
            run_spec(&mut rep, &mut tot, &mut queue, &spec, "persistent-event-loop-error");
            HANGS.store(before, std::sync::atomic::Ordering::SeqCst);
        }
    }
    // (4) the loop thread dies (injected panic at a yield point): stop must return an error, flag cleared
    let n_kill = if thorough { 60 } else { 10 };
    for _ in 0..n_kill {
        let spec = Spec {
            layout: rng.below(LAYOUTS.len() as u64) as usize,
            cap: 1 + rng.below(4) as usize,
            nframes: 3,
            fault: "none".into(),
            fframe: 0,
            fpart: 0,
            rx: rng.below(5) as usize,
            stop_pm: 400 + rng.below(900),
            seed: rng.next_u64(),
            extra_faults: 0,
            kill: Some(1 + rng.below(4) as usize),
            ctl_mode: rng.below(3) as u8,
            start_twice: false,
            restart: false,
            late_cancel: rng.below(3),
            short_frames: false,
        };
        run_spec(&mut rep, &mut tot, &mut queue, &spec, "thread-death");
    }
    flush(&mut rep, &mut tot, &mut queue, &args.camdrv);
    finish(&mut rep, &tot, &args);
}

fn finish(rep: &mut Report, tot: &Totals, args: &Args) {
    rep.extra.insert("states".into(), json!(tot.states.len()));
    rep.extra.insert("transitions".into(), json!(tot.transitions.len()));
    rep.extra.insert("traces_validated_against_impl".into(), json!(tot.accepted));
    rep.extra.insert("traces_rejected".into(), json!(tot.rejected));
    rep.write(args);
    // threads of a hung session may still be alive
    std::process::exit(0);
}
