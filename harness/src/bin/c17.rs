//! C17 — GenApi XML parsing preserves every declared node, property, default and reference.
//!
//! Generates schema-ordered GenApi documents from a node model (all 20 element kinds,
//! Group / StructReg included), renders them to XML text, runs the REAL
//! `GenApiBuilder::build` on them and dumps every public getter into the canonical answer
//! of `/verif/work/C17/PROTOCOL.md`; the same tree (prefix encoded) goes to the Lean driver.
//! Oracles on the implementation's own outputs: `retrievable` (generator's expectation per
//! node), `struct-desugar` twin, `group-flat` twin.  A separate malformed stream only
//! checks model-vs-implementation agreement.

use camharness::*;
use cameleon_genapi::builder::{CacheStoreBuilder, GenApiBuilder};
use cameleon_genapi::elem_type::{AddressKind, BitMask, ImmOrPNode, NamedValue, ValueKind};
use cameleon_genapi::formula::{self, Expr};
use cameleon_genapi::interface::{IBoolean, IEnumeration, IFloat, IInteger, INode, IString};
use cameleon_genapi::{CacheStore, Device, ValueCtxt};
use cameleon_genapi::store::{
    DefaultCacheStore, DefaultNodeStore, DefaultValueStore, NodeData, NodeId, NodeStore, ValueData,
    ValueId, ValueStore,
};
use cameleon_genapi::{NodeBase, RegisterBase, RegisterDescription};
use std::collections::{BTreeMap, HashSet};

// ---------------------------------------------------------------------------------------
// XML tree, renderer, request encoder
// ---------------------------------------------------------------------------------------

#[derive(Clone, Debug, PartialEq)]
enum X {
    /// `tag` / attribute names may carry a namespace prefix (`xsi:schemaLocation`) and attributes
    /// named `xmlns` / `xmlns:*` are namespace declarations: both are rendered into the XML text,
    /// but roxmltree reports LOCAL names and does not list namespace declarations as attributes,
    /// so the tree sent to the model has local names and no `xmlns*` attributes.
    E { tag: String, attrs: Vec<(String, String)>, children: Vec<X> },
    T(String),
    C(String),
    /// processing instruction `<?target data?>`
    P(String),
}

fn xe(tag: &str, attrs: Vec<(String, String)>, children: Vec<X>) -> X {
    X::E { tag: tag.into(), attrs, children }
}

fn local(name: &str) -> &str {
    match name.find(':') {
        Some(i) => &name[i + 1..],
        None => name,
    }
}

fn is_ns_decl(name: &str) -> bool {
    name == "xmlns" || name.starts_with("xmlns:")
}

impl X {
    fn tag(&self) -> &str {
        match self {
            X::E { tag, .. } => local(tag),
            _ => "",
        }
    }
}

/// lowercase hex without the `-` convention (answers).
fn hx(s: &str) -> String {
    let mut o = String::with_capacity(s.len() * 2);
    for b in s.bytes() {
        o.push_str(&format!("{:02x}", b));
    }
    o
}

/// Escapes plus (randomly) numeric character references; `extra` are further characters that
/// must be escaped (`"` or `'` in attribute values).
fn esc(s: &str, rng: &mut Rng, attr_quote: Option<char>) -> String {
    let mut o = String::with_capacity(s.len() + 8);
    for c in s.chars() {
        match c {
            '&' => o.push_str("&amp;"),
            '<' => o.push_str("&lt;"),
            '>' if attr_quote.is_none() => o.push_str("&gt;"),
            '"' if attr_quote == Some('"') => o.push_str("&quot;"),
            '\'' if attr_quote == Some('\'') => o.push_str("&apos;"),
            '\n' if attr_quote.is_none() && rng.chance(1, 6) => o.push_str("\r\n"),
            c if !c.is_whitespace() && rng.chance(1, 40) => {
                if rng.bool() {
                    o.push_str(&format!("&#x{:X};", c as u32));
                } else {
                    o.push_str(&format!("&#{};", c as u32));
                }
            }
            c => o.push(c),
        }
    }
    o
}

fn render(x: &X, rng: &mut Rng, out: &mut String) {
    match x {
        X::T(t) => {
            // a whole text node as one CDATA section now and then (roxmltree reports it as text)
            if !t.contains("]]>") && !t.trim().is_empty() && rng.chance(1, 25) {
                out.push_str("<![CDATA[");
                out.push_str(t);
                out.push_str("]]>");
            } else {
                out.push_str(&esc(t, rng, None));
            }
        }
        X::C(c) => {
            out.push_str("<!--");
            out.push_str(c);
            out.push_str("-->");
        }
        X::P(p) => {
            out.push_str("<?");
            out.push_str(p);
            out.push_str("?>");
        }
        X::E { tag, attrs, children } => {
            out.push('<');
            out.push_str(tag);
            for (k, v) in attrs {
                out.push_str(if rng.chance(1, 10) { "\n   " } else { " " });
                out.push_str(k);
                let q = if rng.chance(1, 5) { '\'' } else { '"' };
                out.push('=');
                out.push(q);
                out.push_str(&esc(v, rng, Some(q)));
                out.push(q);
            }
            if children.is_empty() && rng.bool() {
                out.push_str("/>");
                return;
            }
            out.push('>');
            for c in children {
                render(c, rng, out);
            }
            out.push_str("</");
            out.push_str(tag);
            out.push('>');
        }
    }
}

fn render_doc(root: &X, rng: &mut Rng) -> String {
    let mut s = String::new();
    match rng.below(3) {
        0 => s.push_str("<?xml version=\"1.0\" encoding=\"UTF-8\"?>\n"),
        1 => s.push_str("<?xml version=\"1.0\"?>"),
        _ => {}
    }
    render(root, rng, &mut s);
    if rng.bool() {
        s.push('\n');
    }
    s
}

fn encode(x: &X, out: &mut String) {
    match x {
        X::T(t) => {
            out.push_str(" T ");
            out.push_str(&hex(t.as_bytes()));
        }
        X::C(c) => {
            out.push_str(" C ");
            out.push_str(&hex(c.as_bytes()));
        }
        X::P(_) => out.push_str(" P"),
        X::E { tag, attrs, children } => {
            out.push_str(" E ");
            out.push_str(&hex(local(tag).as_bytes()));
            let attrs: Vec<&(String, String)> = attrs.iter().filter(|a| !is_ns_decl(&a.0)).collect();
            out.push_str(&format!(" {}", attrs.len()));
            for (k, v) in attrs {
                out.push(' ');
                out.push_str(&hex(local(k).as_bytes()));
                out.push(' ');
                out.push_str(&hex(v.as_bytes()));
            }
            out.push_str(&format!(" {}", children.len()));
            for c in children {
                encode(c, out);
            }
        }
    }
}

/// Digest of a parsed formula (`#` + FNV-1a of its `Debug` text): formula parsing itself is
/// property C05; the model gets `text -> digest` for every element text of the document that
/// `formula::parse` accepts (absent = `formula::parse` panics on it).
fn fdigest(e: &Expr) -> String {
    format!("#{:016x}", fnv_bytes(FNV_INIT, format!("{:?}", e).as_bytes()))
}

fn formula_digest_of(text: &str) -> Option<String> {
    use std::collections::HashMap;
    use std::sync::Mutex;
    static CACHE: Mutex<Option<HashMap<String, Option<String>>>> = Mutex::new(None);
    let mut g = CACHE.lock().unwrap();
    let m = g.get_or_insert_with(HashMap::new);
    if let Some(v) = m.get(text) {
        return v.clone();
    }
    let t = text.to_string();
    let v = catch(|| formula::parse(&t)).ok().map(|ast| fdigest(&ast));
    m.insert(text.to_string(), v.clone());
    v
}

fn collect_texts(x: &X, out: &mut Vec<String>) {
    if let X::E { children, .. } = x {
        let mut t = String::new();
        for c in children {
            if let X::T(s) = c {
                t.push_str(s);
            }
        }
        if !out.contains(&t) {
            out.push(t);
        }
        for c in children {
            collect_texts(c, out);
        }
    }
}

fn request_line(root: &X, looks: &[String]) -> String {
    let mut texts = vec![];
    collect_texts(root, &mut texts);
    let table: Vec<(String, String)> = texts
        .iter()
        .filter_map(|t| formula_digest_of(t).map(|d| (t.clone(), d[1..].to_string())))
        .collect();
    let mut s = format!("c17 doc {} {}", profile(), table.len());
    for (t, d) in &table {
        s.push(' ');
        s.push_str(&hex(t.as_bytes()));
        s.push(' ');
        s.push_str(d);
    }
    s.push_str(&format!(" {}", looks.len()));
    for l in looks {
        s.push(' ');
        s.push_str(&hex(l.as_bytes()));
    }
    encode(root, &mut s);
    s
}

/// merge adjacent text nodes, drop empty ones (what roxmltree would report).
fn norm(children: Vec<X>) -> Vec<X> {
    let mut out: Vec<X> = vec![];
    for c in children {
        match c {
            X::T(t) => {
                if t.is_empty() {
                    continue;
                }
                if let Some(X::T(prev)) = out.last_mut() {
                    prev.push_str(&t);
                } else {
                    out.push(X::T(t));
                }
            }
            other => out.push(other),
        }
    }
    out
}

// ---------------------------------------------------------------------------------------
// Running the real code and dumping every public getter
// ---------------------------------------------------------------------------------------

#[derive(Default)]
struct RecordingCache(Vec<(NodeId, NodeId)>);

impl CacheStoreBuilder for RecordingCache {
    type Store = Self;
    fn build(self) -> Self {
        self
    }
    fn store_invalidator(&mut self, invalidator: NodeId, target: NodeId) {
        self.0.push((invalidator, target));
    }
}

impl CacheStore for RecordingCache {
    fn cache(&mut self, _: NodeId, _: i64, _: i64, _: &[u8]) {}
    fn get_cache(&self, _: NodeId, _: i64, _: i64) -> Option<&[u8]> {
        None
    }
    fn invalidate_by(&mut self, _: NodeId) {}
    fn invalidate_of(&mut self, _: NodeId) {}
    fn clear(&mut self) {}
}

/// no device memory: the behavioural step only touches value-store immediates
struct NoDevice;
impl Device for NoDevice {
    fn read_mem(&mut self, _: i64, _: &mut [u8]) -> Result<(), Box<dyn std::error::Error + Send + Sync>> {
        Err("no memory".into())
    }
    fn write_mem(&mut self, _: i64, _: &[u8]) -> Result<(), Box<dyn std::error::Error + Send + Sync>> {
        Err("no memory".into())
    }
}

struct D<'a> {
    ns: &'a DefaultNodeStore,
    vs: &'a DefaultValueStore,
    fpool: &'a [(String, Expr)],
    /// raw value-store ids of the immediates, in dump order
    imm: std::cell::RefCell<Vec<u32>>,
}

fn vid_num(v: ValueId) -> u32 {
    let s = format!("{:?}", v);
    s.chars().filter(|c| c.is_ascii_digit()).collect::<String>().parse().unwrap_or(u32::MAX)
}

fn cell_text(v: &ValueData) -> String {
    match v {
        ValueData::Integer(i) => format!("i{i}"),
        ValueData::Float(f) => format!("f{}", fbits(*f)),
        ValueData::Str(s) => format!("s{}", ss(s)),
        ValueData::Boolean(b) => format!("b{}", bs(*b)),
    }
}

/// every cell of the value store, in id order (ids are dense: 0..n)
fn all_cells(vs: &DefaultValueStore) -> Vec<String> {
    let mut out = vec![];
    let mut i = 0u32;
    while let Some(v) = vs.value_opt(ValueId::from_u32(i)) {
        out.push(cell_text(v));
        i += 1;
    }
    out
}

fn bs(b: bool) -> &'static str {
    if b {
        "T"
    } else {
        "F"
    }
}
fn ss(s: &str) -> String {
    format!("\"{}", hx(s))
}
fn oss(o: Option<&str>) -> String {
    o.map_or("~".into(), ss)
}
fn ous(o: Option<u64>) -> String {
    o.map_or("~".into(), |u| u.to_string())
}
fn fbits(f: f64) -> String {
    format!("{:016x}", f.to_bits())
}

impl D<'_> {
    fn r(&self, id: NodeId) -> String {
        format!("@{}", hx(self.ns.name_by_id(id).unwrap()))
    }
    fn or(&self, o: Option<NodeId>) -> String {
        o.map_or("~".into(), |i| self.r(i))
    }
    fn lr(&self, l: &[NodeId]) -> String {
        format!("[{}]", l.iter().map(|i| self.r(*i)).collect::<Vec<_>>().join(","))
    }
    fn val<T: Into<ValueId>>(&self, id: T) -> String {
        let id: ValueId = id.into();
        self.imm.borrow_mut().push(vid_num(id));
        match self.vs.value_opt(id) {
            None => "!".into(),
            Some(ValueData::Integer(i)) => format!("i{i}"),
            Some(ValueData::Float(f)) => format!("f{}", fbits(*f)),
            Some(ValueData::Str(s)) => format!("s{}", ss(s)),
            Some(ValueData::Boolean(b)) => format!("b{}", bs(*b)),
        }
    }
    fn ipv<T: Into<ValueId> + Copy>(&self, v: &ImmOrPNode<T>) -> String {
        match v {
            ImmOrPNode::Imm(i) => format!("I({})", self.val(*i)),
            ImmOrPNode::PNode(n) => format!("P({})", self.r(*n)),
        }
    }
    fn ipi(&self, v: &ImmOrPNode<i64>) -> String {
        match v {
            ImmOrPNode::Imm(i) => format!("I({i})"),
            ImmOrPNode::PNode(n) => format!("P({})", self.r(*n)),
        }
    }
    fn ipf(&self, v: &ImmOrPNode<f64>) -> String {
        match v {
            ImmOrPNode::Imm(f) => format!("I({})", fbits(*f)),
            ImmOrPNode::PNode(n) => format!("P({})", self.r(*n)),
        }
    }
    fn ipu(&self, v: &ImmOrPNode<u64>) -> String {
        match v {
            ImmOrPNode::Imm(u) => format!("I({u})"),
            ImmOrPNode::PNode(n) => format!("P({})", self.r(*n)),
        }
    }
    fn vk<T: Into<ValueId> + Copy>(&self, v: &ValueKind<T>) -> String {
        match v {
            ValueKind::Value(id) => format!("V({})", self.val(*id)),
            ValueKind::PValue(p) => format!("PV({};{})", self.r(p.p_value()), self.lr(p.p_value_copies())),
            ValueKind::PIndex(p) => {
                let items: Vec<String> = p
                    .value_indexed()
                    .iter()
                    .map(|vi| format!("{}:{}", vi.index(), self.ipv(&vi.indexed())))
                    .collect();
                format!("PI({};[{}];{})", self.r(p.p_index()), items.join(","), self.ipv(&p.value_default()))
            }
        }
    }
    fn ak(&self, a: &AddressKind) -> String {
        match a {
            AddressKind::Address(i) => format!("A({})", self.ipi(i)),
            AddressKind::IntSwissKnife(id) => format!("K({})", self.r(*id)),
            AddressKind::PIndex(p) => format!(
                "X({};{})",
                p.offset().map_or("~".into(), |o| self.ipi(&o)),
                self.r(p.p_index())
            ),
        }
    }
    fn rb(&self, rb: &RegisterBase) -> String {
        format!(
            "rst={};ad=[{}];len={};am={:?};port={};cm={:?};pt={};inv={}",
            bs(rb.streamable()),
            rb.address_kinds().iter().map(|a| self.ak(a)).collect::<Vec<_>>().join(","),
            self.ipi(rb.length_elem()),
            rb.access_mode(),
            self.r(rb.p_port()),
            rb.cacheable(),
            ous(rb.polling_time()),
            self.lr(rb.p_invalidators())
        )
    }
    fn base(&self, nb: NodeBase, st: bool) -> String {
        format!(
            "n={};ns={:?};mp={:?};es={};tt={};de={};dn={};vi={:?};du={};dp={};ev={};imp={};av={};lk={};bp={};iam={:?};err={};al={};ca={};st={}",
            ss(self.ns.name_by_id(nb.id()).unwrap()),
            nb.name_space(),
            nb.merge_priority(),
            nb.expose_static().map_or("~", bs),
            oss(nb.tooltip()),
            oss(nb.description()),
            oss(nb.display_name()),
            nb.visibility(),
            oss(nb.docu_url()),
            bs(nb.is_deprecated()),
            ous(nb.event_id()),
            self.or(nb.p_is_implemented()),
            self.or(nb.p_is_available()),
            self.or(nb.p_is_locked()),
            self.or(nb.p_block_polling()),
            nb.imposed_access_mode(),
            self.lr(nb.p_errors()),
            self.or(nb.p_alias()),
            self.or(nb.p_cast_alias()),
            bs(st)
        )
    }
    fn x(&self, e: &Expr) -> String {
        let _ = self.fpool;
        fdigest(e)
    }
    fn nvr(&self, l: &[NamedValue<NodeId>]) -> String {
        format!("[{}]", l.iter().map(|n| format!("{}:{}", ss(n.name()), self.r(n.value()))).collect::<Vec<_>>().join(","))
    }
    fn nvi(&self, l: &[NamedValue<i64>]) -> String {
        format!("[{}]", l.iter().map(|n| format!("{}:{}", ss(n.name()), n.value())).collect::<Vec<_>>().join(","))
    }
    fn nvf(&self, l: &[NamedValue<f64>]) -> String {
        format!("[{}]", l.iter().map(|n| format!("{}:{}", ss(n.name()), fbits(n.value()))).collect::<Vec<_>>().join(","))
    }
    fn nvx(&self, l: &[NamedValue<Expr>]) -> String {
        format!("[{}]", l.iter().map(|n| format!("{}:{}", ss(n.name()), self.x(n.value_ref()))).collect::<Vec<_>>().join(","))
    }

    /// (node name, kind, full NODE text)
    fn node(&self, nd: &NodeData) -> (String, &'static str, String) {
        let (kind, id, base, fields): (&'static str, NodeId, String, String) = match nd {
            NodeData::Node(n) => ("Node", n.node_base().id(), self.base(n.node_base(), INode::streamable(&**n)), String::new()),
            NodeData::Category(n) => (
                "Category",
                n.node_base().id(),
                self.base(n.node_base(), INode::streamable(&**n)),
                format!("pf={}", self.lr(n.p_features())),
            ),
            NodeData::Integer(n) => (
                "Integer",
                n.node_base().id(),
                self.base(n.node_base(), INode::streamable(&**n)),
                format!(
                    "vk={};min={};max={};inc={};un={};rep={:?};sel={}",
                    self.vk(n.value_kind()),
                    self.ipv(&n.min_elem()),
                    self.ipv(&n.max_elem()),
                    self.ipi(&n.inc_elem()),
                    oss(n.unit_elem()),
                    n.representation_elem(),
                    self.lr(n.p_selected())
                ),
            ),
            NodeData::IntReg(n) => (
                "IntReg",
                n.node_base().id(),
                self.base(n.node_base(), INode::streamable(&**n)),
                format!(
                    "{};sg={:?};en={:?};un={};rep={:?};sel={}",
                    self.rb(n.register_base()),
                    n.sign(),
                    n.endianness(),
                    oss(n.unit_elem()),
                    n.representation_elem(),
                    self.lr(n.p_selected())
                ),
            ),
            NodeData::MaskedIntReg(n) => (
                "MaskedIntReg",
                n.node_base().id(),
                self.base(n.node_base(), INode::streamable(&**n)),
                format!(
                    "{};bm={};sg={:?};en={:?};un={};rep={:?};sel={}",
                    self.rb(n.register_base()),
                    match n.bit_mask() {
                        BitMask::SingleBit(b) => format!("B({b})"),
                        BitMask::Range { lsb, msb } => format!("R({lsb},{msb})"),
                    },
                    n.sign(),
                    n.endianness(),
                    oss(n.unit_elem()),
                    n.representation_elem(),
                    self.lr(n.p_selected())
                ),
            ),
            NodeData::Boolean(n) => (
                "Boolean",
                n.node_base().id(),
                self.base(n.node_base(), INode::streamable(&**n)),
                format!(
                    "val={};on={};off={};sel={}",
                    self.ipv(&n.value_elem()),
                    n.on_value(),
                    n.off_value(),
                    self.lr(n.p_selected())
                ),
            ),
            NodeData::Command(n) => (
                "Command",
                n.node_base().id(),
                self.base(n.node_base(), INode::streamable(&**n)),
                format!(
                    "val={};cv={};pt={}",
                    self.ipv(&n.value_elem()),
                    self.ipv(&n.command_value_elem()),
                    ous(n.polling_time())
                ),
            ),
            NodeData::Enumeration(n) => (
                "Enumeration",
                n.node_base().id(),
                self.base(n.node_base(), INode::streamable(&**n)),
                format!(
                    "ent={};val={};sel={};pt={}",
                    self.lr(IEnumeration::entries(&**n, self.ns)),
                    self.ipv(&n.value_elem()),
                    self.lr(n.p_selected()),
                    ous(n.polling_time())
                ),
            ),
            NodeData::EnumEntry(n) => (
                "EnumEntry",
                n.node_base().id(),
                self.base(n.node_base(), INode::streamable(&**n)),
                format!(
                    "v={};nv={};sym={};sc={}",
                    n.value(),
                    fbits(n.numeric_value()),
                    ss(n.symbolic()),
                    bs(n.is_self_clearing())
                ),
            ),
            NodeData::Float(n) => (
                "Float",
                n.node_base().id(),
                self.base(n.node_base(), INode::streamable(&**n)),
                format!(
                    "vk={};min={};max={};inc={};un={};rep={:?};dno={:?};dpr={}",
                    self.vk(n.value_kind()),
                    self.ipv(&n.min_elem()),
                    self.ipv(&n.max_elem()),
                    n.inc_elem().map_or("~".into(), |i| self.ipf(i)),
                    oss(n.unit_elem()),
                    n.representation_elem(),
                    n.display_notation_elem(),
                    n.display_precision_elem()
                ),
            ),
            NodeData::FloatReg(n) => (
                "FloatReg",
                n.node_base().id(),
                self.base(n.node_base(), INode::streamable(&**n)),
                format!(
                    "{};en={:?};un={};rep={:?};dno={:?};dpr={}",
                    self.rb(n.register_base()),
                    n.endianness(),
                    oss(n.unit_elem()),
                    n.representation_elem(),
                    n.display_notation_elem(),
                    n.display_precision_elem()
                ),
            ),
            NodeData::String(n) => (
                "String",
                n.node_base().id(),
                self.base(n.node_base(), INode::streamable(&**n)),
                format!("val={}", self.ipv(&n.value_elem())),
            ),
            NodeData::StringReg(n) => (
                "StringReg",
                n.node_base().id(),
                self.base(n.node_base(), INode::streamable(&**n)),
                self.rb(n.register_base()),
            ),
            NodeData::Register(n) => (
                "Register",
                n.node_base().id(),
                self.base(n.node_base(), INode::streamable(&**n)),
                self.rb(n.register_base()),
            ),
            NodeData::Port(n) => (
                "Port",
                n.node_base().id(),
                self.base(n.node_base(), INode::streamable(&**n)),
                format!(
                    "cid={};se={};ccd={}",
                    n.chunk_id().map_or("~".into(), |c| self.ipu(c)),
                    bs(n.swap_endianness()),
                    bs(n.cache_chunk_data())
                ),
            ),
            NodeData::Converter(n) => (
                "Converter",
                n.node_base().id(),
                self.base(n.node_base(), INode::streamable(&**n)),
                format!(
                    "pv={};co={};ex={};fto={};ffr={};pval={};un={};rep={:?};dno={:?};dpr={};sl={:?};lin={}",
                    self.nvr(n.p_variables()),
                    self.nvf(n.constants()),
                    self.nvx(n.expressions()),
                    self.x(n.formula_to().expr()),
                    self.x(n.formula_from().expr()),
                    self.r(n.p_value()),
                    oss(n.unit_elem()),
                    n.representation_elem(),
                    n.display_notation_elem(),
                    n.display_precision_elem(),
                    n.slope(),
                    bs(n.is_linear())
                ),
            ),
            NodeData::IntConverter(n) => (
                "IntConverter",
                n.node_base().id(),
                self.base(n.node_base(), INode::streamable(&**n)),
                format!(
                    "pv={};co={};ex={};fto={};ffr={};pval={};un={};rep={:?};sl={:?}",
                    self.nvr(n.p_variables()),
                    self.nvi(n.constants()),
                    self.nvx(n.expressions()),
                    self.x(n.formula_to().expr()),
                    self.x(n.formula_from().expr()),
                    self.r(n.p_value()),
                    oss(n.unit_elem()),
                    n.representation_elem(),
                    n.slope()
                ),
            ),
            NodeData::SwissKnife(n) => (
                "SwissKnife",
                n.node_base().id(),
                self.base(n.node_base(), INode::streamable(&**n)),
                format!(
                    "pv={};co={};ex={};f={};un={};rep={:?};dno={:?};dpr={}",
                    self.nvr(n.p_variables()),
                    self.nvf(n.constants()),
                    self.nvx(n.expressions()),
                    self.x(n.formula().expr()),
                    oss(n.unit_elem()),
                    n.representation_elem(),
                    n.display_notation_elem(),
                    n.display_precision_elem()
                ),
            ),
            NodeData::IntSwissKnife(n) => (
                "IntSwissKnife",
                n.node_base().id(),
                self.base(n.node_base(), INode::streamable(&**n)),
                format!(
                    "pv={};co={};ex={};f={};un={};rep={:?}",
                    self.nvr(n.p_variables()),
                    self.nvi(n.constants()),
                    self.nvx(n.expressions()),
                    self.x(n.formula().expr()),
                    oss(n.unit_elem()),
                    n.representation_elem()
                ),
            ),
            _ => ("Dcam", self.ns.id_by_name("").unwrap(), String::new(), String::new()),
        };
        let name = self.ns.name_by_id(id).unwrap().to_string();
        let text = if fields.is_empty() {
            format!("{kind}{{{base}}}")
        } else {
            format!("{kind}{{{base};{fields}}}")
        };
        (name, kind, text)
    }

    fn look_kind(&self, name: &str) -> String {
        match self.ns.id_by_name(name) {
            None => "?".into(),
            Some(id) => {
                // the id found by name names that name again (and a stored node carries that id)
                if self.ns.name_by_id(id) != Some(name) {
                    return "!name-of-id-differs".into();
                }
                match self.ns.node_opt(id) {
                    None => "-".into(),
                    Some(nd) => {
                        if !matches!(nd, NodeData::EnumEntry(_)) && nd.node_base().id() != id {
                            return "!stored-under-other-id".into();
                        }
                        kind_of(nd).into()
                    }
                }
            }
        }
    }
}

fn kind_of(nd: &NodeData) -> &'static str {
    match nd {
        NodeData::Node(_) => "Node",
        NodeData::Category(_) => "Category",
        NodeData::Integer(_) => "Integer",
        NodeData::IntReg(_) => "IntReg",
        NodeData::MaskedIntReg(_) => "MaskedIntReg",
        NodeData::Boolean(_) => "Boolean",
        NodeData::Command(_) => "Command",
        NodeData::Enumeration(_) => "Enumeration",
        NodeData::EnumEntry(_) => "EnumEntry",
        NodeData::Float(_) => "Float",
        NodeData::FloatReg(_) => "FloatReg",
        NodeData::String(_) => "String",
        NodeData::StringReg(_) => "StringReg",
        NodeData::Register(_) => "Register",
        NodeData::Converter(_) => "Converter",
        NodeData::IntConverter(_) => "IntConverter",
        NodeData::SwissKnife(_) => "SwissKnife",
        NodeData::IntSwissKnife(_) => "IntSwissKnife",
        NodeData::Port(_) => "Port",
        _ => "Dcam",
    }
}

fn dump_rd(rd: &RegisterDescription) -> String {
    format!(
        "mn={};vn={};tt={};sns={:?};sv={}.{}.{};v={}.{}.{};pg={};vg={}",
        ss(rd.model_name()),
        ss(rd.vendor_name()),
        oss(rd.tooltip()),
        rd.standard_name_space(),
        rd.schema_major_version(),
        rd.schema_minor_version(),
        rd.schema_subminor_version(),
        rd.major_version(),
        rd.minor_version(),
        rd.subminor_version(),
        ss(rd.product_guid()),
        ss(rd.version_guid())
    )
}

struct Out {
    answer: String,
    rd: String,
    /// (name, kind, NODE text) in visit order
    nodes: Vec<(String, String, String)>,
    /// (invalidator name, target name) in call order
    inval: Vec<(String, String)>,
    looks: Vec<String>,
    /// LOOK kind of every probed (declared) name — not part of the answer
    probes: Vec<String>,
    /// findings of the behavioural step on the value-store immediates (sig, what)
    beh: Vec<(Value, String)>,
    /// (immediates written through the node API, through the store, skipped)
    beh_counts: (u64, u64, u64),
}

enum Res {
    Panic,
    DumpPanic,
    Err,
    Ok(Out),
}

impl Res {
    fn answer(&self) -> String {
        match self {
            Res::Panic => "panic".into(),
            Res::DumpPanic => "dump-panic".into(),
            Res::Err => "err".into(),
            Res::Ok(o) => o.answer.clone(),
        }
    }
}

/// one declared immediate living in the value store
struct Imm {
    node: NodeId,
    label: String,
    vid: ValueId,
    /// the node's own `<Value>` (written through the node API)
    main: bool,
}

fn collect_imms(ns: &DefaultNodeStore) -> Vec<Imm> {
    fn ip<T: Into<ValueId> + Copy>(out: &mut Vec<Imm>, node: NodeId, label: &str, v: ImmOrPNode<T>, main: bool) {
        if let ImmOrPNode::Imm(id) = v {
            out.push(Imm { node, label: label.to_string(), vid: id.into(), main });
        }
    }
    fn vk<T: Into<ValueId> + Copy>(out: &mut Vec<Imm>, node: NodeId, v: &ValueKind<T>) {
        match v {
            ValueKind::Value(id) => out.push(Imm { node, label: "Value".into(), vid: (*id).into(), main: true }),
            ValueKind::PValue(_) => {}
            ValueKind::PIndex(p) => {
                for (k, vi) in p.value_indexed().iter().enumerate() {
                    ip(out, node, &format!("ValueIndexed[{k}]"), vi.indexed(), false);
                }
                ip(out, node, "ValueDefault", p.value_default(), false);
            }
        }
    }
    let mut out = vec![];
    ns.visit_nodes(|nd| match nd {
        NodeData::Integer(n) => {
            let id = n.node_base().id();
            vk(&mut out, id, n.value_kind());
            ip(&mut out, id, "Min", n.min_elem(), false);
            ip(&mut out, id, "Max", n.max_elem(), false);
        }
        NodeData::Float(n) => {
            let id = n.node_base().id();
            vk(&mut out, id, n.value_kind());
            ip(&mut out, id, "Min", n.min_elem(), false);
            ip(&mut out, id, "Max", n.max_elem(), false);
        }
        NodeData::Boolean(n) => ip(&mut out, n.node_base().id(), "Value", n.value_elem(), false),
        NodeData::Command(n) => {
            let id = n.node_base().id();
            ip(&mut out, id, "Value", n.value_elem(), false);
            ip(&mut out, id, "CommandValue", n.command_value_elem(), false);
        }
        NodeData::Enumeration(n) => ip(&mut out, n.node_base().id(), "Value", n.value_elem(), false),
        NodeData::String(n) => ip(&mut out, n.node_base().id(), "Value", n.value_elem(), true),
        _ => {}
    });
    out
}

/// Behavioural step on the implementation: every declared immediate has a cell of its own.
/// Each immediate (at most 24 per document) gets a fresh value - through the node API
/// (`IString/IInteger/IFloat::set_value`) for a node's own `<Value>`, else through
/// `ValueStore::update` - and ALL cells are dumped again: exactly that one cell must change.
fn behavioural_step(
    ns: &DefaultNodeStore,
    cx: &mut ValueCtxt<DefaultValueStore, RecordingCache>,
) -> (Vec<(Value, String)>, (u64, u64, u64)) {
    let mut finds: Vec<(Value, String)> = vec![];
    let mut counts = (0u64, 0u64, 0u64);
    let imms = collect_imms(ns);
    let name = |id: NodeId| ns.name_by_id(id).unwrap_or("?").to_string();
    let ty = |cx: &ValueCtxt<DefaultValueStore, RecordingCache>, v: ValueId| match cx.value_store.value_opt(v) {
        Some(ValueData::Integer(_)) => "Integer",
        Some(ValueData::Float(_)) => "Float",
        Some(ValueData::Str(_)) => "Str",
        Some(ValueData::Boolean(_)) => "Boolean",
        None => "none",
    };
    // statically: no two declared immediates share a cell
    for (i, a) in imms.iter().enumerate() {
        for b in &imms[..i] {
            if a.vid == b.vid {
                finds.push((
                    json!({"kind": "immediate-cells", "what": "shared-cell", "value_type": ty(cx, a.vid)}),
                    format!("{}.{} and {}.{} share value-store cell {:?}", name(b.node), b.label, name(a.node), a.label, a.vid),
                ));
            }
        }
    }
    let step = (imms.len() / 24).max(1);
    for (k, im) in imms.iter().enumerate() {
        if k % step != 0 {
            counts.2 += 1;
            continue;
        }
        let before = all_cells(&cx.value_store);
        let t = ty(cx, im.vid);
        let new = match cx.value_store.value_opt(im.vid) {
            Some(ValueData::Integer(i)) => ValueData::Integer(i.wrapping_add(1001)),
            Some(ValueData::Float(f)) => {
                let g = if f.is_finite() && (*f + 1.5).to_bits() != f.to_bits() && (*f + 1.5).is_finite() { *f + 1.5 } else { 42.25 };
                ValueData::Float(if g.to_bits() == f.to_bits() { 43.5 } else { g })
            }
            Some(ValueData::Str(s)) => ValueData::Str(format!("{s}#w")),
            Some(ValueData::Boolean(b)) => ValueData::Boolean(!b),
            None => continue,
        };
        let mut via = "store";
        if im.main {
            let ok = catch(|| {
                let mut dev = NoDevice;
                match (ns.node_opt(im.node), &new) {
                    (Some(NodeData::String(n)), ValueData::Str(s)) => n.set_value(s.clone(), &mut dev, ns, &mut *cx).is_ok(),
                    (Some(NodeData::Integer(n)), ValueData::Integer(i)) => n.set_value(*i, &mut dev, ns, &mut *cx).is_ok(),
                    (Some(NodeData::Float(n)), ValueData::Float(f)) => n.set_value(*f, &mut dev, ns, &mut *cx).is_ok(),
                    _ => false,
                }
            })
            .unwrap_or(false);
            if ok {
                via = "node-api";
            }
        }
        if via == "store" {
            let _ = cx.value_store.update(im.vid, new.clone());
            counts.1 += 1;
        } else {
            counts.0 += 1;
        }
        let after = all_cells(&cx.value_store);
        let target = vid_num(im.vid) as usize;
        let want = cell_text(&new);
        let changed: Vec<usize> = (0..before.len().max(after.len())).filter(|i| before.get(*i) != after.get(*i)).collect();
        if after.get(target) != Some(&want) {
            finds.push((
                json!({"kind": "immediate-cells", "what": "write-lost", "value_type": t, "via": via}),
                format!("{}.{}: cell {target} is {:?} after writing {want}", name(im.node), im.label, after.get(target)),
            ));
        }
        if changed.iter().any(|i| *i != target) {
            finds.push((
                json!({"kind": "immediate-cells", "what": "write-changed-other-cell", "value_type": t, "via": via}),
                format!("writing {}.{} (cell {target}) also changed cells {:?}", name(im.node), im.label, changed),
            ));
        }
        // what every OTHER immediate reports must be what it reported before
        for o in &imms {
            let oi = vid_num(o.vid) as usize;
            if (o.node != im.node || o.label != im.label) && before.get(oi) != after.get(oi) {
                finds.push((
                    json!({"kind": "immediate-cells", "what": "other-immediate-changed", "value_type": t, "via": via}),
                    format!("writing {}.{} changed what {}.{} reports: {:?} -> {:?}", name(im.node), im.label, name(o.node), o.label, before.get(oi), after.get(oi)),
                ));
                break;
            }
        }
    }
    (finds, counts)
}

fn run_impl(xml: &str, looks: &[String], probes: &[String], fpool: &[(String, Expr)]) -> Res {
    let xml_s = xml.to_string();
    let built = catch(|| {
        GenApiBuilder::<DefaultNodeStore, DefaultValueStore, DefaultCacheStore>::default()
            .with_cache_store(RecordingCache::default())
            .build(&xml_s)
    });
    let (rd, ns, mut cx) = match built {
        Err(()) => return Res::Panic,
        Ok(Err(_)) => return Res::Err,
        Ok(Ok(t)) => t,
    };
    let dumped = catch(|| {
        let d = D { ns: &ns, vs: &cx.value_store, fpool, imm: std::cell::RefCell::new(vec![]) };
        let mut nodes = vec![];
        ns.visit_nodes(|nd| {
            let (n, k, t) = d.node(nd);
            nodes.push((n, k.to_string(), t));
        });
        let inval: Vec<(String, String)> = cx
            .cache_store
            .0
            .iter()
            .map(|(a, b)| (ns.name_by_id(*a).unwrap().to_string(), ns.name_by_id(*b).unwrap().to_string()))
            .collect();
        let lk: Vec<String> = looks.iter().map(|l| format!("{}:{}", ss(l), d.look_kind(l))).collect();
        let pr: Vec<String> = probes.iter().map(|l| d.look_kind(l)).collect();
        let rd_s = dump_rd(&rd);
        // the whole value store (one cell per declared immediate, in document order) and the ids
        // the immediates of the dump above refer to
        let answer = format!(
            "ok rd{{{}}} nodes[{}] inval[{}] look[{}] store[{}] imm[{}]",
            rd_s,
            nodes.iter().map(|n| n.2.as_str()).collect::<Vec<_>>().join("|"),
            inval.iter().map(|(a, b)| format!("@{}>@{}", hx(a), hx(b))).collect::<Vec<_>>().join(","),
            lk.join(","),
            {
                // cells in the order the immediates first refer to them, then the total number of
                // cells (a cell no immediate refers to would show in the count)
                let cells = all_cells(&cx.value_store);
                let mut order: Vec<u32> = vec![];
                for i in d.imm.borrow().iter() {
                    if !order.contains(i) {
                        order.push(*i);
                    }
                }
                let mut v: Vec<String> = order.iter().map(|i| cells.get(*i as usize).cloned().unwrap_or_else(|| "!".into())).collect();
                v.push(format!("n={}", cells.len()));
                v.join(",")
            },
            {
                // value ids renumbered by first use: a refactoring that only renumbers the cells
                // does not show, two immediates sharing a cell do
                let mut order: Vec<u32> = vec![];
                d.imm
                    .borrow()
                    .iter()
                    .map(|i| {
                        let k = order.iter().position(|x| x == i).unwrap_or_else(|| {
                            order.push(*i);
                            order.len() - 1
                        });
                        k.to_string()
                    })
                    .collect::<Vec<_>>()
                    .join(",")
            }
        );
        Out { answer, rd: rd_s, nodes, inval, looks: lk, probes: pr, beh: vec![], beh_counts: (0, 0, 0) }
    });
    match dumped {
        Err(()) => Res::DumpPanic,
        Ok(mut o) => {
            // behavioural step AFTER the static dump
            if let Ok((finds, counts)) = catch(|| behavioural_step(&ns, &mut cx)) {
                o.beh = finds;
                o.beh_counts = counts;
            } else {
                o.beh = vec![(json!({"kind": "immediate-cells", "what": "panic"}), "behavioural step panicked".into())];
            }
            Res::Ok(o)
        }
    }
}

// ---------------------------------------------------------------------------------------
// Node model: every generated element carries its XML and its expected dump contribution
// ---------------------------------------------------------------------------------------

/// (entry_has, struct_has, explicit_default) per field key, for nodes that come from a StructEntry.
type Meta = BTreeMap<String, (bool, bool, bool)>;

#[derive(Clone)]
struct El {
    x: X,
    /// dump field key this element determines ("" = none)
    key: &'static str,
    /// canonical value text for that key (one list item for list keys)
    val: String,
    /// raw referenced name (pInvalidator) if any
    raw: String,
    /// nodes declared inside this element (embedded IntSwissKnife, EnumEntry)
    sub: Vec<Spec>,
}

impl El {
    fn new(x: X, key: &'static str, val: String) -> El {
        El { x, key, val, raw: String::new(), sub: vec![] }
    }
    fn tag(&self) -> &str {
        self.x.tag()
    }
}

#[derive(Clone)]
struct Spec {
    /// NodeData variant name
    kind: &'static str,
    tag: &'static str,
    attrs: Vec<(String, String)>,
    /// store name (for EnumEntry: `$Sym_k`)
    name: String,
    els: Vec<El>,
    /// default overrides (key, value)
    over: Vec<(&'static str, String)>,
    meta: Option<Meta>,
}

#[derive(Clone)]
struct StructSpec {
    attrs: Vec<(String, String)>,
    els: Vec<El>,
    entries: Vec<Spec>,
}

#[derive(Clone)]
enum Item {
    N(Spec),
    S(StructSpec),
    G(Vec<(String, String)>, Vec<Item>),
}

const BASE_KEYS: [&str; 20] = [
    "n", "ns", "mp", "es", "tt", "de", "dn", "vi", "du", "dp", "ev", "imp", "av", "lk", "bp", "iam", "err", "al", "ca", "st",
];
const RB_KEYS: [&str; 8] = ["rst", "ad", "len", "am", "port", "cm", "pt", "inv"];

fn kind_keys(kind: &str) -> Vec<&'static str> {
    let rb = RB_KEYS.to_vec();
    match kind {
        "Category" => vec!["pf"],
        "Integer" => vec!["vk", "min", "max", "inc", "un", "rep", "sel"],
        "IntReg" => [rb, vec!["sg", "en", "un", "rep", "sel"]].concat(),
        "MaskedIntReg" => [rb, vec!["bm", "sg", "en", "un", "rep", "sel"]].concat(),
        "Boolean" => vec!["val", "on", "off", "sel"],
        "Command" => vec!["val", "cv", "pt"],
        "Enumeration" => vec!["ent", "val", "sel", "pt"],
        "EnumEntry" => vec!["v", "nv", "sym", "sc"],
        "Float" => vec!["vk", "min", "max", "inc", "un", "rep", "dno", "dpr"],
        "FloatReg" => [rb, vec!["en", "un", "rep", "dno", "dpr"]].concat(),
        "String" => vec!["val"],
        "StringReg" | "Register" => rb,
        "Port" => vec!["cid", "se", "ccd"],
        "Converter" => vec!["pv", "co", "ex", "fto", "ffr", "pval", "un", "rep", "dno", "dpr", "sl", "lin"],
        "IntConverter" => vec!["pv", "co", "ex", "fto", "ffr", "pval", "un", "rep", "sl"],
        "SwissKnife" => vec!["pv", "co", "ex", "f", "un", "rep", "dno", "dpr"],
        "IntSwissKnife" => vec!["pv", "co", "ex", "f", "un", "rep"],
        _ => vec![],
    }
}

fn is_register_kind(kind: &str) -> bool {
    matches!(kind, "IntReg" | "MaskedIntReg" | "FloatReg" | "StringReg" | "Register")
}

fn is_multi(k: &str) -> bool {
    matches!(k, "err" | "pf" | "sel" | "ad" | "inv" | "ent" | "pv" | "co" | "ex")
}

fn default_of(kind: &str, key: &str) -> String {
    match key {
        "ns" => "Custom",
        "mp" => "Mid",
        "es" | "tt" | "de" | "dn" | "du" | "ev" | "imp" | "av" | "lk" | "bp" | "al" | "ca" | "un" | "pt" | "cid" => "~",
        "vi" => "Beginner",
        "dp" | "st" | "rst" | "se" | "ccd" | "sc" | "lin" => "F",
        "iam" => "RW",
        "am" => "RO",
        "cm" => "WriteThrough",
        "sg" => "Unsigned",
        "en" => "LE",
        "rep" => "PureNumber",
        "on" => "1",
        "off" => "0",
        "dno" => "Automatic",
        "dpr" => "6",
        "sl" => "Automatic",
        "inc" => {
            if kind == "Integer" {
                "I(1)"
            } else {
                "~"
            }
        }
        "min" if kind == "Float" => return format!("I(f{})", fbits(f64::MIN)),
        "max" if kind == "Float" => return format!("I(f{})", fbits(f64::MAX)),
        _ => "!MISSING",
    }
    .to_string()
}

fn attr_of<'a>(attrs: &'a [(String, String)], k: &str) -> Option<&'a str> {
    attrs.iter().find(|a| a.0 == k).map(|a| a.1.as_str())
}

/// The NODE text the generator expects for this declared node.
fn expected_line(s: &Spec) -> String {
    let mut m: BTreeMap<&str, String> = BTreeMap::new();
    let mut multi: BTreeMap<&str, Vec<String>> = BTreeMap::new();
    for (k, v) in &s.over {
        m.insert(k, v.clone());
    }
    for el in &s.els {
        if el.key.is_empty() {
            continue;
        }
        if is_multi(el.key) {
            multi.entry(el.key).or_default().push(el.val.clone());
        } else {
            m.insert(el.key, el.val.clone());
        }
    }
    m.insert("n", ss(&s.name));
    if let Some(v) = attr_of(&s.attrs, "NameSpace") {
        m.insert("ns", v.to_string());
    }
    if let Some(v) = attr_of(&s.attrs, "MergePriority") {
        m.insert("mp", match v { "1" => "High", "0" => "Mid", _ => "Low" }.to_string());
    }
    if let Some(v) = attr_of(&s.attrs, "ExposeStatic") {
        m.insert("es", bs(v == "Yes" || v == "true").to_string());
    }
    if s.kind == "EnumEntry" {
        m.insert("sym", ss(attr_of(&s.attrs, "Name").unwrap_or("")));
    }
    if is_register_kind(s.kind) {
        let rst = m.get("rst").cloned().unwrap_or_else(|| "F".into());
        m.insert("st", rst);
    }
    if s.kind == "Integer" {
        let rep = m.get("rep").cloned().unwrap_or_else(|| "PureNumber".into());
        let (lo, hi) = match rep.as_str() {
            "IpV4Address" => (0, 0xffff_ffffi64),
            "MacAddress" => (0, 0xffff_ffff_ffffi64),
            _ => (i64::MIN, i64::MAX),
        };
        m.entry("min").or_insert(format!("I(i{lo})"));
        m.entry("max").or_insert(format!("I(i{hi})"));
    }
    let mut parts = vec![];
    for k in BASE_KEYS.iter().copied().chain(kind_keys(s.kind)) {
        let v = if is_multi(k) {
            format!("[{}]", multi.get(k).map_or(String::new(), |l| l.join(",")))
        } else {
            m.get(k).cloned().unwrap_or_else(|| default_of(s.kind, k))
        };
        parts.push(format!("{k}={v}"));
    }
    format!("{}{{{}}}", s.kind, parts.join(";"))
}

// ---- StructReg desugaring (GenICam standard 2.8.7) on the model ----

const MERGE_FIELDS: [(&str, &str, &str); 20] = [
    // (field key, tag, default canonical value or "")
    ("tt", "ToolTip", ""),
    ("de", "Description", ""),
    ("dn", "DisplayName", ""),
    ("vi", "Visibility", "Beginner"),
    ("du", "DocuURL", ""),
    ("dp", "IsDeprecated", "F"),
    ("ev", "EventID", ""),
    ("imp", "pIsImplemented", ""),
    ("av", "pIsAvailable", ""),
    ("lk", "pIsLocked", ""),
    ("bp", "pBlockPolling", ""),
    ("iam", "ImposedAccessMode", "RW"),
    ("err", "pError", ""),
    ("al", "pAlias", ""),
    ("ca", "pCastAlias", ""),
    ("rst", "Streamable", "F"),
    ("am", "AccessMode", "RO"),
    ("cm", "Cachable", "WriteThrough"),
    ("pt", "PollingTime", ""),
    ("inv", "pInvalidator", ""),
];

fn find<'a>(els: &'a [El], tag: &str) -> Option<&'a El> {
    els.iter().find(|e| e.tag() == tag)
}
fn find_all(els: &[El], tag: &str) -> Vec<El> {
    els.iter().filter(|e| e.tag() == tag).cloned().collect()
}

fn desugar(st: &StructSpec) -> Vec<Spec> {
    st.entries
        .iter()
        .map(|ent| {
            let mut els: Vec<El> = vec![];
            let pick = |tag: &str| find(&ent.els, tag).or_else(|| find(&st.els, tag)).cloned();
            let pick_list = |tag: &str| {
                let l = find_all(&ent.els, tag);
                if l.is_empty() {
                    find_all(&st.els, tag)
                } else {
                    l
                }
            };
            els.extend(find(&ent.els, "Extension").cloned());
            for tag in [
                "ToolTip", "Description", "DisplayName", "Visibility", "DocuURL", "IsDeprecated", "EventID",
                "pIsImplemented", "pIsAvailable", "pIsLocked", "pBlockPolling", "ImposedAccessMode",
            ] {
                els.extend(pick(tag));
            }
            els.extend(pick_list("pError"));
            els.extend(pick("pAlias"));
            els.extend(pick("pCastAlias"));
            els.extend(pick("Streamable"));
            els.extend(st.els.iter().filter(|e| matches!(e.tag(), "Address" | "pAddress" | "pIndex" | "IntSwissKnife")).cloned());
            els.extend(find(&st.els, "Length").or_else(|| find(&st.els, "pLength")).cloned());
            els.extend(pick("AccessMode"));
            els.extend(find(&st.els, "pPort").cloned());
            els.extend(pick("Cachable"));
            els.extend(pick("PollingTime"));
            els.extend(pick_list("pInvalidator"));
            for tag in ["Bit", "LSB", "MSB", "Sign"] {
                els.extend(find(&ent.els, tag).cloned());
            }
            els.extend(find(&st.els, "Endianess").cloned());
            els.extend(find(&ent.els, "Unit").cloned());
            els.extend(find(&ent.els, "Representation").cloned());
            els.extend(find_all(&ent.els, "pSelected"));

            let mut meta = Meta::new();
            for (key, tag, dflt) in MERGE_FIELDS {
                let e = find(&ent.els, tag);
                let s = find(&st.els, tag);
                let explicit_default =
                    !dflt.is_empty() && e.map_or(false, |e| e.val == dflt) && s.map_or(false, |s| s.val != dflt);
                meta.insert(key.to_string(), (e.is_some(), s.is_some(), explicit_default));
            }
            let rst = meta["rst"];
            meta.insert("st".into(), rst);
            Spec {
                kind: "MaskedIntReg",
                tag: "MaskedIntReg",
                attrs: ent.attrs.clone(),
                name: ent.name.clone(),
                els,
                over: vec![],
                meta: Some(meta),
            }
        })
        .collect()
}

/// One declared node the parse must make retrievable.
#[derive(Clone)]
struct Exp {
    name: String,
    kind: String,
    line: String,
    meta: Option<Meta>,
}

fn push_spec(s: &Spec, out: &mut Vec<Exp>, inval: &mut Vec<(String, String)>, recurse: bool) {
    if recurse {
        for e in &s.els {
            for sub in &e.sub {
                push_spec(sub, out, inval, true);
            }
        }
    }
    if is_register_kind(s.kind) {
        for e in &s.els {
            if e.key == "inv" {
                inval.push((e.raw.clone(), s.name.clone()));
            }
        }
    }
    out.push(Exp { name: s.name.clone(), kind: s.kind.to_string(), line: expected_line(s), meta: s.meta.clone() });
}

fn collect_exps(items: &[Item], out: &mut Vec<Exp>, inval: &mut Vec<(String, String)>) {
    for it in items {
        match it {
            Item::N(s) => push_spec(s, out, inval, true),
            Item::S(st) => {
                for e in &st.els {
                    for sub in &e.sub {
                        push_spec(sub, out, inval, true);
                    }
                }
                for s in desugar(st) {
                    push_spec(&s, out, inval, false);
                }
            }
            Item::G(_, sub) => collect_exps(sub, out, inval),
        }
    }
}

fn has_struct(items: &[Item]) -> bool {
    items.iter().any(|i| match i {
        Item::S(_) => true,
        Item::G(_, s) => has_struct(s),
        _ => false,
    })
}
fn has_struct_isk(items: &[Item]) -> bool {
    items.iter().any(|i| match i {
        Item::S(st) => st.els.iter().any(|e| e.tag() == "IntSwissKnife"),
        Item::G(_, s) => has_struct_isk(s),
        _ => false,
    })
}
fn has_group(items: &[Item]) -> bool {
    items.iter().any(|i| matches!(i, Item::G(..)))
}

// ---------------------------------------------------------------------------------------
// Generator
// ---------------------------------------------------------------------------------------

/// float literal pool (expected value = Rust's own `str::parse::<f64>` / INF / -INF).
const GENAPI_NS: &str = "http://www.genicam.org/GenApi/Version_1_1";

const FLOATS: [&str; 16] = [
    "1.5", "-0.25", "3", "1e10", "2.5E-3", "INF", "-INF", "NaN", "0", "0.5", "100", "-7", "1.0", "0.1", "1e-3", "12.75",
];

const FORMULAS: [&str; 16] = [
    "1", "VAR + 1", "(A * 2) - B", "X > 3 ? 1 : 0", "A & 0xFF", "A << 2", "-A", "A / B", "SIN(X)", "A = B",
    "A && B || C", "2 ** 3", "A % 3", "1.5 * X", "TO", "FROM * 2",
];

const KINDS: [&str; 20] = [
    "Node", "Category", "Integer", "IntReg", "MaskedIntReg", "Boolean", "Command", "Enumeration", "Float", "FloatReg",
    "String", "StringReg", "Register", "Converter", "IntConverter", "SwissKnife", "IntSwissKnife", "Port", "StructReg",
    "Group",
];

const STR_CHARS: [&str; 40] = [
    "a", "b", "Z", "q", "0", "7", " ", " ", "&", "<", ">", "\"", "'", ".", ",", ":", ";", "/", "-", "_", "=", "+", "(",
    ")", "[", "]", "{", "}", "!", "?", "#", "%", "*", "@", "ä", "ß", "é", "λ", "日本", "✓",
];

const UNI_LETTERS: [char; 16] = ['é', 'Ä', 'ß', 'ø', 'ª', 'ǅ', 'ʰ', 'λ', 'Ω', 'Ж', 'я', 'ぁ', 'カ', '日', '本', '한'];
const RESERVED: [&str; 8] = ["INF", "NaN", "Yes", "No", "true", "false", "inf", "nan"];

fn float_value(s: &str) -> f64 {
    match s {
        "INF" => f64::INFINITY,
        "-INF" => f64::NEG_INFINITY,
        _ => s.parse().unwrap(),
    }
}

/// formula texts that parse without panicking, pairwise different ASTs.
fn formula_pool() -> Vec<(String, Expr)> {
    let mut pool: Vec<(String, Expr)> = vec![];
    for t in FORMULAS {
        if let Ok(ast) = catch(|| formula::parse(t)) {
            if !pool.iter().any(|p| p.1 == ast) {
                pool.push((t.to_string(), ast));
            }
        }
    }
    pool
}

struct Gen<'a> {
    rng: &'a mut Rng,
    rep: &'a mut Report,
    fpool: &'a [(String, Expr)],
    pool: Vec<String>,
    next: usize,
    reach: usize,
    used: HashSet<String>,
    /// presence probability (per mille) of optional elements of the current node
    p: u64,
    /// noise (whitespace / comment nodes between elements) per mille
    noise: u64,
    fresh: u32,
    /// 0 none, 1 empty text, 2 comment-only text
    empty_mode: u8,
    emptied: u32,
    explicit_default: bool,
    explicit_default_used: bool,
}

impl<'a> Gen<'a> {
    fn new(rng: &'a mut Rng, rep: &'a mut Report, fpool: &'a [(String, Expr)]) -> Gen<'a> {
        let mut g = Gen {
            rng,
            rep,
            fpool,
            pool: vec![],
            next: 0,
            reach: 4,
            used: HashSet::new(),
            p: 500,
            noise: 0,
            fresh: 0,
            empty_mode: 0,
            emptied: 0,
            explicit_default: false,
            explicit_default_used: false,
        };
        for _ in 0..28 {
            let n = g.fresh_name();
            g.pool.push(n);
        }
        g
    }

    fn fresh_name(&mut self) -> String {
        loop {
            let len = 1 + self.rng.below(9) as usize;
            let mut s = String::new();
            // one name in eight starts with (and may contain) a non-ASCII letter of the scripts the
            // model's `is_alphabetic` transcription covers: such names land in the sniffed
            // immediate-or-reference positions (pValue, pMin, pLength, ...)
            let uni = self.rng.chance(1, 8);
            for i in 0..len {
                if uni && (i == 0 || self.rng.chance(1, 4)) {
                    s.push(*self.rng.pick(&UNI_LETTERS));
                    continue;
                }
                let c = if i == 0 {
                    *self.rng.pick(b"ABCDEFGHIJKLMNOPQRSTUVWXYZabcdefghijklmnopqrstuvwxyz")
                } else {
                    *self.rng.pick(b"ABCDEFGHIJKLMNOPQRSTUVWXYZabcdefghijklmnopqrstuvwxyz0123456789_")
                };
                s.push(c as char);
            }
            if RESERVED.contains(&s.as_str()) || self.used.contains(&s) {
                continue;
            }
            self.used.insert(s.clone());
            return s;
        }
    }

    fn decl_name(&mut self) -> String {
        let n = if self.next < self.pool.len() {
            self.next += 1;
            self.pool[self.next - 1].clone()
        } else {
            self.fresh_name()
        };
        if !n.chars().next().map_or(true, |c| c.is_ascii()) {
            self.rep.count("declared-name:non-ascii-first-letter");
        }
        n
    }

    fn ref_name(&mut self) -> String {
        match self.rng.below(100) {
            0..=84 => {
                self.rep.count("ref:near-pool(mostly declared)");
                let i = self.rng.below(self.reach.min(self.pool.len()) as u64) as usize;
                if !self.pool[i].chars().next().map_or(true, |c| c.is_ascii()) {
                    self.rep.count("referenced-name:non-ascii-first-letter");
                }
                self.pool[i].clone()
            }
            85..=92 => {
                self.rep.count("ref:any-pool");
                self.rng.pick(&self.pool).clone()
            }
            _ => {
                self.rep.count("ref:undeclared-fresh");
                self.fresh_name()
            }
        }
    }

    fn opt(&mut self) -> bool {
        let b = self.rng.below(1000) < self.p;
        self.rep.count(if b { "optional:present" } else { "optional:absent" });
        b
    }

    fn few(&mut self) -> usize {
        if self.rng.below(1000) >= self.p {
            return 0;
        }
        1 + self.rng.below(3) as usize
    }

    // ---- literals ----

    fn lit_i64(&mut self) -> (String, i64) {
        let v = match self.rng.below(4) {
            0 => self.rng.below(100) as i64,
            1 => -(self.rng.below(1000) as i64),
            2 => self.rng.interesting_i64(),
            _ => self.rng.below(1 << 40) as i64,
        };
        // a negative value is written in decimal, or as the hexadecimal 64-bit pattern (bit 63 set)
        let form = if v < 0 { if self.rng.chance(1, 3) { 6 + self.rng.below(2) } else { 0 } } else { self.rng.below(6) };
        let form = if form <= 1 && self.rng.chance(1, 4) { 8 } else { form };
        let (s, f) = match form {
            8 => {
                // the lexical space -?[0-9]+ admits leading zeros: 010 is ten, -007 is minus seven
                let w = 2 + self.rng.below(6) as usize;
                let a = v.unsigned_abs();
                let sign = if v < 0 { "-" } else if self.rng.chance(1, 4) { "+" } else { "" };
                (format!("{sign}{:0w$}", a, w = w.max(a.to_string().len() + 1)), "decimal-leading-zeros")
            }
            6 => (format!("0x{:X}", v as u64), "0x-bit63-set"),
            7 => (format!("0X{:x}", v as u64), "0X-bit63-set"),
            0 => (v.to_string(), if v < 0 { "neg-decimal" } else { "decimal" }),
            1 => (format!("+{v}"), "plus-decimal"),
            2 => (format!("0x{:x}", v), "0x-lower"),
            3 => (format!("0X{:X}", v), "0X-upper"),
            4 => (format!("0x{:X}", v), "0x-upper-digits"),
            _ => (format!("0x{:016x}", v), "0x-leading-zeros"),
        };
        self.rep.count(&format!("int-form:{f}"));
        if v == i64::MIN || v == i64::MAX {
            self.rep.count("int-form:i64-boundary");
        }
        (s, v)
    }

    fn lit_u64(&mut self) -> (String, u64) {
        let v = match self.rng.below(3) {
            0 => self.rng.below(64),
            1 => self.rng.interesting_u64(),
            _ => self.rng.below(100_000),
        };
        let (s, f) = match self.rng.below(6) {
            5 => (format!("{:0w$}", v, w = v.to_string().len() + 1 + self.rng.below(4) as usize), "decimal-leading-zeros"),
            0 | 1 => (v.to_string(), "decimal"),
            2 => (format!("+{v}"), "plus-decimal"),
            3 => (format!("0x{:x}", v), "0x-lower"),
            _ => (format!("0X{:X}", v), "0X-upper"),
        };
        self.rep.count(&format!("uint-form:{f}"));
        if v == u64::MAX {
            self.rep.count("uint-form:u64-max");
        }
        (s, v)
    }

    fn lit_barehex(&mut self) -> (String, u64) {
        let v = if self.rng.bool() { self.rng.below(0x10000) } else { self.rng.interesting_u64() };
        let s = match self.rng.below(3) {
            0 => format!("{:x}", v),
            1 => format!("{:X}", v),
            _ => format!("{:08x}", v),
        };
        self.rep.count("uint-form:bare-hex");
        (s, v)
    }

    fn lit_bool(&mut self) -> (String, bool) {
        let s = *self.rng.pick(&["Yes", "No", "true", "false"]);
        self.rep.count(&format!("bool-form:{s}"));
        (s.to_string(), s == "Yes" || s == "true")
    }

    fn lit_f64(&mut self) -> (String, f64) {
        if self.rng.bool() {
            let s = *self.rng.pick(&FLOATS);
            self.rep.count(&format!("float-form:{s}"));
            return (s.to_string(), float_value(s));
        }
        // random literal of Rust's `f64::from_str` grammar that does not start with a letter:
        // sign? (digits | digits '.' digits? | '.' digits) ([eE] sign? digits)?
        let mut s = String::new();
        let mut form = String::new();
        match self.rng.below(4) {
            0 => {
                s.push('-');
                form.push('-');
            }
            1 => {
                s.push('+');
                form.push('+');
            }
            _ => {}
        }
        let digits = |rng: &mut Rng, max: u64| -> String {
            let n = 1 + rng.below(max);
            (0..n).map(|i| if i == 0 && rng.chance(1, 4) { '0' } else { (b'0' + rng.below(10) as u8) as char }).collect()
        };
        match self.rng.below(5) {
            0 => {
                s.push_str(&digits(self.rng, 19));
                form.push_str("d");
            }
            1 => {
                s.push_str(&digits(self.rng, 8));
                s.push('.');
                form.push_str("d.");
            }
            2 => {
                s.push('.');
                s.push_str(&digits(self.rng, 17));
                form.push_str(".d");
            }
            _ => {
                s.push_str(&digits(self.rng, 17));
                s.push('.');
                s.push_str(&digits(self.rng, 17));
                form.push_str("d.d");
            }
        }
        if self.rng.chance(2, 5) {
            s.push(if self.rng.bool() { 'e' } else { 'E' });
            form.push('e');
            match self.rng.below(3) {
                0 => {
                    s.push('-');
                    form.push('-');
                }
                1 => {
                    s.push('+');
                    form.push('+');
                }
                _ => {}
            }
            let e = match self.rng.below(4) {
                0 => self.rng.below(400),
                1 => 290 + self.rng.below(40),
                _ => self.rng.below(30),
            };
            s.push_str(&e.to_string());
        }
        if self.rng.chance(1, 30) {
            s = (*self.rng.pick(&["-0", "-0.0", "0e0", "+0.", "1E+5", "4.9e-324", "1.7976931348623157e308", "1.7976931348623159e308", "2.2250738585072011e-308", "9007199254740993", "0.1e-400", "1e400"])).to_string();
            form = "special".into();
        }
        self.rep.count(&format!("float-form:random:{form}"));
        let v: f64 = s.parse().unwrap();
        (s, v)
    }

    fn lit_str(&mut self) -> String {
        // xs:string keeps whitespace: whitespace-only text is a value like any other
        if self.rng.chance(1, 12) {
            self.rep.count("string:whitespace-only");
            return self.rng.pick(&[" ", "  ", "\n  ", "\t", " \n"]).to_string();
        }
        loop {
            let n = 1 + self.rng.below(12) as usize;
            let mut s = String::new();
            for _ in 0..n {
                s.push_str(*self.rng.pick::<&str>(&STR_CHARS));
            }
            if self.rng.chance(1, 12) {
                s.push_str("\nline2");
            }
            if s.trim().is_empty() {
                continue;
            }
            return s;
        }
    }

    fn lit_attr_str(&mut self) -> String {
        let n = self.rng.below(10) as usize;
        let mut s = String::from("v");
        for _ in 0..n {
            s.push_str(*self.rng.pick::<&str>(&STR_CHARS));
        }
        s
    }

    // ---- XML pieces ----

    fn comment(&mut self) -> X {
        X::C(self.rng.pick(&[" c ", "note", "a<b&c", "TODO: check", "x"]).to_string())
    }

    fn text_children(&mut self, s: &str) -> Vec<X> {
        if s.is_empty() {
            return vec![];
        }
        let cuts: Vec<usize> = s.char_indices().map(|c| c.0).filter(|i| *i > 0).collect();
        if self.rng.chance(1, 25) {
            // several comments / processing instructions: up to five text fragments
            let k = 2 + self.rng.below(3) as usize;
            let mut at: Vec<usize> = (0..k).map(|_| if cuts.is_empty() { 0 } else { *self.rng.pick(&cuts) }).collect();
            at.sort_unstable();
            let mut out = vec![];
            let mut prev = 0;
            for i in at {
                if i > prev {
                    out.push(X::T(s[prev..i].to_string()));
                    prev = i;
                }
                let j = if self.rng.bool() { self.comment() } else { X::P("pi data".into()) };
                out.push(j);
            }
            out.push(X::T(s[prev..].to_string()));
            if self.rng.chance(1, 3) {
                out.insert(0, X::P("lead".into()));
            }
            if self.rng.chance(1, 3) {
                out.push(self.comment());
            }
            let frags = out.iter().filter(|x| matches!(x, X::T(_))).count();
            self.rep.count(&format!("text:fragments={}", frags.min(5)));
            return out;
        }
        match self.rng.below(100) {
            0..=2 if !cuts.is_empty() => {
                self.rep.count("text:comment-inside");
                let i = *self.rng.pick(&cuts);
                vec![X::T(s[..i].to_string()), self.comment(), X::T(s[i..].to_string())]
            }
            3 => {
                self.rep.count("text:comment-before");
                vec![self.comment(), X::T(s.to_string())]
            }
            4 => {
                self.rep.count("text:comment-after");
                vec![X::T(s.to_string()), self.comment()]
            }
            _ => vec![X::T(s.to_string())],
        }
    }

    fn mk(&mut self, tag: &str, text: &str) -> X {
        let c = self.text_children(text);
        xe(tag, vec![], c)
    }

    fn mk_attr(&mut self, tag: &str, attrs: Vec<(String, String)>, text: &str) -> X {
        let c = self.text_children(text);
        xe(tag, attrs, c)
    }

    /// interleave whitespace-only text and comments between element children.
    fn noise_wrap(&mut self, elems: Vec<X>) -> Vec<X> {
        if self.noise == 0 {
            return elems;
        }
        let mut out: Vec<X> = vec![];
        let n = elems.len();
        let mut it = elems.into_iter();
        for i in 0..=n {
            if self.rng.below(1000) < self.noise {
                match self.rng.below(6) {
                    5 => out.push(X::P("noise between=\"elements\"".into())),
                    0 => out.push(self.comment()),
                    1 => {
                        out.push(X::T("\n  ".into()));
                        out.push(self.comment());
                        out.push(X::T("\n".into()));
                    }
                    2 => out.push(X::T(" ".into())),
                    _ => out.push(X::T("\n    ".into())),
                }
                self.rep.count("noise:inserted");
            }
            if i < n {
                out.push(it.next().unwrap());
            }
        }
        norm(out)
    }

    fn spec_to_x(&mut self, s: &Spec) -> X {
        let kids: Vec<X> = s.els.iter().map(|e| e.x.clone()).collect();
        let kids = self.noise_wrap(kids);
        xe(s.tag, s.attrs.clone(), kids)
    }

    fn struct_to_x(&mut self, st: &StructSpec) -> X {
        let mut kids: Vec<X> = st.els.iter().map(|e| e.x.clone()).collect();
        for ent in &st.entries {
            kids.push(self.spec_to_x(ent));
        }
        let kids = self.noise_wrap(kids);
        xe("StructReg", st.attrs.clone(), kids)
    }

    fn items_to_x(&mut self, items: &[Item], desugared: bool, flat: bool) -> Vec<X> {
        let mut out = vec![];
        for it in items {
            match it {
                Item::N(s) => out.push(self.spec_to_x(s)),
                Item::S(st) => {
                    if desugared {
                        for s in desugar(st) {
                            out.push(self.spec_to_x(&s));
                        }
                    } else {
                        out.push(self.struct_to_x(st));
                    }
                }
                Item::G(attrs, sub) => {
                    let inner = self.items_to_x(sub, desugared, flat);
                    if flat {
                        out.extend(inner);
                    } else {
                        let inner = self.noise_wrap(inner);
                        let tag = if attrs.iter().any(|a| a.0 == "xmlns:g") { "g:Group" } else { "Group" };
                        out.push(xe(tag, attrs.clone(), inner));
                    }
                }
            }
        }
        out
    }

    fn doc_to_x(&mut self, rd_attrs: &[(String, String)], items: &[Item], desugared: bool, flat: bool) -> X {
        let kids = self.items_to_x(items, desugared, flat);
        let kids = self.noise_wrap(kids);
        xe("RegisterDescription", rd_attrs.to_vec(), kids)
    }

    // ---- element constructors ----

    fn e_str(&mut self, tag: &'static str, key: &'static str) -> El {
        if self.empty_mode > 0 && self.rng.chance(2, 5) {
            self.emptied += 1;
            let kids = if self.empty_mode == 1 { vec![] } else { vec![X::C("c".into())] };
            return El::new(xe(tag, vec![], kids), key, ss(""));
        }
        let s = self.lit_str();
        El::new(self.mk(tag, &s), key, ss(&s))
    }

    fn e_ref(&mut self, tag: &'static str, key: &'static str) -> El {
        let n = self.ref_name();
        let mut e = El::new(self.mk(tag, &n), key, format!("@{}", hx(&n)));
        e.raw = n;
        e
    }

    /// `lits`: (XML literal, canonical variant name)
    fn e_enum(&mut self, tag: &'static str, key: &'static str, lits: &[(&str, &str)]) -> El {
        let (l, c) = *self.rng.pick(lits);
        El::new(self.mk(tag, l), key, c.to_string())
    }

    fn e_bool(&mut self, tag: &'static str, key: &'static str) -> El {
        let (s, b) = self.lit_bool();
        El::new(self.mk(tag, &s), key, bs(b).to_string())
    }

    fn e_bool_nondefault(&mut self, tag: &'static str, key: &'static str) -> El {
        let s = *self.rng.pick(&["Yes", "true"]);
        El::new(self.mk(tag, s), key, "T".to_string())
    }

    fn e_i64(&mut self, tag: &'static str, key: &'static str) -> (El, i64) {
        let (s, v) = self.lit_i64();
        (El::new(self.mk(tag, &s), key, v.to_string()), v)
    }

    fn e_u64(&mut self, tag: &'static str, key: &'static str) -> El {
        let (s, v) = self.lit_u64();
        El::new(self.mk(tag, &s), key, v.to_string())
    }

    /// ImmOrPNode<IntegerId>
    fn e_ipv_i(&mut self, imm: &'static str, pn: &'static str, key: &'static str) -> El {
        if self.rng.bool() {
            self.rep.count("imm-or-pnode:imm");
            let (s, v) = self.lit_i64();
            El::new(self.mk(imm, &s), key, format!("I(i{v})"))
        } else {
            self.rep.count("imm-or-pnode:pnode");
            let n = self.ref_name();
            El::new(self.mk(pn, &n), key, format!("P(@{})", hx(&n)))
        }
    }

    /// ImmOrPNode<FloatId>
    fn e_ipv_f(&mut self, imm: &'static str, pn: &'static str, key: &'static str) -> El {
        if self.rng.bool() {
            self.rep.count("imm-or-pnode:imm");
            let (s, v) = self.lit_f64();
            El::new(self.mk(imm, &s), key, format!("I(f{})", fbits(v)))
        } else {
            self.rep.count("imm-or-pnode:pnode");
            let n = self.ref_name();
            El::new(self.mk(pn, &n), key, format!("P(@{})", hx(&n)))
        }
    }

    /// ImmOrPNode<i64>
    fn e_ipi(&mut self, imm: &'static str, pn: &'static str, key: &'static str) -> El {
        if self.rng.bool() {
            self.rep.count("imm-or-pnode:imm");
            let (s, v) = self.lit_i64();
            El::new(self.mk(imm, &s), key, format!("I({v})"))
        } else {
            self.rep.count("imm-or-pnode:pnode");
            let n = self.ref_name();
            El::new(self.mk(pn, &n), key, format!("P(@{})", hx(&n)))
        }
    }

    /// ImmOrPNode<f64>
    fn e_ipf(&mut self, imm: &'static str, pn: &'static str, key: &'static str) -> El {
        if self.rng.bool() {
            self.rep.count("imm-or-pnode:imm");
            let (s, v) = self.lit_f64();
            El::new(self.mk(imm, &s), key, format!("I({})", fbits(v)))
        } else {
            self.rep.count("imm-or-pnode:pnode");
            let n = self.ref_name();
            El::new(self.mk(pn, &n), key, format!("P(@{})", hx(&n)))
        }
    }

    fn gen_attrs(&mut self, name: &str) -> Vec<(String, String)> {
        let mut a = vec![("Name".to_string(), name.to_string())];
        if self.opt() {
            a.push(("NameSpace".into(), self.rng.pick(&["Standard", "Custom"]).to_string()));
        }
        if self.opt() {
            a.push(("MergePriority".into(), self.rng.pick(&["1", "0", "-1"]).to_string()));
        }
        if self.opt() {
            a.push(("ExposeStatic".into(), self.rng.pick(&["Yes", "No"]).to_string()));
        }
        // random attribute order
        // what every real schema-valid file carries on its root: the default namespace and the
        // schema-instance attributes (roxmltree: local names, declarations are not attributes)
        if self.rng.below(100) < 85 {
            self.rep.count("namespace:root-default+xsi");
            a.push(("xmlns".into(), GENAPI_NS.into()));
            a.push(("xmlns:xsi".into(), "http://www.w3.org/2001/XMLSchema-instance".into()));
            a.push(("xsi:schemaLocation".into(), format!("{GENAPI_NS} GenApiSchema_Version_1_1.xsd")));
        } else {
            self.rep.count("namespace:none");
        }
        for i in (1..a.len()).rev() {
            let j = self.rng.below(i as u64 + 1) as usize;
            a.swap(i, j);
        }
        a
    }

    /// element base.  `nd` = (Visibility, IsDeprecated, ImposedAccessMode) must be non-default if declared.
    /// free-form `<Extension>`: text, or vendor markup - nested elements (vendor-prefixed with
    /// their own namespace, or unprefixed) whose LOCAL names are arbitrary and often collide
    /// with schema element names; nothing inside an Extension declares a property of the node.
    fn gen_extension(&mut self) -> El {
        if self.rng.bool() {
            return self.e_str("Extension", "");
        }
        self.rep.count("extension:nested-elements");
        const COLLIDE: [&str; 14] = [
            "Visibility", "IsDeprecated", "ImposedAccessMode", "Streamable", "AccessMode", "Cachable", "pInvalidator",
            "Value", "ToolTip", "StructEntry", "EnumEntry", "Bit", "pIsLocked", "Extension",
        ];
        const VALUES: [&str; 8] = ["Collapsed", "No", "RW", "Never", "Guru", "NoCache", "Yes", "WO"];
        let prefixed = self.rng.bool();
        let mut leaf = |g: &mut Self| -> X {
            let local = if g.rng.chance(3, 4) { *g.rng.pick(&COLLIDE) } else { *g.rng.pick(&["GuiHints", "Hint", "Order"]) };
            if COLLIDE[..6].contains(&local) {
                g.rep.count("extension:nested-name-of-a-defaultable-property");
            }
            let tag = if prefixed { format!("vnd:{local}") } else { local.to_string() };
            let mut attrs = vec![];
            if g.rng.chance(1, 4) {
                attrs.push(("Name".to_string(), g.lit_attr_str()));
            }
            let kids = if g.rng.chance(1, 6) { vec![] } else { vec![X::T(g.rng.pick(&VALUES).to_string())] };
            xe(&tag, attrs, kids)
        };
        let mut kids: Vec<X> = vec![];
        let n = 1 + self.rng.below(4);
        if self.rng.bool() {
            // one wrapper level, as GUI-hint blocks usually have
            let inner: Vec<X> = (0..n).map(|_| leaf(self)).collect();
            let inner = self.noise_wrap(inner);
            let wrap = if prefixed { "vnd:GuiHints" } else { "GuiHints" };
            kids.push(xe(wrap, vec![], inner));
        } else {
            for _ in 0..n {
                let l = leaf(self);
                kids.push(l);
            }
        }
        if self.rng.chance(1, 3) {
            kids.insert(0, X::T("hint ".into()));
        }
        let kids = self.noise_wrap(kids);
        let mut attrs = vec![];
        if prefixed {
            attrs.push(("xmlns:vnd".to_string(), "urn:vendor:gui-hints".to_string()));
        }
        El::new(xe("Extension", attrs, kids), "", String::new())
    }

    fn gen_base(&mut self, els: &mut Vec<El>, nd: (bool, bool, bool)) {
        if self.opt() {
            let e = self.gen_extension();
            els.push(e);
        }
        if self.opt() {
            let e = self.e_str("ToolTip", "tt");
            els.push(e);
        }
        if self.opt() {
            let e = self.e_str("Description", "de");
            els.push(e);
        }
        if self.opt() {
            let e = self.e_str("DisplayName", "dn");
            els.push(e);
        }
        if self.opt() {
            let all = [("Beginner", "Beginner"), ("Expert", "Expert"), ("Guru", "Guru"), ("Invisible", "Invisible")];
            let e = self.e_enum("Visibility", "vi", if nd.0 { &all[1..] } else { &all });
            els.push(e);
        }
        if self.opt() {
            let e = self.e_str("DocuURL", "du");
            els.push(e);
        }
        if self.opt() {
            let e = if nd.1 { self.e_bool_nondefault("IsDeprecated", "dp") } else { self.e_bool("IsDeprecated", "dp") };
            els.push(e);
        }
        if self.opt() {
            let (s, v) = self.lit_barehex();
            let e = El::new(self.mk("EventID", &s), "ev", v.to_string());
            els.push(e);
        }
        for (tag, key) in [("pIsImplemented", "imp"), ("pIsAvailable", "av"), ("pIsLocked", "lk"), ("pBlockPolling", "bp")] {
            if self.opt() {
                let e = self.e_ref(tag, key);
                els.push(e);
            }
        }
        if self.opt() {
            let all = [("RW", "RW"), ("RO", "RO"), ("WO", "WO")];
            let e = self.e_enum("ImposedAccessMode", "iam", if nd.2 { &all[1..] } else { &all });
            els.push(e);
        }
        for _ in 0..self.few() {
            let e = self.e_ref("pError", "err");
            els.push(e);
        }
        if self.opt() {
            let e = self.e_ref("pAlias", "al");
            els.push(e);
        }
        if self.opt() {
            let e = self.e_ref("pCastAlias", "ca");
            els.push(e);
        }
    }

    /// pInvalidator directly after the element base of a non-register node: swallowed, not observable.
    fn gen_swallowed_inval(&mut self, els: &mut Vec<El>) {
        if self.rng.chance(1, 12) {
            self.rep.count("class:pInvalidator-on-non-register");
            for _ in 0..1 + self.rng.below(2) {
                let mut e = self.e_ref("pInvalidator", "");
                e.raw.clear();
                els.push(e);
            }
        }
    }

    fn gen_streamable(&mut self, els: &mut Vec<El>, key: &'static str) {
        if self.opt() {
            let e = self.e_bool("Streamable", key);
            els.push(e);
        }
    }

    /// register base after the element base.  Returns nothing; embedded IntSwissKnife go to `El::sub`.
    fn gen_rb(&mut self, els: &mut Vec<El>, allow_isk: bool) {
        self.gen_streamable(els, "rst");
        let n_addr = *self.rng.pick(&[0usize, 1, 1, 1, 2, 3]);
        for _ in 0..n_addr {
            match self.rng.below(if allow_isk { 6 } else { 5 }) {
                0 | 1 => {
                    self.rep.count("address:Address");
                    let (s, v) = self.lit_i64();
                    let e = El::new(self.mk("Address", &s), "ad", format!("A(I({v}))"));
                    els.push(e);
                }
                2 => {
                    self.rep.count("address:pAddress");
                    let n = self.ref_name();
                    let e = El::new(self.mk("pAddress", &n), "ad", format!("A(P(@{}))", hx(&n)));
                    els.push(e);
                }
                3 | 4 => {
                    let n = self.ref_name();
                    let (attrs, off) = match self.rng.below(7) {
                        0 | 1 => {
                            self.rep.count("address:pIndex");
                            (vec![], "~".to_string())
                        }
                        2 => {
                            // both attributes: the standard makes them alternatives; the parser
                            // (`Option::xor`) then takes neither - pinned by the model diff; the expectation
                            // oracle does not judge the offset of such a node (`*`)
                            self.rep.count("address:pIndex+Offset+pOffset(both: neither is used)");
                            let (s, _) = self.lit_i64();
                            let o = self.ref_name();
                            let mut a = vec![("Offset".to_string(), s), ("pOffset".to_string(), o)];
                            if self.rng.bool() {
                                a.swap(0, 1);
                            }
                            (a, "*".to_string())
                        }
                        3 | 4 => {
                            self.rep.count("address:pIndex+Offset");
                            let (s, v) = self.lit_i64();
                            (vec![("Offset".to_string(), s)], format!("I({v})"))
                        }
                        _ => {
                            self.rep.count("address:pIndex+pOffset");
                            let o = self.ref_name();
                            (vec![("pOffset".to_string(), o.clone())], format!("P(@{})", hx(&o)))
                        }
                    };
                    let e = El::new(self.mk_attr("pIndex", attrs, &n), "ad", format!("X({off};@{})", hx(&n)));
                    els.push(e);
                }
                _ => {
                    self.rep.count("address:embedded-IntSwissKnife");
                    let save = self.p;
                    let spec = self.gen_node("IntSwissKnife");
                    self.p = save;
                    let x = self.spec_to_x(&spec);
                    let mut e = El::new(x, "ad", format!("K(@{})", hx(&spec.name)));
                    e.sub.push(spec);
                    els.push(e);
                }
            }
        }
        let e = self.e_ipi("Length", "pLength", "len");
        els.push(e);
        if self.opt() {
            let e = self.e_enum("AccessMode", "am", &[("RO", "RO"), ("WO", "WO"), ("RW", "RW")]);
            els.push(e);
        }
        let e = self.e_ref("pPort", "port");
        els.push(e);
        if self.opt() {
            let e = self.e_enum(
                "Cachable",
                "cm",
                &[("WriteThrough", "WriteThrough"), ("WriteAround", "WriteAround"), ("NoCache", "NoCache")],
            );
            els.push(e);
        }
        if self.opt() {
            let e = self.e_u64("PollingTime", "pt");
            els.push(e);
        }
        for _ in 0..self.few() {
            let e = self.e_ref("pInvalidator", "inv");
            els.push(e);
        }
    }

    fn gen_bitmask(&mut self, els: &mut Vec<El>) {
        if self.rng.bool() {
            let (s, v) = self.lit_u64();
            let e = El::new(self.mk("Bit", &s), "bm", format!("B({v})"));
            els.push(e);
        } else {
            let (s1, v1) = self.lit_u64();
            let (s2, v2) = self.lit_u64();
            let e1 = El::new(self.mk("LSB", &s1), "bm", format!("R({v1},{v2})"));
            let e2 = El::new(self.mk("MSB", &s2), "", String::new());
            els.push(e1);
            els.push(e2);
        }
    }

    fn gen_int_tail(&mut self, els: &mut Vec<El>, sign: bool, endian: bool) {
        if sign && self.opt() {
            let e = self.e_enum("Sign", "sg", &[("Signed", "Signed"), ("Unsigned", "Unsigned")]);
            els.push(e);
        }
        if endian && self.opt() {
            let e = self.e_enum("Endianess", "en", &[("LittleEndian", "LE"), ("BigEndian", "BE")]);
            els.push(e);
        }
        if self.opt() {
            let e = self.e_str("Unit", "un");
            els.push(e);
        }
        self.gen_int_rep(els);
        for _ in 0..self.few() {
            let e = self.e_ref("pSelected", "sel");
            els.push(e);
        }
    }

    fn gen_int_rep(&mut self, els: &mut Vec<El>) {
        if self.opt() {
            let e = self.e_enum(
                "Representation",
                "rep",
                &[
                    ("Linear", "Linear"),
                    ("Logarithmic", "Logarithmic"),
                    ("Boolean", "Boolean"),
                    ("PureNumber", "PureNumber"),
                    ("HexNumber", "HexNumber"),
                    ("IPV4Address", "IpV4Address"),
                    ("MACAddress", "MacAddress"),
                ],
            );
            els.push(e);
        }
    }

    fn gen_float_tail(&mut self, els: &mut Vec<El>) {
        if self.opt() {
            let e = self.e_str("Unit", "un");
            els.push(e);
        }
        if self.opt() {
            let e = self.e_enum(
                "Representation",
                "rep",
                &[("Linear", "Linear"), ("Logarithmic", "Logarithmic"), ("PureNumber", "PureNumber")],
            );
            els.push(e);
        }
        if self.opt() {
            let e = self.e_enum(
                "DisplayNotation",
                "dno",
                &[("Automatic", "Automatic"), ("Fixed", "Fixed"), ("Scientific", "Scientific")],
            );
            els.push(e);
        }
        if self.opt() {
            let (e, _) = self.e_i64("DisplayPrecision", "dpr");
            els.push(e);
        }
    }

    fn gen_slope(&mut self, els: &mut Vec<El>) {
        if self.opt() {
            let e = self.e_enum(
                "Slope",
                "sl",
                &[("Increasing", "Increasing"), ("Decreasing", "Decreasing"), ("Varying", "Varying"), ("Automatic", "Automatic")],
            );
            els.push(e);
        }
    }

    /// ValueKind for Integer (`float`=false) / Float nodes.
    fn gen_value_kind(&mut self, els: &mut Vec<El>, float: bool) {
        match self.rng.below(3) {
            0 => {
                self.rep.count("value-kind:Value");
                let val = if float {
                    let (s, v) = self.lit_f64();
                    (s, format!("V(f{})", fbits(v)))
                } else {
                    let (s, v) = self.lit_i64();
                    (s, format!("V(i{v})"))
                };
                let e = El::new(self.mk("Value", &val.0), "vk", val.1);
                els.push(e);
            }
            1 => {
                self.rep.count("value-kind:pValue");
                let before = if self.rng.chance(1, 3) { 1 + self.rng.below(2) as usize } else { 0 };
                let after = if self.rng.chance(1, 3) { 1 + self.rng.below(2) as usize } else { 0 };
                let mut copies = vec![];
                let mut xs = vec![];
                for _ in 0..before {
                    let n = self.ref_name();
                    xs.push(self.mk("pValueCopy", &n));
                    copies.push(format!("@{}", hx(&n)));
                }
                let pv = self.ref_name();
                let pvx = self.mk("pValue", &pv);
                let mut xs_after = vec![];
                for _ in 0..after {
                    let n = self.ref_name();
                    xs_after.push(self.mk("pValueCopy", &n));
                    copies.push(format!("@{}", hx(&n)));
                }
                for x in xs {
                    els.push(El::new(x, "", String::new()));
                }
                els.push(El::new(pvx, "vk", format!("PV(@{};[{}])", hx(&pv), copies.join(","))));
                for x in xs_after {
                    els.push(El::new(x, "", String::new()));
                }
            }
            _ => {
                self.rep.count("value-kind:pIndex");
                let idx = self.ref_name();
                let idx_x = self.mk("pIndex", &idx);
                let n = self.rng.below(4) as usize;
                let mut items = vec![];
                let mut xs = vec![];
                for _ in 0..n {
                    let (is, iv) = self.lit_i64();
                    let e = if float {
                        self.e_ipv_f("ValueIndexed", "pValueIndexed", "")
                    } else {
                        self.e_ipv_i("ValueIndexed", "pValueIndexed", "")
                    };
                    let x = match e.x {
                        X::E { tag, children, .. } => X::E { tag, attrs: vec![("Index".into(), is)], children },
                        other => other,
                    };
                    items.push(format!("{iv}:{}", e.val));
                    xs.push(x);
                }
                let d = if float {
                    self.e_ipv_f("ValueDefault", "pValueDefault", "")
                } else {
                    self.e_ipv_i("ValueDefault", "pValueDefault", "")
                };
                els.push(El::new(idx_x, "vk", format!("PI(@{};[{}];{})", hx(&idx), items.join(","), d.val)));
                for x in xs {
                    els.push(El::new(x, "", String::new()));
                }
                els.push(El::new(d.x, "", String::new()));
            }
        }
    }

    fn gen_formula_el(&mut self, tag: &'static str, key: &'static str) -> El {
        let (t, ast) = self.rng.pick(self.fpool).clone();
        El::new(self.mk(tag, &t), key, fdigest(&ast))
    }

    /// pVariable* Constant* Expression* (the order the parser accepts)
    fn gen_knife_head(&mut self, els: &mut Vec<El>, float: bool) {
        for _ in 0..self.few() {
            let vn = self.rng.pick(&["VAR", "A", "B", "X", "TO", "FROM"]).to_string();
            let n = self.ref_name();
            let x = self.mk_attr("pVariable", vec![("Name".into(), vn.clone())], &n);
            els.push(El::new(x, "pv", format!("{}:@{}", ss(&vn), hx(&n))));
        }
        for _ in 0..self.few() {
            let cn = self.rng.pick(&["C1", "K", "PI", "SCALE"]).to_string();
            let (s, v) = if float {
                let (s, v) = self.lit_f64();
                (s, fbits(v))
            } else {
                let (s, v) = self.lit_i64();
                (s, v.to_string())
            };
            let x = self.mk_attr("Constant", vec![("Name".into(), cn.clone())], &s);
            els.push(El::new(x, "co", format!("{}:{}", ss(&cn), v)));
        }
        for _ in 0..self.few() {
            let en = self.rng.pick(&["E1", "SUB", "TMP"]).to_string();
            let (t, ast) = self.rng.pick(self.fpool).clone();
            let x = self.mk_attr("Expression", vec![("Name".into(), en.clone())], &t);
            els.push(El::new(x, "ex", format!("{}:{}", ss(&en), fdigest(&ast))));
        }
    }

    fn pick_presence(&mut self) {
        self.p = *self.rng.pick(&[0u64, 200, 500, 800, 1000]);
        self.rep.count(&format!("presence-probability:{}", self.p));
    }

    /// One ordinary node (not StructReg / Group).
    fn gen_node(&mut self, kind: &'static str) -> Spec {
        self.pick_presence();
        self.rep.count(&format!("kind:{kind}"));
        let name = self.decl_name();
        let attrs = self.gen_attrs(&name);
        let mut els: Vec<El> = vec![];
        let mut over: Vec<(&'static str, String)> = vec![];
        self.gen_base(&mut els, (false, false, false));
        let register = is_register_kind(kind);
        if !register {
            self.gen_swallowed_inval(&mut els);
        }
        match kind {
            "Node" => {}
            "Category" => {
                for _ in 0..self.few() {
                    let e = self.e_ref("pFeature", "pf");
                    els.push(e);
                }
            }
            "Integer" => {
                self.gen_streamable(&mut els, "st");
                self.gen_value_kind(&mut els, false);
                if self.opt() {
                    let e = self.e_ipv_i("Min", "pMin", "min");
                    els.push(e);
                }
                if self.opt() {
                    let e = self.e_ipv_i("Max", "pMax", "max");
                    els.push(e);
                }
                if self.opt() {
                    let e = self.e_ipi("Inc", "pInc", "inc");
                    els.push(e);
                }
                self.gen_int_tail(&mut els, false, false);
            }
            "IntReg" => {
                self.gen_rb(&mut els, true);
                self.gen_int_tail(&mut els, true, true);
            }
            "MaskedIntReg" => {
                self.gen_rb(&mut els, true);
                self.gen_bitmask(&mut els);
                self.gen_int_tail(&mut els, true, true);
            }
            "Boolean" => {
                self.gen_streamable(&mut els, "st");
                // decide OnValue / OffValue first: an immediate value is stored as on/off value
                let on = if self.opt() { Some(self.lit_i64()) } else { None };
                let off = if self.opt() { Some(self.lit_i64()) } else { None };
                let onv = on.as_ref().map_or(1, |o| o.1);
                let offv = off.as_ref().map_or(0, |o| o.1);
                if self.rng.bool() {
                    self.rep.count("imm-or-pnode:imm");
                    let (s, b) = self.lit_bool();
                    let e = El::new(self.mk("Value", &s), "val", format!("I(i{})", if b { onv } else { offv }));
                    els.push(e);
                } else {
                    self.rep.count("imm-or-pnode:pnode");
                    let n = self.ref_name();
                    let e = El::new(self.mk("pValue", &n), "val", format!("P(@{})", hx(&n)));
                    els.push(e);
                }
                if let Some((s, v)) = on {
                    let e = El::new(self.mk("OnValue", &s), "on", v.to_string());
                    els.push(e);
                }
                if let Some((s, v)) = off {
                    let e = El::new(self.mk("OffValue", &s), "off", v.to_string());
                    els.push(e);
                }
                for _ in 0..self.few() {
                    let e = self.e_ref("pSelected", "sel");
                    els.push(e);
                }
            }
            "Command" => {
                let e = self.e_ipv_i("Value", "pValue", "val");
                els.push(e);
                let e = self.e_ipv_i("CommandValue", "pCommandValue", "cv");
                els.push(e);
                if self.opt() {
                    let e = self.e_u64("PollingTime", "pt");
                    els.push(e);
                }
            }
            "Enumeration" => {
                self.gen_streamable(&mut els, "st");
                let n = 1 + self.rng.below(4) as usize;
                let save = self.p;
                for _ in 0..n {
                    let ent = self.gen_enum_entry();
                    let x = self.spec_to_x(&ent);
                    let mut e = El::new(x, "ent", format!("@{}", hx(&ent.name)));
                    e.sub.push(ent);
                    els.push(e);
                }
                self.p = save;
                let e = self.e_ipv_i("Value", "pValue", "val");
                els.push(e);
                for _ in 0..self.few() {
                    let e = self.e_ref("pSelected", "sel");
                    els.push(e);
                }
                if self.opt() {
                    let e = self.e_u64("PollingTime", "pt");
                    els.push(e);
                }
            }
            "Float" => {
                self.gen_streamable(&mut els, "st");
                self.gen_value_kind(&mut els, true);
                if self.opt() {
                    let e = self.e_ipv_f("Min", "pMin", "min");
                    els.push(e);
                }
                if self.opt() {
                    let e = self.e_ipv_f("Max", "pMax", "max");
                    els.push(e);
                }
                if self.opt() {
                    let e = self.e_ipf("Inc", "pInc", "inc");
                    els.push(e);
                }
                self.gen_float_tail(&mut els);
            }
            "FloatReg" => {
                self.gen_rb(&mut els, true);
                if self.opt() {
                    let e = self.e_enum("Endianess", "en", &[("LittleEndian", "LE"), ("BigEndian", "BE")]);
                    els.push(e);
                }
                self.gen_float_tail(&mut els);
            }
            "String" => {
                self.gen_streamable(&mut els, "st");
                if self.rng.bool() {
                    self.rep.count("imm-or-pnode:imm");
                    // string constants repeat in real descriptions ("N/A", empty defaults ...):
                    // every node still owns its declared immediate
                    let mut e = if self.rng.chance(3, 5) {
                        self.rep.count("string-value:common-constant");
                        let t = *self.rng.pick(&["N/A", "", "default", "0", " "]);
                        El::new(self.mk("Value", t), "val", ss(t))
                    } else {
                        self.e_str("Value", "val")
                    };
                    e.val = format!("I(s{})", e.val);
                    els.push(e);
                } else {
                    self.rep.count("imm-or-pnode:pnode");
                    let n = self.ref_name();
                    let e = El::new(self.mk("pValue", &n), "val", format!("P(@{})", hx(&n)));
                    els.push(e);
                }
            }
            "StringReg" | "Register" => {
                self.gen_rb(&mut els, true);
            }
            "Converter" | "IntConverter" => {
                let float = kind == "Converter";
                self.gen_streamable(&mut els, "st");
                self.gen_knife_head(&mut els, float);
                let e = self.gen_formula_el("FormulaTo", "fto");
                els.push(e);
                let e = self.gen_formula_el("FormulaFrom", "ffr");
                els.push(e);
                let e = self.e_ref("pValue", "pval");
                els.push(e);
                if float {
                    self.gen_float_tail(&mut els);
                    self.gen_slope(&mut els);
                    if self.opt() {
                        let e = self.e_bool("IsLinear", "lin");
                        els.push(e);
                    }
                } else {
                    if self.opt() {
                        let e = self.e_str("Unit", "un");
                        els.push(e);
                    }
                    self.gen_int_rep(&mut els);
                    self.gen_slope(&mut els);
                }
            }
            "SwissKnife" | "IntSwissKnife" => {
                let float = kind == "SwissKnife";
                self.gen_streamable(&mut els, "st");
                self.gen_knife_head(&mut els, float);
                let e = self.gen_formula_el("Formula", "f");
                els.push(e);
                if float {
                    self.gen_float_tail(&mut els);
                } else {
                    if self.opt() {
                        let e = self.e_str("Unit", "un");
                        els.push(e);
                    }
                    self.gen_int_rep(&mut els);
                }
            }
            "Port" => {
                if self.opt() {
                    if self.rng.bool() {
                        let (s, v) = self.lit_barehex();
                        let e = El::new(self.mk("ChunkID", &s), "cid", format!("I({v})"));
                        els.push(e);
                    } else {
                        let n = self.ref_name();
                        let e = El::new(self.mk("pChunkID", &n), "cid", format!("P(@{})", hx(&n)));
                        els.push(e);
                    }
                }
                if self.opt() {
                    let e = self.e_bool("SwapEndianess", "se");
                    els.push(e);
                }
                if self.opt() {
                    let e = self.e_bool("CacheChunkData", "ccd");
                    els.push(e);
                }
            }
            _ => unreachable!(),
        }
        let _ = &mut over;
        let tag = kind;
        Spec { kind, tag, attrs, name, els, over, meta: None }
    }

    fn gen_enum_entry(&mut self) -> Spec {
        self.pick_presence();
        self.rep.count("kind:EnumEntry");
        // symbolic names are unique only within an enumeration in real files ("Off", "On" ...):
        // entries of different enumerations share them, the stored name `$<sym>_<k>` stays unique
        let sym = if self.rng.chance(1, 3) {
            self.rep.count("enum-entry:shared-symbolic");
            self.rng.pick(&["Off", "On", "Auto", "Mode1", "Continuous"]).to_string()
        } else {
            self.fresh_name()
        };
        let name = format!("${}_{}", sym, self.fresh);
        self.fresh += 1;
        let attrs = self.gen_attrs(&sym);
        let mut els = vec![];
        self.gen_base(&mut els, (false, false, false));
        self.gen_swallowed_inval(&mut els);
        let (e, v) = self.e_i64("Value", "v");
        els.push(e);
        let mut over = vec![("nv", fbits(v as f64))];
        if self.opt() {
            let (s, f) = self.lit_f64();
            let e = El::new(self.mk("NumericValue", &s), "nv", fbits(f));
            els.push(e);
            over.clear();
        }
        if self.opt() {
            let e = self.e_bool("IsSelfClearing", "sc");
            els.push(e);
        }
        Spec { kind: "EnumEntry", tag: "EnumEntry", attrs, name, els, over, meta: None }
    }

    fn gen_struct(&mut self) -> StructSpec {
        self.pick_presence();
        self.rep.count("kind:StructReg");
        let mut attrs = vec![];
        if self.opt() {
            attrs.push(("Comment".to_string(), self.lit_attr_str()));
        }
        let mut els = vec![];
        self.gen_base(&mut els, (false, false, false));
        let allow_isk = self.rng.chance(1, 6);
        self.gen_rb(&mut els, allow_isk);
        if self.opt() {
            let e = self.e_enum("Endianess", "en", &[("LittleEndian", "LE"), ("BigEndian", "BE")]);
            els.push(e);
        }
        let dflt_of = |els: &[El], tag: &str, d: &str| find(els, tag).map_or(false, |e| e.val != d);
        let s_vi = dflt_of(&els, "Visibility", "Beginner");
        let s_dp = dflt_of(&els, "IsDeprecated", "F");
        let s_iam = dflt_of(&els, "ImposedAccessMode", "RW");
        let s_st = dflt_of(&els, "Streamable", "F");
        let s_am = dflt_of(&els, "AccessMode", "RO");
        let s_cm = dflt_of(&els, "Cachable", "WriteThrough");
        let ed = self.explicit_default;
        let n = 1 + self.rng.below(4) as usize;
        let mut entries = vec![];
        for _ in 0..n {
            self.pick_presence();
            self.rep.count("kind:StructEntry");
            let name = self.decl_name();
            let eattrs = self.gen_attrs(&name);
            let mut e_els = vec![];
            self.gen_base(&mut e_els, (s_vi && !ed, s_dp && !ed, s_iam && !ed));
            for _ in 0..self.few() {
                let e = self.e_ref("pInvalidator", "inv");
                e_els.push(e);
            }
            if self.opt() {
                let all = [("RO", "RO"), ("WO", "WO"), ("RW", "RW")];
                let e = self.e_enum("AccessMode", "am", if s_am && !ed { &all[1..] } else { &all });
                e_els.push(e);
            }
            if self.opt() {
                let all = [("WriteThrough", "WriteThrough"), ("WriteAround", "WriteAround"), ("NoCache", "NoCache")];
                let e = self.e_enum("Cachable", "cm", if s_cm && !ed { &all[1..] } else { &all });
                e_els.push(e);
            }
            if self.opt() {
                let e = self.e_u64("PollingTime", "pt");
                e_els.push(e);
            }
            if self.opt() {
                let e = if s_st && !ed { self.e_bool_nondefault("Streamable", "rst") } else { self.e_bool("Streamable", "rst") };
                e_els.push(e);
            }
            self.gen_bitmask(&mut e_els);
            self.gen_int_tail(&mut e_els, true, false);
            entries.push(Spec { kind: "MaskedIntReg", tag: "StructEntry", attrs: eattrs, name, els: e_els, over: vec![], meta: None });
        }
        let st = StructSpec { attrs, els, entries };
        if ed && desugar(&st).iter().any(|s| s.meta.as_ref().map_or(false, |m| m.values().any(|v| v.2))) {
            self.explicit_default_used = true;
        }
        st
    }

    fn gen_item(&mut self, depth: u32) -> Item {
        let mut kind = *self.rng.pick(&KINDS);
        if kind == "Group" && depth >= 2 {
            kind = "Node";
        }
        match kind {
            "StructReg" => Item::S(self.gen_struct()),
            "Group" => {
                self.rep.count("kind:Group");
                if depth > 0 {
                    self.rep.count("kind:Group(nested)");
                }
                let mut attrs = vec![];
                if self.rng.bool() {
                    attrs.push(("Comment".to_string(), self.lit_attr_str()));
                }
                match self.rng.below(20) {
                    0 | 1 | 2 => {
                        self.rep.count("namespace:default-redeclared-on-Group");
                        attrs.push(("xmlns".to_string(), GENAPI_NS.to_string()));
                    }
                    3 => {
                        self.rep.count("namespace:prefixed-Group");
                        attrs.push(("xmlns:g".to_string(), GENAPI_NS.to_string()));
                    }
                    _ => {}
                }
                let n = if self.rng.chance(1, 20) { 0 } else { 1 + self.rng.below(4) as usize };
                let sub = (0..n).map(|_| self.gen_item(depth + 1)).collect();
                Item::G(attrs, sub)
            }
            k => Item::N(self.gen_node(k)),
        }
    }

    fn gen_rd_attrs(&mut self) -> Vec<(String, String)> {
        let mut a: Vec<(String, String)> = vec![
            ("ModelName".into(), self.lit_attr_str()),
            ("VendorName".into(), self.lit_attr_str()),
            ("StandardNameSpace".into(), self.rng.pick(&["None", "IIDC", "GEV", "CL", "USB"]).to_string()),
            ("ProductGuid".into(), self.lit_attr_str()),
            ("VersionGuid".into(), self.lit_attr_str()),
        ];
        if self.rng.bool() {
            a.push(("ToolTip".into(), self.lit_attr_str()));
        }
        for k in ["SchemaMajorVersion", "SchemaMinorVersion", "SchemaSubMinorVersion", "MajorVersion", "MinorVersion", "SubMinorVersion"] {
            let v = self.rng.below(40);
            let s = match self.rng.below(3) {
                0 => format!("0x{:x}", v),
                _ => v.to_string(),
            };
            a.push((k.into(), s));
        }
        // what every real schema-valid file carries on its root: the default namespace and the
        // schema-instance attributes (roxmltree: local names, declarations are not attributes)
        if self.rng.below(100) < 85 {
            self.rep.count("namespace:root-default+xsi");
            a.push(("xmlns".into(), GENAPI_NS.into()));
            a.push(("xmlns:xsi".into(), "http://www.w3.org/2001/XMLSchema-instance".into()));
            a.push(("xsi:schemaLocation".into(), format!("{GENAPI_NS} GenApiSchema_Version_1_1.xsd")));
        } else {
            self.rep.count("namespace:none");
        }
        for i in (1..a.len()).rev() {
            let j = self.rng.below(i as u64 + 1) as usize;
            a.swap(i, j);
        }
        a
    }

    fn gen_doc(&mut self) -> (Vec<(String, String)>, Vec<Item>) {
        let n = 2 + self.rng.below(11) as usize;
        self.reach = (n * 3 / 2).max(3);
        self.noise = *self.rng.pick(&[0u64, 0, 300, 700]);
        let rd = self.gen_rd_attrs();
        let items = (0..n).map(|_| self.gen_item(0)).collect();
        (rd, items)
    }
}

// ---------------------------------------------------------------------------------------
// Oracles
// ---------------------------------------------------------------------------------------


/// `rep.violation` + a per-signature counter in `extra.violation_sigs` (the report keeps only 40 full entries).
fn viol(rep: &mut Report, sig: Value, what: &str, replay: Value) {
    let key = sig.to_string();
    let e = rep.extra.entry("violation_sigs".into()).or_insert_with(|| json!({}));
    let n = e[&key].as_u64().unwrap_or(0);
    e[&key] = json!(n + 1);
    rep.violation(sig, what, replay);
}

/// split at `sep` occurrences that are not nested in () or [].
fn split_top(s: &str, sep: char) -> Vec<&str> {
    let mut out = vec![];
    let mut depth = 0i32;
    let mut start = 0;
    for (i, c) in s.char_indices() {
        match c {
            '(' | '[' => depth += 1,
            ')' | ']' => depth -= 1,
            c if c == sep && depth == 0 => {
                out.push(&s[start..i]);
                start = i + 1;
            }
            _ => {}
        }
    }
    out.push(&s[start..]);
    out
}

/// `KIND{k=v;...}` -> (KIND, [(k, v)])
fn parse_line(line: &str) -> (String, Vec<(String, String)>) {
    let open = line.find('{').unwrap_or(line.len());
    let kind = line[..open].to_string();
    let body = if open < line.len() { &line[open + 1..line.len() - 1] } else { "" };
    let fields = split_top(body, ';')
        .into_iter()
        .filter(|f| !f.is_empty())
        .map(|f| match f.find('=') {
            Some(i) => (f[..i].to_string(), f[i + 1..].to_string()),
            None => (f.to_string(), String::new()),
        })
        .collect();
    (kind, fields)
}

fn diff_fields(a: &str, b: &str) -> Vec<String> {
    if a == b {
        return vec![];
    }
    let (ka, fa) = parse_line(a);
    let (kb, fb) = parse_line(b);
    if ka != kb || fa.len() != fb.len() {
        return vec!["<kind>".into()];
    }
    fa.iter().zip(fb.iter()).filter(|(x, y)| x != y).map(|(x, _)| x.0.clone()).collect()
}

fn meta_json(m: &Meta) -> Value {
    let mut o = serde_json::Map::new();
    for (k, v) in m {
        o.insert(k.clone(), json!([v.0, v.1, v.2]));
    }
    Value::Object(o)
}

fn meta_from(v: &Value) -> Option<Meta> {
    let o = v.as_object()?;
    let mut m = Meta::new();
    for (k, t) in o {
        m.insert(
            k.clone(),
            (t[0].as_bool().unwrap_or(false), t[1].as_bool().unwrap_or(false), t[2].as_bool().unwrap_or(false)),
        );
    }
    Some(m)
}

struct Case {
    cls: String,
    /// "" for the generated document, "struct-twin" for its desugared twin
    variant: String,
    xml: String,
    request: String,
    looks: Vec<String>,
    exps: Vec<Exp>,
    exp_inval: Vec<(String, String)>,
    exp_rd: String,
}

impl Case {
    fn replay(&self) -> Value {
        json!({
            "oracle": "retrievable",
            "class": self.cls,
            "variant": self.variant,
            "xml": self.xml,
            "twin": Value::Null,
            "looks": self.looks,
            "request": self.request,
            "exp_rd": self.exp_rd,
            "exp_inval": self.exp_inval.iter().map(|p| json!([p.0, p.1])).collect::<Vec<_>>(),
            "exps": self.exps.iter().map(|e| json!({
                "name": e.name, "kind": e.kind, "line": e.line,
                "meta": e.meta.as_ref().map_or(Value::Null, meta_json)})).collect::<Vec<_>>(),
        })
    }
    fn from_replay(r: &Value) -> Case {
        let strs = |v: &Value| -> Vec<String> {
            v.as_array().map_or(vec![], |a| a.iter().map(|s| s.as_str().unwrap_or("").to_string()).collect())
        };
        Case {
            cls: r["class"].as_str().unwrap_or("valid").to_string(),
            variant: r["variant"].as_str().unwrap_or("").to_string(),
            xml: r["xml"].as_str().unwrap_or("").to_string(),
            request: r["request"].as_str().unwrap_or("").to_string(),
            looks: strs(&r["looks"]),
            exp_rd: r["exp_rd"].as_str().unwrap_or("").to_string(),
            exp_inval: r["exp_inval"].as_array().map_or(vec![], |a| {
                a.iter().map(|p| (p[0].as_str().unwrap_or("").to_string(), p[1].as_str().unwrap_or("").to_string())).collect()
            }),
            exps: r["exps"].as_array().map_or(vec![], |a| {
                a.iter()
                    .map(|e| Exp {
                        name: e["name"].as_str().unwrap_or("").to_string(),
                        kind: e["kind"].as_str().unwrap_or("").to_string(),
                        line: e["line"].as_str().unwrap_or("").to_string(),
                        meta: meta_from(&e["meta"]),
                    })
                    .collect()
            }),
        }
    }
    fn probes(&self) -> Vec<String> {
        self.exps.iter().map(|e| e.name.clone()).collect()
    }
}

fn add_meta(sig: &mut Value, meta: Option<&Meta>, field: &str) {
    if let Some(m) = meta {
        sig["from_struct"] = json!(true);
        if let Some((eh, sh, ed)) = m.get(field) {
            sig["entry_has"] = json!(eh);
            sig["struct_has"] = json!(sh);
            if *ed {
                sig["explicit_default"] = json!(true);
            }
        }
    }
}

fn dist_add(rep: &mut Report, key: &str, n: u64) {
    *rep.dist.entry(key.into()).or_insert(0) += n;
}

/// (a) every declared node is retrievable with exactly the declared properties / schema defaults.
fn oracle_retrievable(rep: &mut Report, case: &Case, res: &Res) {
    let mut seen: HashSet<String> = HashSet::new();
    let mut emit = |rep: &mut Report, mut sig: Value, what: String| {
        if !case.variant.is_empty() {
            sig["variant"] = json!(case.variant);
        }
        if seen.insert(sig.to_string()) {
            viol(rep, sig, &what, case.replay());
        }
    };
    let out = match res {
        Res::Ok(o) => o,
        other => {
            let w = other.answer();
            emit(rep, json!({"kind": "retrievable", "what": w, "class": case.cls}), format!("schema-valid document ({}) -> {w}", case.cls));
            return;
        }
    };
    if out.rd != case.exp_rd {
        emit(rep, json!({"kind": "retrievable", "what": "rd", "class": case.cls}), format!("RegisterDescription: got {} expected {}", out.rd, case.exp_rd));
    }
    for (sig, what) in &out.beh {
        emit(rep, sig.clone(), what.clone());
    }
    dist_add(rep, "immediates:written-through-node-api", out.beh_counts.0);
    dist_add(rep, "immediates:written-through-store-update", out.beh_counts.1);
    dist_add(rep, "immediates:not-written(over 24 per document)", out.beh_counts.2);
    let map: BTreeMap<&str, (&str, &str)> = out.nodes.iter().map(|n| (n.0.as_str(), (n.1.as_str(), n.2.as_str()))).collect();
    for (i, e) in case.exps.iter().enumerate() {
        if out.probes.get(i).map(|s| s.as_str()) != Some(e.kind.as_str()) {
            let mut sig = json!({"kind": "retrievable", "what": "lookup", "node_kind": e.kind, "class": case.cls});
            add_meta(&mut sig, e.meta.as_ref(), "");
            emit(rep, sig, format!("declared {} `{}` looked up as {:?}", e.kind, e.name, out.probes.get(i)));
        }
        match map.get(e.name.as_str()) {
            None => {
                let mut sig = json!({"kind": "retrievable", "what": "missing", "node_kind": e.kind, "class": case.cls});
                add_meta(&mut sig, e.meta.as_ref(), "");
                emit(rep, sig, format!("declared {} `{}` not visited", e.kind, e.name));
            }
            Some((_, line)) => {
                for f in diff_fields(line, &e.line) {
                    if f == "ad" && e.line.contains("X(*;") {
                        continue; // Offset AND pOffset: which one counts is not judged
                    }
                    let mut sig = json!({"kind": "retrievable", "what": "field", "node_kind": e.kind, "field": f, "class": case.cls});
                    add_meta(&mut sig, e.meta.as_ref(), &f);
                    emit(rep, sig, format!("{} `{}` field {f}: got {line} expected {}", e.kind, e.name, e.line));
                }
            }
        }
    }
    if out.nodes.len() != case.exps.len() {
        emit(
            rep,
            json!({"kind": "retrievable", "what": "node-count", "class": case.cls}),
            format!("{} nodes stored, {} declared", out.nodes.len(), case.exps.len()),
        );
    }
    let mut a = out.inval.clone();
    let mut b = case.exp_inval.clone();
    a.sort();
    b.sort();
    if a != b {
        let from_struct = case.exps.iter().any(|e| e.meta.is_some());
        emit(
            rep,
            json!({"kind": "retrievable", "what": "inval", "class": case.cls, "doc_has_struct": from_struct}),
            format!("invalidator registrations: got {:?} expected {:?}", a, b),
        );
    }
}

struct Twin {
    oracle: String,
    xml: String,
    twin: String,
    looks: Vec<String>,
    request: String,
    twin_request: String,
    metas: BTreeMap<String, Meta>,
}

impl Twin {
    fn replay(&self) -> Value {
        let mut o = serde_json::Map::new();
        for (k, m) in &self.metas {
            o.insert(k.clone(), meta_json(m));
        }
        json!({"oracle": self.oracle, "xml": self.xml, "twin": self.twin, "looks": self.looks,
               "request": self.request, "twin_request": self.twin_request, "metas": Value::Object(o)})
    }
    fn from_replay(r: &Value) -> Twin {
        let s = |k: &str| r[k].as_str().unwrap_or("").to_string();
        let mut metas = BTreeMap::new();
        if let Some(o) = r["metas"].as_object() {
            for (k, v) in o {
                if let Some(m) = meta_from(v) {
                    metas.insert(k.clone(), m);
                }
            }
        }
        Twin {
            oracle: s("oracle"),
            xml: s("xml"),
            twin: s("twin"),
            looks: r["looks"].as_array().map_or(vec![], |a| a.iter().map(|s| s.as_str().unwrap_or("").to_string()).collect()),
            request: s("request"),
            twin_request: s("twin_request"),
            metas,
        }
    }
}

/// (b) StructReg vs explicit MaskedIntRegs, (c) Group vs flat: both parsed by the real parser.
fn oracle_twin(rep: &mut Report, tw: &Twin, res: &Res, tres: &Res) {
    let mut seen: HashSet<String> = HashSet::new();
    let kind = tw.oracle.clone();
    let mut emit = |rep: &mut Report, sig: Value, what: String| {
        if seen.insert(sig.to_string()) {
            viol(rep, sig, &what, tw.replay());
        }
    };
    let (a, b) = match (res, tres) {
        (Res::Ok(a), Res::Ok(b)) => (a, b),
        (x, y) => {
            let (x, y) = (x.answer(), y.answer());
            let (xo, yo) = (x.starts_with("ok"), y.starts_with("ok"));
            if xo != yo || (!xo && x != y) {
                emit(
                    rep,
                    json!({"kind": kind, "field": "<outcome>", "doc": if xo { "ok" } else { x.as_str() }, "twin": if yo { "ok" } else { y.as_str() }}),
                    "document and twin differ in outcome".into(),
                );
            }
            return;
        }
    };
    if kind == "group-flat" {
        if a.answer != b.answer {
            let mut field = "answer".to_string();
            for (na, nb) in a.nodes.iter().zip(b.nodes.iter()) {
                if na.2 != nb.2 {
                    field = diff_fields(&na.2, &nb.2).first().cloned().unwrap_or_else(|| "node".into());
                    break;
                }
            }
            emit(rep, json!({"kind": "group-flat", "field": field}), "grouped and flat documents give different answers".into());
        }
        return;
    }
    if a.rd != b.rd {
        emit(rep, json!({"kind": kind, "field": "rd"}), "RegisterDescription differs".into());
    }
    let ma: BTreeMap<&str, &str> = a.nodes.iter().map(|n| (n.0.as_str(), n.2.as_str())).collect();
    let mb: BTreeMap<&str, &str> = b.nodes.iter().map(|n| (n.0.as_str(), n.2.as_str())).collect();
    for (name, la) in &ma {
        let meta = tw.metas.get(*name);
        match mb.get(name) {
            None => {
                let mut sig = json!({"kind": kind, "field": "<missing-in-twin>"});
                add_meta(&mut sig, meta, "");
                emit(rep, sig, format!("node `{name}` only in the StructReg document"));
            }
            Some(lb) => {
                for f in diff_fields(la, lb) {
                    let mut sig = json!({"kind": kind, "field": f});
                    match meta {
                        Some(m) => {
                            let (eh, sh, ed) = m.get(&f).copied().unwrap_or((false, false, false));
                            sig["entry_has"] = json!(eh);
                            sig["struct_has"] = json!(sh);
                            if ed {
                                sig["explicit_default"] = json!(true);
                            }
                        }
                        None => sig["node"] = json!("not-a-struct-entry"),
                    }
                    emit(rep, sig, format!("`{name}` field {f}: StructReg gives {la}, explicit MaskedIntReg gives {lb}"));
                }
            }
        }
    }
    for name in mb.keys() {
        if !ma.contains_key(name) {
            emit(rep, json!({"kind": kind, "field": "<missing-in-doc>"}), format!("node `{name}` only in the twin"));
        }
    }
    let mut ia = a.inval.clone();
    let mut ib = b.inval.clone();
    ia.sort();
    ib.sort();
    if ia != ib {
        let lost = ib.iter().filter(|p| !ia.contains(p)).count();
        let extra = ia.iter().filter(|p| !ib.contains(p)).count();
        emit(
            rep,
            json!({"kind": kind, "field": "inval[]", "lost": lost > 0, "extra": extra > 0}),
            format!("invalidator registrations differ: StructReg {:?} vs explicit {:?}", ia, ib),
        );
    }
    // A name that only the StructReg mentions (in a property every entry overrides) is interned
    // there but unknown to the twin: in both documents no node is stored under it, which is all
    // the property speaks about.  `-` (interned, no node) and `?` (not interned) are equivalent here.
    let canon = |l: &Vec<String>| -> Vec<String> {
        l.iter().map(|x| if x.ends_with(":-") { format!("{}?", &x[..x.len() - 1]) } else { x.clone() }).collect()
    };
    if canon(&a.looks) != canon(&b.looks) {
        emit(rep, json!({"kind": kind, "field": "look"}), "look-ups differ".into());
    }
}

fn expected_rd(attrs: &[(String, String)]) -> String {
    let g = |k: &str| attr_of(attrs, k).unwrap_or("");
    let u = |k: &str| -> u64 {
        let s = g(k);
        if let Some(h) = s.strip_prefix("0x") {
            u64::from_str_radix(h, 16).unwrap_or(0)
        } else {
            s.parse().unwrap_or(0)
        }
    };
    format!(
        "mn={};vn={};tt={};sns={};sv={}.{}.{};v={}.{}.{};pg={};vg={}",
        ss(g("ModelName")),
        ss(g("VendorName")),
        oss(attr_of(attrs, "ToolTip")),
        g("StandardNameSpace"),
        u("SchemaMajorVersion"),
        u("SchemaMinorVersion"),
        u("SchemaSubMinorVersion"),
        u("MajorVersion"),
        u("MinorVersion"),
        u("SubMinorVersion"),
        ss(g("ProductGuid")),
        ss(g("VersionGuid"))
    )
}

// ---------------------------------------------------------------------------------------
// Malformed stream (X-level mutations of a valid document)
// ---------------------------------------------------------------------------------------

/// (path, tag, parent tag) of every element below `x` (the root itself has the empty path).
fn walk(x: &X, path: &mut Vec<usize>, parent: &str, out: &mut Vec<(Vec<usize>, String, String)>) {
    if let X::E { tag, children, .. } = x {
        out.push((path.clone(), tag.clone(), parent.to_string()));
        for (i, c) in children.iter().enumerate() {
            path.push(i);
            walk(c, path, tag, out);
            path.pop();
        }
    }
}

fn at_mut<'a>(x: &'a mut X, path: &[usize]) -> &'a mut X {
    let mut cur = x;
    for i in path {
        cur = match cur {
            X::E { children, .. } => &mut children[*i],
            _ => unreachable!(),
        };
    }
    cur
}

fn set_text(x: &mut X, text: &str) {
    if let X::E { children, .. } = x {
        *children = if text.is_empty() { vec![] } else { vec![X::T(text.to_string())] };
    }
}

const NODE_TAGS: [&str; 19] = [
    "Node", "Category", "Integer", "IntReg", "MaskedIntReg", "Boolean", "Command", "Enumeration", "Float", "FloatReg",
    "String", "StringReg", "Register", "Converter", "IntConverter", "SwissKnife", "IntSwissKnife", "Port", "StructEntry",
];
const ENUM_TAGS: [&str; 10] = [
    "Visibility", "AccessMode", "ImposedAccessMode", "Cachable", "Representation", "Sign", "Endianess", "Slope",
    "DisplayNotation", "IsDeprecated",
];
const U64_TAGS: [&str; 4] = ["PollingTime", "Bit", "LSB", "MSB"];

fn is_i64_field(tag: &str, parent: &str) -> bool {
    matches!(tag, "Length" | "Address" | "OnValue" | "OffValue" | "DisplayPrecision" | "CommandValue")
        || (matches!(tag, "Value" | "Min" | "Max" | "Inc") && matches!(parent, "Integer" | "EnumEntry" | "Command"))
}

const MUTATIONS: [&str; 16] = [
    "struct-child-not-entry", "symbol-first-in-sniffed",
    "unknown-enum-literal", "missing-mandatory", "empty-numeric", "int-out-of-range", "negative-in-u64", "order-swapped",
    "duplicate-name", "unknown-top-tag", "unsupported-dcam-kind", "spaces-around-number", "missing-name", "bad-bool",
    "missing-root-attr", "bad-attr-literal",
];

/// Returns the applied mutation name (falls back to `dcam-tag` if the wanted one has no candidate).
fn mutate(root: &mut X, want: &str, rng: &mut Rng) -> String {
    let mut all = vec![];
    walk(root, &mut vec![], "", &mut all);
    let pick = |rng: &mut Rng, f: &dyn Fn(&(Vec<usize>, String, String)) -> bool| -> Option<Vec<usize>> {
        let c: Vec<&(Vec<usize>, String, String)> = all.iter().filter(|e| f(e)).collect();
        if c.is_empty() {
            None
        } else {
            Some(c[rng.below(c.len() as u64) as usize].0.clone())
        }
    };
    let done = match want {
        // a StructReg child that is no StructEntry: debug assertion in the dev profile, parsed
        // like an entry in the release profile
        "struct-child-not-entry" => pick(rng, &|e| e.1 == "StructEntry").map(|p| {
            if let X::E { tag, .. } = at_mut(root, &p) {
                *tag = rng.pick(&["Entry", "MaskedIntReg", "StructEntri"]).to_string();
            }
        }),
        // a non-ASCII, non-alphabetic first character where the parser sniffs immediate/reference
        "symbol-first-in-sniffed" => pick(rng, &|e| {
            matches!(e.1.as_str(), "pValue" | "pMin" | "pMax" | "pInc" | "pLength" | "pAddress" | "Value" | "Min" | "Max" | "Length")
                && matches!(e.2.as_str(), "Integer" | "Float" | "IntReg" | "MaskedIntReg" | "FloatReg" | "StringReg" | "Register" | "Command" | "Boolean")
        })
        .map(|p| {
            set_text(at_mut(root, &p), *rng.pick(&["✓ok", "€5", "→x", "½", "٣"]));
        }),
        "unknown-enum-literal" => pick(rng, &|e| ENUM_TAGS.contains(&e.1.as_str())).map(|p| {
            set_text(at_mut(root, &p), *rng.pick(&["Bogus", "ro", "beginner", "Maybe"]));
        }),
        "missing-mandatory" => pick(rng, &|e| {
            matches!(e.1.as_str(), "Length" | "pLength" | "pPort" | "Formula" | "FormulaTo" | "CommandValue" | "pCommandValue")
                || (matches!(e.1.as_str(), "Value" | "pValue")
                    && matches!(e.2.as_str(), "Integer" | "Float" | "Boolean" | "Command" | "Enumeration" | "String" | "EnumEntry"))
        })
        .map(|p| {
            let (last, parent) = p.split_last().unwrap();
            if let X::E { children, .. } = at_mut(root, parent) {
                children.remove(*last);
                let c = std::mem::take(children);
                *children = norm(c);
            }
        }),
        "empty-numeric" => pick(rng, &|e| is_i64_field(&e.1, &e.2) || U64_TAGS.contains(&e.1.as_str()) || e.1 == "EventID")
            .map(|p| set_text(at_mut(root, &p), "")),
        "int-out-of-range" => pick(rng, &|e| is_i64_field(&e.1, &e.2)).map(|p| {
            set_text(at_mut(root, &p), *rng.pick(&["0x10000000000000000", "0x1FFFFFFFFFFFFFFFF", "9223372036854775808", "-9223372036854775809", "0x-8000000000000001"]));
        }),
        "negative-in-u64" => pick(rng, &|e| U64_TAGS.contains(&e.1.as_str())).map(|p| {
            set_text(at_mut(root, &p), *rng.pick(&["-5", "-1", "-0x5"]));
        }),
        "order-swapped" => {
            // swap two adjacent element children with different tags inside some node
            let mut cands = vec![];
            for (p, _, _) in &all {
                if let X::E { children, .. } = at_mut(root, p) {
                    let idx: Vec<usize> = children.iter().enumerate().filter(|c| matches!(c.1, X::E { .. })).map(|c| c.0).collect();
                    for w in idx.windows(2) {
                        if children[w[0]].tag() != children[w[1]].tag() && !p.is_empty() {
                            cands.push((p.clone(), w[0], w[1]));
                        }
                    }
                }
            }
            if cands.is_empty() {
                None
            } else {
                let (p, i, j) = cands[rng.below(cands.len() as u64) as usize].clone();
                if let X::E { children, .. } = at_mut(root, &p) {
                    children.swap(i, j);
                }
                Some(())
            }
        }
        "duplicate-name" => {
            let c: Vec<Vec<usize>> = all.iter().filter(|e| NODE_TAGS.contains(&e.1.as_str()) && e.1 != "EnumEntry").map(|e| e.0.clone()).collect();
            if c.len() < 2 {
                None
            } else {
                let i = rng.below(c.len() as u64) as usize;
                let mut j = rng.below(c.len() as u64) as usize;
                if i == j {
                    j = (j + 1) % c.len();
                }
                let name = match at_mut(root, &c[i]) {
                    X::E { attrs, .. } => attr_of(attrs, "Name").unwrap_or("X").to_string(),
                    _ => "X".into(),
                };
                if let X::E { attrs, .. } = at_mut(root, &c[j]) {
                    for a in attrs.iter_mut() {
                        if a.0 == "Name" {
                            a.1 = name.clone();
                        }
                    }
                }
                Some(())
            }
        }
        "unknown-top-tag" => pick(rng, &|e| e.0.len() == 1).map(|p| {
            if let X::E { tag, .. } = at_mut(root, &p) {
                *tag = rng.pick(&["Foo", "Integr", "integer", "EnumEntry", "StructEntry"]).to_string();
            }
        }),
        "spaces-around-number" => pick(rng, &|e| is_i64_field(&e.1, &e.2) || U64_TAGS.contains(&e.1.as_str())).map(|p| {
            set_text(at_mut(root, &p), *rng.pick(&[" 5 ", "5 ", " 5", "\n5\n", " 0x10"]));
        }),
        "missing-name" => pick(rng, &|e| NODE_TAGS.contains(&e.1.as_str()) || matches!(e.1.as_str(), "pVariable" | "Constant" | "Expression")).map(|p| {
            if let X::E { attrs, .. } = at_mut(root, &p) {
                attrs.retain(|a| a.0 != "Name");
            }
        }),
        "bad-bool" => pick(rng, &|e| {
            matches!(e.1.as_str(), "Streamable" | "IsLinear" | "IsSelfClearing" | "SwapEndianess" | "CacheChunkData")
        })
        .map(|p| {
            set_text(at_mut(root, &p), *rng.pick(&["yes", "1", "TRUE", "0"]));
        }),
        "missing-root-attr" => {
            if let X::E { attrs, .. } = root {
                let k = *rng.pick(&["ModelName", "VendorName", "StandardNameSpace", "SchemaMajorVersion", "MinorVersion", "ProductGuid", "VersionGuid"]);
                attrs.retain(|a| a.0 != k);
            }
            Some(())
        }
        "bad-attr-literal" => {
            let which = rng.below(3);
            if which == 0 {
                if let X::E { attrs, .. } = root {
                    for a in attrs.iter_mut() {
                        if a.0 == "StandardNameSpace" {
                            a.1 = "XYZ".into();
                        }
                    }
                }
                Some(())
            } else {
                let key = if which == 1 { "NameSpace" } else { "MergePriority" };
                let c: Vec<Vec<usize>> = all.iter().filter(|e| NODE_TAGS.contains(&e.1.as_str())).map(|e| e.0.clone()).collect();
                if c.is_empty() {
                    None
                } else {
                    let p = c[rng.below(c.len() as u64) as usize].clone();
                    if let X::E { attrs, .. } = at_mut(root, &p) {
                        attrs.retain(|a| a.0 != key);
                        attrs.push((key.to_string(), if which == 1 { "Other".into() } else { "2".into() }));
                    }
                    Some(())
                }
            }
        }
        _ => None,
    };
    if done.is_some() {
        return want.to_string();
    }
    // The five DCAM (IIDC) element kinds of the schema are outside the 20 kinds the crate supports
    // (`todo!()` in the dispatch): pinned as a panic on both sides, listed as an assumption.
    let tag = *rng.pick(&["ConfRom", "TextDesc", "IntKey", "AdvFeatureLock", "SmartFeature"]);
    if let X::E { children, .. } = root {
        let pos = rng.below(children.len() as u64 + 1) as usize;
        children.insert(pos, xe(tag, vec![("Name".into(), "Dcam1".into())], vec![]));
    }
    "unsupported-dcam-kind".into()
}

// ---------------------------------------------------------------------------------------
// Driver
// ---------------------------------------------------------------------------------------

fn debug_print(req: &str, ans: &str, xml: &str) {
    if std::env::var("C17_DEBUG").is_ok() {
        eprintln!("XML: {xml}\nREQ: {}\nANS: {ans}\n", &req[..req.len().min(400)]);
    }
}

fn trunc(s: &str, n: usize) -> String {
    let mut e = s.len().min(n);
    while !s.is_char_boundary(e) {
        e -= 1;
    }
    s[..e].to_string()
}

fn pick_looks(rng: &mut Rng, declared: &[String], pool: &[String]) -> Vec<String> {
    let n = rng.below(7) as usize;
    let mut out = vec![];
    for _ in 0..n {
        match rng.below(10) {
            0..=5 if !declared.is_empty() => out.push(rng.pick(declared).clone()),
            6 | 7 => out.push(rng.pick(pool).clone()),
            8 => out.push("NeverMentioned_".to_string()),
            _ => out.push(format!("$Sym_{}", rng.below(3))),
        }
    }
    out
}

fn outcome_key(r: &Res) -> &'static str {
    match r {
        Res::Panic => "panic",
        Res::DumpPanic => "dump-panic",
        Res::Err => "err",
        Res::Ok(_) => "ok",
    }
}


/// Minimised documents of the defect classes seen so far (differential only; the random
/// stream carries the oracles for the same classes).
/// `char::is_alphabetic` against the model's transcription, exhaustively on the windows the
/// model claims to be exact on (answers are the alphabetic code points as ranges).
const ALPHA_WINDOWS: [(u32, u32); 4] = [(0, 0x52F), (0x3041, 0x30FF), (0x4E00, 0x9FFF), (0xAC00, 0xD7A3)];

fn alpha_sweep(rep: &mut Report) {
    for (lo, hi) in ALPHA_WINDOWS {
        let mut ranges: Vec<String> = vec![];
        let mut start: Option<u32> = None;
        for n in lo..=hi + 1 {
            let a = n <= hi && char::from_u32(n).map_or(false, char::is_alphabetic);
            match (a, start) {
                (true, None) => start = Some(n),
                (false, Some(s)) => {
                    ranges.push(format!("{}-{}", s, n - 1));
                    start = None;
                }
                _ => {}
            }
        }
        rep.count("alphabet-sweep:windows");
        rep.case(&format!("alpha {lo} {hi}"), false); // a table comparison, not a document
        rep.expect(format!("c17 alpha {lo} {hi}"), ranges.join(","));
    }
}

fn fixed_cases() -> Vec<(&'static str, X)> {
    let t = |tag: &str, text: &str| xe(tag, vec![], if text.is_empty() { vec![] } else { vec![X::T(text.into())] });
    let n = |tag: &str, name: &str, kids: Vec<X>| xe(tag, vec![("Name".to_string(), name.to_string())], kids);
    let rd = |kids: Vec<X>| {
        let a = [
            ("ModelName", "M"), ("VendorName", "V"), ("StandardNameSpace", "None"), ("SchemaMajorVersion", "1"),
            ("SchemaMinorVersion", "1"), ("SchemaSubMinorVersion", "0"), ("MajorVersion", "1"), ("MinorVersion", "0"),
            ("SubMinorVersion", "0"), ("ProductGuid", "p"), ("VersionGuid", "v"),
        ];
        xe("RegisterDescription", a.iter().map(|(k, v)| (k.to_string(), v.to_string())).collect(), kids)
    };
    vec![
        (
            "struct-entry-perror-pinvalidator",
            rd(vec![xe(
                "StructReg",
                vec![],
                vec![
                    t("pError", "E0"),
                    t("Address", "0x10"),
                    t("Length", "4"),
                    t("pPort", "Dev"),
                    t("pInvalidator", "I0"),
                    n("StructEntry", "A", vec![t("Bit", "0")]),
                    n("StructEntry", "B", vec![t("pError", "E1"), t("pInvalidator", "I1"), t("Bit", "1")]),
                ],
            )]),
        ),
        ("empty-tooltip", rd(vec![n("Node", "N", vec![t("ToolTip", "")])])),
        ("comment-only-tooltip", rd(vec![n("Node", "N", vec![xe("ToolTip", vec![], vec![X::C("secret".into())])])])),
        ("empty-string-value", rd(vec![n("String", "S", vec![t("Value", "")])])),
        ("no-nodes", rd(vec![])),
        (
            // Rust's f64 grammar beyond the schema's: the sign of a NaN is kept
            "numeric-value-negative-nan",
            rd(vec![n(
                "Enumeration",
                "N",
                vec![
                    n("EnumEntry", "Off", vec![t("Value", "0"), t("NumericValue", "-nan")]),
                    n("EnumEntry", "On", vec![t("Value", "1"), t("NumericValue", "+NaN")]),
                    n("EnumEntry", "Inf", vec![t("Value", "2"), t("NumericValue", "-infinity")]),
                    t("Value", "0"),
                ],
            )]),
        ),
        (
            // equal string (and integer / float) immediates: every node owns its cell
            "equal-immediates",
            rd(vec![
                xe(
                    "Group",
                    vec![("Comment".to_string(), "user strings".to_string())],
                    vec![
                        n("String", "A", vec![t("Value", "N/A")]),
                        n("Integer", "N", vec![t("Value", "3")]),
                        n("String", "B", vec![t("ToolTip", "free text"), t("Value", "N/A")]),
                    ],
                ),
                n("String", "E0", vec![t("Value", "")]),
                n("String", "zz", vec![t("Value", "")]),
                n("Integer", "Dev", vec![t("Value", "3"), t("Min", "3")]),
                n("Float", "F", vec![t("Value", "1.5"), t("Max", "1.5")]),
            ]),
        ),
        (
            // an entry's Extension with nested vendor elements named like schema elements
            "entry-extension-with-nested-schema-names",
            rd(vec![xe(
                "StructReg",
                vec![],
                vec![
                    t("Visibility", "Guru"),
                    t("IsDeprecated", "Yes"),
                    t("ImposedAccessMode", "RO"),
                    t("Streamable", "Yes"),
                    t("Length", "4"),
                    t("AccessMode", "RW"),
                    t("pPort", "Dev"),
                    t("Cachable", "NoCache"),
                    n(
                        "StructEntry",
                        "A",
                        vec![
                            xe(
                                "Extension",
                                vec![("xmlns:vnd".to_string(), "urn:vendor:gui-hints".to_string())],
                                vec![xe(
                                    "vnd:GuiHints",
                                    vec![],
                                    vec![
                                        t("vnd:Visibility", "Collapsed"),
                                        t("vnd:IsDeprecated", "No"),
                                        t("vnd:ImposedAccessMode", "RW"),
                                        t("vnd:AccessMode", "RW"),
                                        t("vnd:Cachable", "Never"),
                                        t("vnd:Streamable", "No"),
                                    ],
                                )],
                            ),
                            t("Bit", "0"),
                        ],
                    ),
                ],
            )]),
        ),
        (
            "explicit-default-entry",
            rd(vec![xe(
                "StructReg",
                vec![],
                vec![
                    t("Visibility", "Guru"),
                    t("Length", "4"),
                    t("AccessMode", "RW"),
                    t("pPort", "Dev"),
                    n("StructEntry", "A", vec![t("Visibility", "Beginner"), t("AccessMode", "RO"), t("Bit", "0")]),
                ],
            )]),
        ),
    ]
}

fn one_valid(rep: &mut Report, rng: &mut Rng, fpool: &[(String, Expr)], idx: u64) {
    // class
    let cls_roll = rng.below(100);
    let mut seed_rng = Rng(rng.next_u64());
    let (rd, items, pool, mut cls) = {
        let mut g = Gen::new(&mut seed_rng, rep, fpool);
        g.empty_mode = match cls_roll {
            0..=7 => 1,
            8..=10 => 2,
            _ => 0,
        };
        // an entry may declare any value explicitly, the default included (override semantics)
        g.explicit_default = true;
        let (rd, items) = g.gen_doc();
        let cls = if g.empty_mode == 1 && g.emptied > 0 {
            "empty-text"
        } else if g.empty_mode == 2 && g.emptied > 0 {
            "comment-only-text"
        } else if g.explicit_default_used {
            "explicit-default-override"
        } else {
            "valid"
        };
        (rd, items, g.pool.clone(), cls.to_string())
    };
    if cls == "valid" && has_struct(&items) {
        cls = "valid+struct".into();
    }
    rep.count(&format!("class:{cls}"));
    if has_group(&items) {
        rep.count("class:has-group");
    }
    if has_struct(&items) {
        rep.count("class:has-struct");
    }
    let mut exps = vec![];
    let mut exp_inval = vec![];
    collect_exps(&items, &mut exps, &mut exp_inval);
    let declared: Vec<String> = exps.iter().map(|e| e.name.clone()).collect();
    let looks = pick_looks(rng, &declared, &pool);

    let mut render_rng = Rng(rng.next_u64());
    let build = |rep: &mut Report, rr: &mut Rng, desugared: bool, flat: bool| -> (X, String) {
        let mut g = Gen::new(rr, rep, fpool);
        g.noise = *g.rng.pick(&[0u64, 0, 300, 700]);
        let x = g.doc_to_x(&rd, &items, desugared, flat);
        let xml = render_doc(&x, g.rng);
        (x, xml)
    };
    let (x, xml) = build(rep, &mut render_rng, false, false);
    let request = request_line(&x, &looks);
    let case = Case { cls: cls.clone(), variant: String::new(), xml: xml.clone(), request: request.clone(), looks: looks.clone(), exps, exp_inval, exp_rd: expected_rd(&rd) };
    let res = run_impl(&xml, &looks, &case.probes(), fpool);
    let nontrivial = matches!(&res, Res::Ok(o) if !o.nodes.is_empty());
    rep.case(&format!("{:x}", fnv_bytes(FNV_INIT, xml.as_bytes())), nontrivial);
    rep.count(&format!("outcome:{}:{}", cls, outcome_key(&res)));
    oracle_retrievable(rep, &case, &res);
    let ans = res.answer();
    debug_print(&request, &ans, &xml);
    if idx % 97 == 3 {
        rep.sample(json!({"class": cls, "request": trunc(&request, 300), "impl": trunc(&ans, 300)}));
    }
    rep.expect(request.clone(), ans);

    // (b) struct-desugar twin
    if has_struct(&items) {
        if has_struct_isk(&items) {
            rep.count("twin:struct-skipped(embedded IntSwissKnife address)");
        } else {
            rep.count("twin:struct-desugar");
            let (tx, txml) = build(rep, &mut render_rng, true, false);
            let treq = request_line(&tx, &looks);
            let tcase = Case {
                cls: cls.clone(),
                variant: "struct-twin".into(),
                xml: txml.clone(),
                request: treq.clone(),
                looks: looks.clone(),
                exps: case.exps.iter().map(|e| Exp { meta: None, ..e.clone() }).collect(),
                exp_inval: case.exp_inval.clone(),
                exp_rd: case.exp_rd.clone(),
            };
            let tres = run_impl(&txml, &looks, &tcase.probes(), fpool);
            rep.case(&format!("{:x}", fnv_bytes(FNV_INIT, txml.as_bytes())), matches!(&tres, Res::Ok(o) if !o.nodes.is_empty()));
            rep.count(&format!("outcome:{cls}/struct-twin:{}", outcome_key(&tres)));
            oracle_retrievable(rep, &tcase, &tres);
            let mut metas = BTreeMap::new();
            for e in &case.exps {
                if let Some(m) = &e.meta {
                    metas.insert(e.name.clone(), m.clone());
                }
            }
            let tw = Twin { oracle: "struct-desugar".into(), xml: xml.clone(), twin: txml.clone(), looks: looks.clone(), request: request.clone(), twin_request: treq.clone(), metas };
            oracle_twin(rep, &tw, &res, &tres);
            rep.expect(treq, tres.answer());
        }
    }
    // (c) group-flat twin
    if has_group(&items) {
        rep.count("twin:group-flat");
        let (tx, txml) = build(rep, &mut render_rng, false, true);
        let treq = request_line(&tx, &looks);
        let tres = run_impl(&txml, &looks, &case.probes(), fpool);
        rep.case(&format!("{:x}", fnv_bytes(FNV_INIT, txml.as_bytes())), matches!(&tres, Res::Ok(o) if !o.nodes.is_empty()));
        rep.count(&format!("outcome:{cls}/group-twin:{}", outcome_key(&tres)));
        let tw = Twin { oracle: "group-flat".into(), xml: xml.clone(), twin: txml.clone(), looks: looks.clone(), request, twin_request: treq.clone(), metas: BTreeMap::new() };
        oracle_twin(rep, &tw, &res, &tres);
        rep.expect(treq, tres.answer());
    }
}

fn one_malformed(rep: &mut Report, rng: &mut Rng, fpool: &[(String, Expr)], idx: u64) {
    let mut seed_rng = Rng(rng.next_u64());
    let (mut x, pool) = {
        let mut g = Gen::new(&mut seed_rng, rep, fpool);
        let (rd, items) = g.gen_doc();
        let x = g.doc_to_x(&rd, &items, false, false);
        (x, g.pool.clone())
    };
    let want = MUTATIONS[(idx % MUTATIONS.len() as u64) as usize];
    let applied = mutate(&mut x, want, rng);
    rep.count(&format!("malformed:{applied}"));
    let looks = pick_looks(rng, &pool[..4], &pool);
    let xml = render_doc(&x, rng);
    let request = request_line(&x, &looks);
    let res = run_impl(&xml, &looks, &[], fpool);
    rep.case(&format!("{:x}", fnv_bytes(FNV_INIT, xml.as_bytes())), matches!(&res, Res::Ok(o) if !o.nodes.is_empty()));
    rep.count(&format!("outcome:malformed:{applied}:{}", outcome_key(&res)));
    let ans = res.answer();
    debug_print(&request, &ans, &xml);
    if idx % 53 == 1 {
        rep.sample(json!({"class": format!("malformed:{applied}"), "request": trunc(&request, 300), "impl": trunc(&ans, 300)}));
    }
    rep.expect(request, ans);
}

fn main() {
    let args = parse_args();
    let mut rep = Report::new(
        "C17",
        "random schema-ordered GenApi documents (quick: 400 independent ones, thorough: 4000; 2-12 top-level items over all 20 element kinds incl. Group/StructReg, every optional element/attribute independently present or absent, all literal forms, whitespace/comment/PI noise, namespaces) plus their struct-desugar and group-flat twin documents, 9 fixed documents and a separate malformed stream of 16 classes (quick 150, thorough 1500); the 4 alphabet-table comparisons are evaluations but not documents; a case is non-trivial when GenApiBuilder::build succeeds and stores at least one node; distinct by hash of the XML text",
    );
    let mut rng = Rng::new(args.seed);
    let fpool = formula_pool();
    rep.extra.insert("formula_pool".into(), json!(fpool.iter().map(|p| p.0.clone()).collect::<Vec<_>>()));
    rep.extra.insert("float_pool".into(), json!(FLOATS));

    if let Some(path) = &args.replay {
        let v: Value = serde_json::from_str(&std::fs::read_to_string(path).unwrap()).unwrap();
        let r = &v["replay"];
        match r["oracle"].as_str().unwrap_or("") {
            "retrievable" => {
                let case = Case::from_replay(r);
                let res = run_impl(&case.xml, &case.looks, &case.probes(), &fpool);
                rep.case(&case.xml, matches!(&res, Res::Ok(o) if !o.nodes.is_empty()));
                oracle_retrievable(&mut rep, &case, &res);
                debug_print(&case.request, &res.answer(), &case.xml);
                rep.expect(case.request.clone(), res.answer());
            }
            "struct-desugar" | "group-flat" => {
                let tw = Twin::from_replay(r);
                let res = run_impl(&tw.xml, &tw.looks, &[], &fpool);
                let tres = run_impl(&tw.twin, &tw.looks, &[], &fpool);
                rep.case(&tw.xml, matches!(&res, Res::Ok(o) if !o.nodes.is_empty()));
                rep.case(&tw.twin, matches!(&tres, Res::Ok(o) if !o.nodes.is_empty()));
                oracle_twin(&mut rep, &tw, &res, &tres);
                debug_print(&tw.request, &res.answer(), &tw.xml);
                debug_print(&tw.twin_request, &tres.answer(), &tw.twin);
                rep.expect(tw.request.clone(), res.answer());
                rep.expect(tw.twin_request.clone(), tres.answer());
            }
            _ => {
                // plain {"xml", "request", "looks"}
                let xml = r["xml"].as_str().unwrap_or("").to_string();
                let looks: Vec<String> =
                    r["looks"].as_array().map_or(vec![], |a| a.iter().map(|s| s.as_str().unwrap_or("").to_string()).collect());
                let res = run_impl(&xml, &looks, &[], &fpool);
                rep.case(&xml, matches!(&res, Res::Ok(o) if !o.nodes.is_empty()));
                debug_print(r["request"].as_str().unwrap_or(""), &res.answer(), &xml);
                if let Res::Ok(o) = &res {
                    for (sig, what) in &o.beh {
                        viol(&mut rep, sig.clone(), what, r.clone());
                    }
                }
                if let Some(req) = r["request"].as_str() {
                    rep.expect(req.to_string(), res.answer());
                }
            }
        }
        rep.write(&args);
        return;
    }

    alpha_sweep(&mut rep);
    for (name, x) in fixed_cases() {
        let looks = vec!["A".to_string(), "B".to_string(), "N".to_string(), "Dev".to_string(), "E0".to_string(), "zz".to_string()];
        let xml = render_doc(&x, &mut rng);
        let request = request_line(&x, &looks);
        let res = run_impl(&xml, &looks, &[], &fpool);
        rep.case(&format!("{:x}", fnv_bytes(FNV_INIT, xml.as_bytes())), matches!(&res, Res::Ok(o) if !o.nodes.is_empty()));
        rep.count(&format!("fixed:{name}:{}", outcome_key(&res)));
        debug_print(&request, &res.answer(), &xml);
        if let Res::Ok(o) = &res {
            for (sig, what) in &o.beh {
                let mut sig = sig.clone();
                sig["fixed_case"] = json!(name);
                viol(&mut rep, sig, what, json!({"oracle": "", "xml": xml, "request": request, "looks": looks}));
            }
        }
        rep.expect(request, res.answer());
    }
    let (n_valid, n_mal) = if args.thorough() { (4000u64, 1500u64) } else { (400, 150) };
    for i in 0..n_valid {
        one_valid(&mut rep, &mut rng, &fpool, i);
    }
    for i in 0..n_mal {
        one_malformed(&mut rep, &mut rng, &fpool, i);
    }
    rep.write(&args);
}
