//! C03 — feature evaluation follows GenApi dataflow semantics.
//! Real `cameleon_genapi` nodes (built by `GenApiBuilder::no_cache()` from generated XML)
//! vs the Lean interpreter `CamVerif.GenApi.exec`, per operation (value / error class) and
//! at the end of every history (device image + access log); plus dataflow oracles
//! (pValueCopy fan-out, pIndex selection, enum-only-declared, address-is-sum) evaluated on
//! the implementation.  See `genapi_common/mod.rs`.
mod genapi_common;
use genapi_common::*;

fn main() {
    run(Mode { property: "C03", spec: false, cfg: GenCfg { access_bias: false } });
}
