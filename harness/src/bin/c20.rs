//! C20 — emulated register memory (`#[memory]` / `#[register_map]` of cameleon-impl).
//! A generated family of register maps (src/c20_maps.rs, declared with the REAL macros) is
//! exercised through the public traits; every call is (a) judged by a property oracle that
//! keeps its own shadow state (rights per byte, raw image, observers) and (b) diffed against
//! the Lean model (`CamVerif.Model.Memory`) through the stateful driver `drv_c20`.

use camharness::*;
use cameleon_impl::memory::{prelude::*, AccessRight, MemoryError, MemoryObserver, MemoryProtection};
use std::ops::Range;
use std::sync::{Arc, Mutex};

// ---------------------------------------------------------------- values

#[derive(Clone, Debug, PartialEq)]
pub enum Val {
    Word(u64),
    Str(Vec<u8>),
    Bytes(Vec<u8>),
}

impl Val {
    fn show(&self) -> String {
        match self {
            Val::Word(w) => format!("w:{w}"),
            Val::Str(b) => format!("s:{}", hex(b)),
            Val::Bytes(b) => format!("b:{}", hex(b)),
        }
    }
    fn parse(s: &str) -> Val {
        let (k, v) = s.split_at(2);
        match k {
            "w:" => Val::Word(v.parse().unwrap()),
            "s:" => Val::Str(unhex(v)),
            _ => Val::Bytes(unhex(v)),
        }
    }
}

pub trait ValConv: Sized {
    fn to_val(&self) -> Val;
    fn from_val(v: &Val) -> Option<Self>;
}
macro_rules! conv_uint { ($($t:ty),*) => {$(
    impl ValConv for $t {
        fn to_val(&self) -> Val { Val::Word(*self as u64) }
        fn from_val(v: &Val) -> Option<Self> { if let Val::Word(w) = v { Some(*w as $t) } else { None } }
    })*};
}
macro_rules! conv_sint { ($($t:ty => $u:ty),*) => {$(
    impl ValConv for $t {
        fn to_val(&self) -> Val { Val::Word(*self as $u as u64) }
        fn from_val(v: &Val) -> Option<Self> { if let Val::Word(w) = v { Some(*w as $u as $t) } else { None } }
    })*};
}
conv_uint!(u8, u16, u32, u64);
conv_sint!(i8 => u8, i16 => u16, i32 => u32, i64 => u64);
impl ValConv for f32 {
    fn to_val(&self) -> Val { Val::Word(self.to_bits() as u64) }
    fn from_val(v: &Val) -> Option<Self> { if let Val::Word(w) = v { Some(f32::from_bits(*w as u32)) } else { None } }
}
impl ValConv for f64 {
    fn to_val(&self) -> Val { Val::Word(self.to_bits()) }
    fn from_val(v: &Val) -> Option<Self> { if let Val::Word(w) = v { Some(f64::from_bits(*w)) } else { None } }
}
impl ValConv for String {
    fn to_val(&self) -> Val { Val::Str(self.as_bytes().to_vec()) }
    fn from_val(v: &Val) -> Option<Self> { if let Val::Str(b) = v { String::from_utf8(b.clone()).ok() } else { None } }
}
impl ValConv for Vec<u8> {
    fn to_val(&self) -> Val { Val::Bytes(self.clone()) }
    fn from_val(v: &Val) -> Option<Self> { if let Val::Bytes(b) = v { Some(b.clone()) } else { None } }
}

// ---------------------------------------------------------------- type-erased access to the generated types

#[derive(Clone)]
pub struct Obs(pub Arc<Mutex<Vec<usize>>>, pub usize);
impl MemoryObserver for Obs {
    fn update(&self) {
        self.0.lock().unwrap().push(self.1);
    }
}

pub enum Op<'a> {
    Read,
    Write(&'a Val),
    Access,
    SetAccess(AccessRight),
    Observe(Obs),
    Parse(&'a [u8]),
    Serialize(&'a Val),
}

pub enum Out {
    Val(Result<Val, MemoryError>),
    Unit(Result<(), MemoryError>),
    Right(AccessRight),
    Bytes(Result<Vec<u8>, MemoryError>),
    None,
    BadVal,
}

pub fn reg_op<M, T>(m: &mut M, op: Op) -> Out
where
    M: MemoryRead + MemoryWrite,
    T: cameleon_impl::memory::Register,
    T::Ty: ValConv,
{
    match op {
        Op::Read => Out::Val(m.read::<T>().map(|v| v.to_val())),
        Op::Write(v) => match <T::Ty as ValConv>::from_val(v) {
            Some(x) => Out::Unit(m.write::<T>(x)),
            None => Out::BadVal,
        },
        Op::Access => Out::Right(m.access_right::<T>()),
        Op::SetAccess(r) => {
            m.set_access_right::<T>(r);
            Out::None
        }
        Op::Observe(o) => {
            m.register_observer::<T, Obs>(o);
            Out::None
        }
        Op::Parse(d) => Out::Val(T::parse(d).map(|v| v.to_val())),
        Op::Serialize(v) => match <T::Ty as ValConv>::from_val(v) {
            Some(x) => Out::Bytes(T::serialize(x)),
            None => Out::BadVal,
        },
    }
}

pub type SweepCb<'a> = dyn FnMut(u64, &Result<(), MemoryError>, &Result<Val, MemoryError>, &[u8]) + 'a;

/// For every bit pattern `lo, lo+step, .. <= hi`: restore the image, typed write, typed read.
pub fn sweep<M, T>(m: &mut M, lo: u64, hi: u64, step: u64, cb: &mut SweepCb)
where
    M: MemoryRead + MemoryWrite + DynMem,
    T: cameleon_impl::memory::Register,
    T::Ty: ValConv,
{
    let saved = m.raw().to_vec();
    let mut v = lo;
    loop {
        if let Some(x) = <T::Ty as ValConv>::from_val(&Val::Word(v)) {
            m.raw_mut().copy_from_slice(&saved);
            let w = m.write::<T>(x);
            let r = m.read::<T>().map(|v| v.to_val());
            cb(v, &w, &r, m.raw());
        }
        if hi - v < step {
            break;
        }
        v += step;
    }
    m.raw_mut().copy_from_slice(&saved);
}

pub trait DynMem {
    fn reg_op(&mut self, reg: usize, op: Op) -> Out;
    fn sweep(&mut self, reg: usize, lo: u64, hi: u64, step: u64, cb: &mut SweepCb);
    fn read_raw_v(&self, r: Range<usize>) -> Result<Vec<u8>, MemoryError>;
    fn write_raw_v(&mut self, a: usize, b: &[u8]) -> Result<(), MemoryError>;
    fn raw(&self) -> &[u8];
    fn raw_mut(&mut self) -> &mut [u8];
    fn prot(&self) -> &MemoryProtection;
    fn n_observers(&self) -> usize;
}

macro_rules! dyn_mem {
    ($mem:ident, $name:expr, [$($map:ident :: $reg:ident),* $(,)?]) => {
        impl DynMem for $mem {
            fn reg_op(&mut self, reg: usize, op: Op) -> Out {
                let table: &[fn(&mut $mem, Op) -> Out] = &[$(reg_op::<$mem, $map::$reg>),*];
                table[reg](self, op)
            }
            fn sweep(&mut self, reg: usize, lo: u64, hi: u64, step: u64, cb: &mut SweepCb) {
                let table: &[fn(&mut $mem, u64, u64, u64, &mut SweepCb)] = &[$(sweep::<$mem, $map::$reg>),*];
                table[reg](self, lo, hi, step, cb)
            }
            fn read_raw_v(&self, r: std::ops::Range<usize>) -> Result<Vec<u8>, MemoryError> {
                self.read_raw(r).map(|s| s.to_vec())
            }
            fn write_raw_v(&mut self, a: usize, b: &[u8]) -> Result<(), MemoryError> {
                self.write_raw(a, b)
            }
            fn raw(&self) -> &[u8] { &self.raw }
            fn raw_mut(&mut self) -> &mut [u8] { &mut self.raw }
            fn prot(&self) -> &MemoryProtection { &self.protection }
            fn n_observers(&self) -> usize { self.observers.len() }
        }
    };
}

pub struct RegDesc {
    pub name: &'static str,
    pub kind: &'static str,
    pub len: usize,
    pub offset: Option<usize>,
    pub access: &'static str,
    pub init: Option<&'static str>,
    pub address: usize,
    pub length: usize,
    pub access_const: AccessRight,
    pub lsb_msb: Option<(usize, usize)>,
}
pub struct MapDesc {
    pub name: &'static str,
    pub base: usize,
    pub endian: &'static str,
    pub base_fn: usize,
    pub size_fn: usize,
    pub regs: &'static [RegDesc],
}
pub struct MemDesc {
    pub name: &'static str,
    pub maps: &'static [&'static str],
    pub new: fn() -> Box<dyn DynMem>,
}

#[path = "../c20_maps.rs"]
mod maps;
/// outer family + the gentl-style declarations of `mod inner`
fn all_maps() -> Vec<&'static MapDesc> {
    maps::MAPS.iter().chain(maps::inner::MAPS_INNER.iter()).collect()
}
fn all_mems() -> Vec<&'static MemDesc> {
    maps::MEMS.iter().chain(maps::inner::MEMS_INNER.iter()).collect()
}

include!("../c20_body.rs");
include!("../c20_main.rs");
