//! C05 — `genapi/src/formula.rs`: lexer, parser, `Expr::eval`.
//!
//! * generates expression trees (all operators, functions, constants, literal forms,
//!   variables) and renders them with minimal / full / random parenthesisation, whitespace
//!   and XML-entity variants;
//! * runs the REAL `formula::parse` + `Expr::eval` under `catch`;
//! * property oracle on the implementation: an independent reference parser (precedence
//!   climbing from the standard's operator table) and an independent reference evaluator
//!   (i128 arithmetic truncated to 64 bits, lazy `&& || ?:`);
//! * differential against the Lean model (`CamVerif.Model.Formula` through `drv_c05`):
//!   tree dump, integer value / float bit pattern / error class / panic.

use camharness::*;
use cameleon_genapi::formula::{self, BinOpKind, EvaluationResult, Expr, UnOpKind};
use cameleon_genapi::builder::GenApiBuilder;
use cameleon_genapi::store::{DefaultNodeStore, NodeData};
use cameleon_genapi::interface::{IFloat, IInteger};
use cameleon_genapi::{GenApiError, NodeStore};
use std::collections::HashMap;

// ---------------------------------------------------------------------------------------
// Abstract syntax of the generator / reference side
// ---------------------------------------------------------------------------------------

#[derive(Clone, Copy, Debug, PartialEq, Eq)]
enum B {
    Add, Sub, Mul, Div, Rem, Pow, Shl, Shr, And, Or, Eq, Ne, Lt, Le, Gt, Ge, BitAnd, BitOr, Xor,
}
const ALL_B: [B; 19] = [
    B::Add, B::Sub, B::Mul, B::Div, B::Rem, B::Pow, B::Shl, B::Shr, B::And, B::Or, B::Eq, B::Ne, B::Lt,
    B::Le, B::Gt, B::Ge, B::BitAnd, B::BitOr, B::Xor,
];

#[derive(Clone, Copy, Debug, PartialEq, Eq)]
enum U {
    Not, Abs, Sgn, Neg, Sin, Cos, Tan, Asin, Acos, Atan, Exp, Ln, Lg, Sqrt, Trunc, Floor, Ceil, Round,
}
const ALL_U: [U; 18] = [
    U::Not, U::Abs, U::Sgn, U::Neg, U::Sin, U::Cos, U::Tan, U::Asin, U::Acos, U::Atan, U::Exp, U::Ln, U::Lg,
    U::Sqrt, U::Trunc, U::Floor, U::Ceil, U::Round,
];

/// The standard's table: (symbol, operator, precedence).  Larger binds tighter.
/// 0 ternary (right) < 1 `||` < 2 `&&` < 3 `|` < 4 `^` < 5 `&` < 6 `= <>` < 7 relational <
/// 8 shifts < 9 `+ -` < 10 `* / %` < 11 unary < 12 `**` (right) < 13 primary.
const TABLE: [(&str, B, u8); 19] = [
    ("||", B::Or, 1), ("&&", B::And, 2), ("|", B::BitOr, 3), ("^", B::Xor, 4), ("&", B::BitAnd, 5),
    ("=", B::Eq, 6), ("<>", B::Ne, 6), ("<", B::Lt, 7), ("<=", B::Le, 7), (">", B::Gt, 7), (">=", B::Ge, 7),
    ("<<", B::Shl, 8), (">>", B::Shr, 8), ("+", B::Add, 9), ("-", B::Sub, 9), ("*", B::Mul, 10),
    ("/", B::Div, 10), ("%", B::Rem, 10), ("**", B::Pow, 12),
];
const P_UNARY: u8 = 11;
const P_POW: u8 = 12;
const P_PRIMARY: u8 = 13;

fn b_sym(op: B) -> &'static str {
    TABLE.iter().find(|t| t.1 == op).unwrap().0
}
fn b_prec(op: B) -> u8 {
    TABLE.iter().find(|t| t.1 == op).unwrap().2
}
fn u_func(op: U) -> Option<&'static str> {
    Some(match op {
        U::Not => return None,
        U::Abs => "ABS", U::Sgn => "SGN", U::Neg => "NEG", U::Sin => "SIN", U::Cos => "COS", U::Tan => "TAN",
        U::Asin => "ASIN", U::Acos => "ACOS", U::Atan => "ATAN", U::Exp => "EXP", U::Ln => "LN", U::Lg => "LG",
        U::Sqrt => "SQRT", U::Trunc => "TRUNC", U::Floor => "FLOOR", U::Ceil => "CEIL", U::Round => "ROUND",
    })
}
/// operations whose result depends on the host libm (compared within a tolerance)
fn u_is_libm(op: U) -> bool {
    matches!(op, U::Sin | U::Cos | U::Tan | U::Asin | U::Acos | U::Atan | U::Exp | U::Ln | U::Lg)
}

#[derive(Clone, Debug, PartialEq)]
enum T {
    Bin(B, Box<T>, Box<T>),
    /// bool: written as a function call (`NEG(x)`) instead of prefix `-x` (only for Neg)
    Un(U, bool, Box<T>),
    If(Box<T>, Box<T>, Box<T>),
    /// literal text of a non-negative integer, decimal or 0x-hex
    Int(String),
    /// literal text of a float (`1.5`, `.5`, `1.`)
    Float(String),
    /// `PI`, `E`
    Const(&'static str),
    Ident(String),
}

fn int_lit_value(s: &str) -> i64 {
    if let Some(h) = s.strip_prefix("0x").or_else(|| s.strip_prefix("0X")) {
        // a hexadecimal literal denotes a 64 bit pattern
        u64::from_str_radix(h, 16).unwrap() as i64
    } else {
        s.parse().unwrap()
    }
}

fn fbits(f: f64) -> String {
    if f.is_nan() {
        "nan".into()
    } else {
        format!("{:016x}", f.to_bits())
    }
}

fn dump_t(t: &T) -> String {
    match t {
        T::Bin(op, l, r) => format!("({:?} {} {})", op, dump_t(l), dump_t(r)),
        T::Un(op, _, x) => format!("({:?} {})", op, dump_t(x)),
        T::If(c, a, b) => format!("(If {} {} {})", dump_t(c), dump_t(a), dump_t(b)),
        T::Int(s) => format!("i{}", int_lit_value(s)),
        T::Float(s) => format!("f{}", fbits(s.parse::<f64>().unwrap())),
        T::Const("PI") => format!("f{}", fbits(std::f64::consts::PI)),
        T::Const(_) => format!("f{}", fbits(std::f64::consts::E)),
        T::Ident(s) => format!("v{s}"),
    }
}

fn dump_expr(e: &Expr) -> String {
    match e {
        Expr::BinOp { kind, lhs, rhs } => format!("({:?} {} {})", kind, dump_expr(lhs), dump_expr(rhs)),
        Expr::UnOp { kind, expr } => format!("({:?} {})", kind, dump_expr(expr)),
        Expr::If { cond, then, else_ } => format!("(If {} {} {})", dump_expr(cond), dump_expr(then), dump_expr(else_)),
        Expr::Integer(i) => format!("i{i}"),
        Expr::Float(f) => format!("f{}", fbits(*f)),
        Expr::Ident(s) => format!("v{s}"),
    }
}
// the Debug names of the repo's enums are the names used in the dump: make sure they agree
fn _names_agree() {
    let _ = (BinOpKind::BitAnd, UnOpKind::Lg);
}

fn depth(t: &T) -> usize {
    match t {
        T::Bin(_, l, r) => 1 + depth(l).max(depth(r)),
        T::Un(_, _, x) => 1 + depth(x),
        T::If(c, a, b) => 1 + depth(c).max(depth(a)).max(depth(b)),
        _ => 0,
    }
}
fn uses_libm(t: &T) -> bool {
    match t {
        T::Bin(op, l, r) => *op == B::Pow || uses_libm(l) || uses_libm(r),
        T::Un(op, _, x) => u_is_libm(*op) || uses_libm(x),
        T::If(c, a, b) => uses_libm(c) || uses_libm(a) || uses_libm(b),
        _ => false,
    }
}

// ---------------------------------------------------------------------------------------
// Rendering (token lists), per the standard's table
// ---------------------------------------------------------------------------------------

#[derive(Clone, Copy, PartialEq, Debug)]
enum Paren {
    Min,
    Full,
    Random,
}

fn render(t: &T, ctx: u8, mode: Paren, rng: &mut Rng, out: &mut Vec<String>) {
    let own = match t {
        T::Bin(op, _, _) => b_prec(*op),
        T::Un(U::Not, _, _) | T::Un(U::Neg, false, _) => P_UNARY,
        T::If(..) => 0,
        _ => P_PRIMARY,
    };
    let leaf = own == P_PRIMARY && !matches!(t, T::Un(..));
    let paren = own < ctx
        || match mode {
            Paren::Min => false,
            Paren::Full => !leaf,
            Paren::Random => rng.chance(1, 5),
        };
    // a unary plus is transparent wherever a unary expression may start
    if mode == Paren::Random && ctx <= P_UNARY && own >= P_UNARY && rng.chance(1, 8) {
        out.push("+".into());
    }
    if paren {
        out.push("(".into());
    }
    match t {
        T::Bin(op, l, r) => {
            let p = b_prec(*op);
            let (lc, rc) = if *op == B::Pow { (P_PRIMARY, P_UNARY) } else { (p, p + 1) };
            render(l, lc, mode, rng, out);
            out.push(b_sym(*op).into());
            render(r, rc, mode, rng, out);
        }
        T::Un(U::Not, _, x) => {
            out.push("~".into());
            render(x, P_UNARY, mode, rng, out);
        }
        T::Un(U::Neg, false, x) => {
            out.push("-".into());
            render(x, P_UNARY, mode, rng, out);
        }
        T::Un(op, _, x) => {
            out.push(u_func(*op).unwrap().into());
            out.push("(".into());
            render(x, 0, mode, rng, out);
            out.push(")".into());
        }
        T::If(c, a, b) => {
            render(c, 1, mode, rng, out);
            out.push("?".into());
            render(a, 0, mode, rng, out);
            out.push(":".into());
            render(b, 0, mode, rng, out);
        }
        T::Int(s) | T::Float(s) | T::Ident(s) => out.push(s.clone()),
        T::Const(s) => out.push((*s).into()),
    }
    if paren {
        out.push(")".into());
    }
}

#[derive(Clone, Copy, PartialEq, Debug)]
enum Ws {
    None,
    One,
    Random,
    /// random, but only characters that may occur in XML character data
    Xml,
}
#[derive(Clone, Copy, PartialEq, Debug)]
enum Ent {
    Never,
    Always,
    Random,
}

fn join(tokens: &[String], ws: Ws, ent: Ent, rng: &mut Rng) -> String {
    const GAPS: [&str; 12] = ["", " ", "  ", "\t", "\n", "\r\n", " \t ", "\x0b", "\x0c", "\x01", "\x1f", "\x7f"];
    let mut s = String::new();
    let gap = |rng: &mut Rng| -> &'static str {
        match ws {
            Ws::None => "",
            Ws::One => " ",
            Ws::Random => *rng.pick(&GAPS),
            Ws::Xml => *rng.pick(&GAPS[..7]),
        }
    };
    s.push_str(if ws == Ws::Random || ws == Ws::Xml { gap(rng) } else { "" });
    for (i, t) in tokens.iter().enumerate() {
        if i > 0 {
            s.push_str(gap(rng));
        }
        for c in t.chars() {
            let esc = match ent {
                Ent::Never => false,
                Ent::Always => true,
                Ent::Random => rng.bool(),
            };
            match (c, esc) {
                ('&', true) => s.push_str("&amp;"),
                ('<', true) => s.push_str("&lt;"),
                ('>', true) => s.push_str("&gt;"),
                (c, _) => s.push(c),
            }
        }
    }
    s.push_str(if ws == Ws::Random || ws == Ws::Xml { gap(rng) } else { "" });
    s
}

// ---------------------------------------------------------------------------------------
// Reference parser: precedence climbing from TABLE (independent of the ladder in the code)
// ---------------------------------------------------------------------------------------

#[derive(Clone, Debug, PartialEq)]
enum RTok {
    Op(&'static str),
    Num(String),
    Name(String),
}

fn ref_lex(src: &str) -> Result<Vec<RTok>, String> {
    // decode entities in one left-to-right pass
    let mut chars: Vec<char> = vec![];
    let b: Vec<char> = src.chars().collect();
    let mut i = 0;
    let starts = |i: usize, p: &str| b[i..].iter().take(p.len()).collect::<String>() == p;
    while i < b.len() {
        if starts(i, "&amp;") {
            chars.push('&');
            i += 5;
        } else if starts(i, "&lt;") {
            chars.push('<');
            i += 4;
        } else if starts(i, "&gt;") {
            chars.push('>');
            i += 4;
        } else {
            chars.push(b[i]);
            i += 1;
        }
    }
    const OPS: [&str; 24] = [
        "**", "&&", "||", "<>", "<=", ">=", "<<", ">>", "(", ")", "+", "-", "*", "/", "%", "&", "|", "^", "~", "=",
        ":", "?", "<", ">",
    ];
    let mut out = vec![];
    let mut i = 0;
    'outer: while i < chars.len() {
        let c = chars[i];
        if c.is_ascii_whitespace() || c.is_ascii_control() {
            i += 1;
            continue;
        }
        for op in OPS {
            if chars[i..].iter().take(op.len()).collect::<String>() == op {
                out.push(RTok::Op(op));
                i += op.len();
                continue 'outer;
            }
        }
        if c.is_ascii_alphabetic() {
            let st = i;
            while i < chars.len() && (chars[i].is_ascii_alphanumeric() || chars[i] == '.' || chars[i] == '_') {
                i += 1;
            }
            out.push(RTok::Name(chars[st..i].iter().collect()));
        } else if c.is_ascii_digit() || c == '.' {
            let st = i;
            if c == '0' && matches!(chars.get(i + 1), Some('x') | Some('X')) {
                i += 2;
                while i < chars.len() && chars[i].is_ascii_hexdigit() {
                    i += 1;
                }
            } else {
                // digits [. digits] | . digits, then an optional exponent e[+-]digits
                while i < chars.len() && chars[i].is_ascii_digit() {
                    i += 1;
                }
                if chars.get(i) == Some(&'.') {
                    i += 1;
                    while i < chars.len() && chars[i].is_ascii_digit() {
                        i += 1;
                    }
                }
                if matches!(chars.get(i), Some('e') | Some('E')) {
                    let mut j = i + 1;
                    if matches!(chars.get(j), Some('+') | Some('-')) {
                        j += 1;
                    }
                    if chars.get(j).map_or(false, |c| c.is_ascii_digit()) {
                        while j < chars.len() && chars[j].is_ascii_digit() {
                            j += 1;
                        }
                        i = j;
                    }
                }
            }
            out.push(RTok::Num(chars[st..i].iter().collect()));
        } else {
            return Err(format!("unexpected character {c:?}"));
        }
    }
    Ok(out)
}

struct RefParser {
    t: Vec<RTok>,
    i: usize,
}
impl RefParser {
    fn peek_op(&self) -> Option<&'static str> {
        match self.t.get(self.i) {
            Some(RTok::Op(o)) => Some(o),
            _ => None,
        }
    }
    fn eat(&mut self, o: &str) -> bool {
        if self.peek_op() == Some(o) {
            self.i += 1;
            true
        } else {
            false
        }
    }
    fn ternary(&mut self) -> Result<T, String> {
        let c = self.binary(1)?;
        if self.eat("?") {
            let a = self.ternary()?;
            if !self.eat(":") {
                return Err("expected ':'".into());
            }
            let b = self.ternary()?;
            Ok(T::If(c.into(), a.into(), b.into()))
        } else {
            Ok(c)
        }
    }
    /// precedence climbing over the left-associative binary levels 1..=10
    fn binary(&mut self, min: u8) -> Result<T, String> {
        let mut lhs = self.unary()?;
        loop {
            let Some(o) = self.peek_op() else { break };
            let Some(&(_, op, p)) = TABLE.iter().find(|t| t.0 == o && t.2 <= 10) else { break };
            if p < min {
                break;
            }
            self.i += 1;
            let rhs = self.binary(p + 1)?;
            lhs = T::Bin(op, lhs.into(), rhs.into());
        }
        Ok(lhs)
    }
    fn unary(&mut self) -> Result<T, String> {
        if self.eat("-") {
            Ok(T::Un(U::Neg, false, self.unary()?.into()))
        } else if self.eat("~") {
            Ok(T::Un(U::Not, false, self.unary()?.into()))
        } else if self.eat("+") {
            self.unary()
        } else {
            self.power()
        }
    }
    fn power(&mut self) -> Result<T, String> {
        let base = self.primary()?;
        if self.eat("**") {
            // right associative; a sign is allowed on the exponent
            Ok(T::Bin(B::Pow, base.into(), self.unary()?.into()))
        } else {
            Ok(base)
        }
    }
    fn primary(&mut self) -> Result<T, String> {
        if self.eat("(") {
            let e = self.ternary()?;
            if !self.eat(")") {
                return Err("expected ')'".into());
            }
            return Ok(e);
        }
        match self.t.get(self.i).cloned() {
            Some(RTok::Num(s)) => {
                self.i += 1;
                if let Some(h) = s.strip_prefix("0x").or_else(|| s.strip_prefix("0X")) {
                    // up to 64 bits
                    u64::from_str_radix(h, 16).map_err(|_| "hex literal empty or wider than 64 bits".to_string())?;
                    Ok(T::Int(s))
                } else if s.contains(|c| c == '.' || c == 'e' || c == 'E') {
                    s.parse::<f64>().map_err(|_| "malformed float literal".to_string())?;
                    Ok(T::Float(s))
                } else {
                    s.parse::<i64>().map_err(|_| "decimal literal above i64::MAX".to_string())?;
                    Ok(T::Int(s))
                }
            }
            Some(RTok::Name(s)) => {
                self.i += 1;
                if s == "PI" {
                    return Ok(T::Const("PI"));
                }
                if s == "E" {
                    return Ok(T::Const("E"));
                }
                if self.eat("(") {
                    let op = *ALL_U.iter().find(|u| u_func(**u) == Some(s.as_str())).ok_or("unknown function")?;
                    let a = self.ternary()?;
                    if !self.eat(")") {
                        return Err("expected ')'".into());
                    }
                    Ok(T::Un(op, true, a.into()))
                } else {
                    Ok(T::Ident(s))
                }
            }
            t => Err(format!("unexpected token {t:?}")),
        }
    }
}

fn ref_parse(src: &str) -> Result<T, String> {
    let mut p = RefParser { t: ref_lex(src)?, i: 0 };
    let e = p.ternary()?;
    if p.i != p.t.len() {
        return Err("trailing tokens".into());
    }
    Ok(e)
}

// ---------------------------------------------------------------------------------------
// Reference evaluator
// ---------------------------------------------------------------------------------------

#[derive(Clone, Copy, Debug)]
enum V {
    I(i64),
    F(f64),
}
#[derive(Clone, Copy, Debug, PartialEq)]
enum RErr {
    UnknownIdent,
    RemByZero,
    /// an expression binding that refers to itself
    Cyclic,
}
impl V {
    fn f(self) -> f64 {
        match self {
            V::I(i) => i as f64,
            V::F(f) => f,
        }
    }
    /// truncation toward zero, saturating, NaN ↦ 0
    fn i(self) -> i64 {
        match self {
            V::I(i) => i,
            V::F(f) => {
                if f.is_nan() {
                    0
                } else if f >= 9223372036854775808.0 {
                    i64::MAX
                } else if f <= -9223372036854775808.0 {
                    i64::MIN
                } else {
                    f.trunc() as i64
                }
            }
        }
    }
    fn truthy(self) -> bool {
        match self {
            V::I(i) => i != 0,
            V::F(f) => f != 0.0,
        }
    }
}
fn wrap(x: i128) -> i64 {
    x as i64 // truncation to the low 64 bits = two's complement wrap-around
}
fn pow_mod64(a: i64, n: u64) -> i64 {
    // a^n mod 2^64, computed on u128 residues
    let m: u128 = 1u128 << 64;
    let mut base = (a as i128).rem_euclid(m as i128) as u128;
    let mut acc: u128 = 1;
    let mut n = n;
    while n > 0 {
        if n & 1 == 1 {
            acc = acc * base % m;
        }
        base = base * base % m;
        n >>= 1;
    }
    acc as u64 as i64
}
fn fsgn(f: f64) -> f64 {
    if f > 0.0 {
        1.0
    } else if f < 0.0 {
        -1.0
    } else {
        f
    }
}

type Env = Vec<(String, V)>;

fn ref_eval(t: &T, env: &Env) -> Result<V, RErr> {
    ref_eval_x(t, env, &[], &mut vec![])
}

fn ref_eval_x(t: &T, env: &Env, xenv: &[(String, String)], vis: &mut Vec<String>) -> Result<V, RErr> {
    let b = |x: bool| V::I(x as i64);
    Ok(match t {
        T::Int(s) => V::I(int_lit_value(s)),
        T::Float(s) => V::F(s.parse().unwrap()),
        T::Const("PI") => V::F(std::f64::consts::PI),
        T::Const(_) => V::F(std::f64::consts::E),
        T::Ident(s) => {
            // a name bound to a text (an <Expression> element) is that text evaluated in the SAME
            // environment (dynamic scope); meeting it again while it is being evaluated is an error
            if vis.contains(s) {
                return Err(RErr::Cyclic);
            }
            if let Some(e) = env.iter().find(|e| &e.0 == s) {
                e.1
            } else if let Some(x) = xenv.iter().find(|x| &x.0 == s) {
                let bound = ref_parse(&x.1).map_err(|_| RErr::UnknownIdent)?;
                vis.push(s.clone());
                let r = ref_eval_x(&bound, env, xenv, vis);
                vis.pop();
                r?
            } else {
                return Err(RErr::UnknownIdent);
            }
        }
        T::If(c, x, y) => {
            if ref_eval_x(c, env, xenv, vis)?.truthy() {
                ref_eval_x(x, env, xenv, vis)?
            } else {
                ref_eval_x(y, env, xenv, vis)?
            }
        }
        T::Bin(B::And, l, r) => b(ref_eval_x(l, env, xenv, vis)?.truthy() && ref_eval_x(r, env, xenv, vis)?.truthy()),
        T::Bin(B::Or, l, r) => b(ref_eval_x(l, env, xenv, vis)?.truthy() || ref_eval_x(r, env, xenv, vis)?.truthy()),
        T::Bin(op, l, r) => {
            let x = ref_eval_x(l, env, xenv, vis)?;
            let y = ref_eval_x(r, env, xenv, vis)?;
            let ints = match (x, y) {
                (V::I(a), V::I(c)) => Some((a as i128, c as i128)),
                _ => None,
            };
            match op {
                B::Add => ints.map_or(V::F(x.f() + y.f()), |(a, c)| V::I(wrap(a + c))),
                B::Sub => ints.map_or(V::F(x.f() - y.f()), |(a, c)| V::I(wrap(a - c))),
                B::Mul => ints.map_or(V::F(x.f() * y.f()), |(a, c)| V::I(wrap(a * c))),
                B::Div => V::F(x.f() / y.f()),
                B::Rem => match ints {
                    Some((_, 0)) => return Err(RErr::RemByZero),
                    Some((a, c)) => V::I(wrap(a % c)),
                    None => V::F(x.f() % y.f()),
                },
                B::Pow => match ints {
                    Some((a, c)) if c >= 0 => V::I(pow_mod64(a as i64, c as u64)),
                    _ => V::F(x.f().powf(y.f())),
                },
                B::Eq => b(ints.map_or(x.f() == y.f(), |(a, c)| a == c)),
                B::Ne => b(ints.map_or(x.f() != y.f(), |(a, c)| a != c)),
                B::Lt => b(ints.map_or(x.f() < y.f(), |(a, c)| a < c)),
                B::Le => b(ints.map_or(x.f() <= y.f(), |(a, c)| a <= c)),
                B::Gt => b(ints.map_or(x.f() > y.f(), |(a, c)| a > c)),
                B::Ge => b(ints.map_or(x.f() >= y.f(), |(a, c)| a >= c)),
                B::Shl => V::I(wrap((x.i() as i128) << (y.i() as i128).rem_euclid(64))),
                B::Shr => V::I(wrap((x.i() as i128) >> (y.i() as i128).rem_euclid(64))),
                B::BitAnd => V::I(x.i() & y.i()),
                B::BitOr => V::I(x.i() | y.i()),
                B::Xor => V::I(x.i() ^ y.i()),
                B::And | B::Or => unreachable!(),
            }
        }
        T::Un(op, _, a) => {
            let x = ref_eval_x(a, env, xenv, vis)?;
            match op {
                U::Not => V::I(wrap(-(x.i() as i128) - 1)),
                U::Abs => match x {
                    V::I(i) => V::I(wrap((i as i128).abs())),
                    V::F(f) => V::F(f.abs()),
                },
                U::Sgn => match x {
                    V::I(i) => V::I((i > 0) as i64 - (i < 0) as i64),
                    V::F(f) => V::F(fsgn(f)),
                },
                U::Neg => match x {
                    V::I(i) => V::I(wrap(-(i as i128))),
                    V::F(f) => V::F(-f),
                },
                U::Sin => V::F(x.f().sin()),
                U::Cos => V::F(x.f().cos()),
                U::Tan => V::F(x.f().tan()),
                U::Asin => V::F(x.f().asin()),
                U::Acos => V::F(x.f().acos()),
                U::Atan => V::F(x.f().atan()),
                U::Exp => V::F(x.f().exp()),
                U::Ln => V::F(x.f().ln()),
                U::Lg => V::F(x.f().log10()),
                U::Sqrt => V::F(x.f().sqrt()),
                U::Trunc => V::F(x.f().trunc()),
                U::Floor => V::F(x.f().floor()),
                U::Ceil => V::F(x.f().ceil()),
                U::Round => V::F(x.f().round()),
            }
        }
    })
}

fn show_ref(r: &Result<V, RErr>) -> String {
    match r {
        Ok(V::I(i)) => format!("ok:i{i}"),
        Ok(V::F(f)) => format!("ok:f{}", fbits(*f)),
        Err(RErr::UnknownIdent) | Err(RErr::Cyclic) => "err:InvalidNode".into(),
        Err(RErr::RemByZero) => "err:InvalidData".into(),
    }
}

// ---------------------------------------------------------------------------------------
// The implementation under test
// ---------------------------------------------------------------------------------------

fn err_name(e: &GenApiError) -> &'static str {
    match e {
        GenApiError::Device(_) => "Device",
        GenApiError::NotWritable => "NotWritable",
        GenApiError::InvalidNode(_) => "InvalidNode",
        GenApiError::InvalidData(_) => "InvalidData",
        GenApiError::ChunkDataMissing => "ChunkDataMissing",
        GenApiError::InvalidBuffer(_) => "InvalidBuffer",
    }
}

/// (tree dump, evaluation) or None when `parse` panics.
fn run_impl(src: &str, env: &HashMap<String, Expr>) -> Option<(String, String)> {
    let e = catch(|| formula::parse(src)).ok()?;
    let d = dump_expr(&e);
    let v = match catch(|| e.eval(env)) {
        Err(()) => "panic".to_string(),
        Ok(Err(e)) => format!("err:{}", err_name(&e)),
        Ok(Ok(EvaluationResult::Integer(i))) => format!("ok:i{i}"),
        Ok(Ok(EvaluationResult::Float(f))) => format!("ok:f{}", fbits(f)),
    };
    Some((d, v))
}

fn impl_answer(r: &Option<(String, String)>) -> String {
    match r {
        None => "parse-panic".into(),
        Some((d, v)) => format!("{d} {v}"),
    }
}

fn env_wire(env: &Env, xenv: &[(String, String)]) -> String {
    if env.is_empty() && xenv.is_empty() {
        return "-".into();
    }
    let mut parts: Vec<String> = env
        .iter()
        .map(|(n, v)| match v {
            V::I(i) => format!("{n}=i:{i}"),
            V::F(f) => format!("{n}=f:{:016x}", f.to_bits()),
        })
        .collect();
    parts.extend(xenv.iter().map(|(n, f)| format!("{n}=x:{}", hex(f.as_bytes()))));
    parts.join(",")
}

fn env_impl(env: &Env, xenv: &[(String, String)]) -> HashMap<String, Expr> {
    let mut m: HashMap<String, Expr> = env
        .iter()
        .map(|(n, v)| {
            (
                n.clone(),
                match v {
                    V::I(i) => Expr::Integer(*i),
                    V::F(f) => Expr::Float(*f),
                },
            )
        })
        .collect();
    for (n, f) in xenv {
        // a binding whose text the parser rejects (panic) stays unbound
        if let Ok(e) = catch(|| formula::parse(f)) {
            m.insert(n.clone(), e);
        }
    }
    m
}

/// float answers `ok:f<bits>` within `ulps` of each other (same sign, both finite or equal)
fn close(a: &str, b: &str, ulps: u64) -> bool {
    let (Some(x), Some(y)) = (a.strip_prefix("ok:f"), b.strip_prefix("ok:f")) else { return false };
    let (Ok(x), Ok(y)) = (u64::from_str_radix(x, 16), u64::from_str_radix(y, 16)) else { return false };
    (x >> 63) == (y >> 63) && x.abs_diff(y) <= ulps
}

// ---------------------------------------------------------------------------------------
// Generators
// ---------------------------------------------------------------------------------------

const VAR_NAMES: [&str; 24] = [
    "X", "Y", "VAR1", "Foo1.Max", "a_b", "LN", "E1", "PIX", "A1.B2", "Reg0.Max1", "x", "SINX", "ABSVAL", "EXPOSURE",
    "ROUNDED", "E.x", "PI.Value", "TRUNC8", "Gain_Raw.Value.Min", "ThisIsAVeryLongFeatureNameWithDigits0123456789AndMore.Inc",
    "COS.Min", "N", "e", "pi",
];

fn idents_of(t: &T, out: &mut Vec<String>) {
    match t {
        T::Bin(_, l, r) => {
            idents_of(l, out);
            idents_of(r, out);
        }
        T::Un(_, _, x) => idents_of(x, out),
        T::If(c, a, b) => {
            idents_of(c, out);
            idents_of(a, out);
            idents_of(b, out);
        }
        T::Ident(s) => {
            if !out.contains(s) {
                out.push(s.clone())
            }
        }
        _ => {}
    }
}
const INT_LITS: [&str; 30] = [
    "0X1F", "0xFFFFFFFFFFFFFFFF", "0x8000000000000000", "0XdeadBEEF00000000", "0xffffffff00000000",
    "0x00000000000000000001", "0X0", "0x8000000000000001",
    "0", "1", "2", "3", "7", "10", "63", "64", "65", "007", "255", "0xff", "0xFF00", "0x0", "0x7FFFFFFFFFFFFFFF",
    "9223372036854775807", "4294967296", "4294967297", "0x100000000", "1000000007", "0xaBc", "18",
];
const FLOAT_LITS: [&str; 42] = [
    "1e3", "1.5E-3", "1.e2", ".5e1", "2E+2", "1e400", "1e-400", "123456789e-5", "0e0", "1e22", "1e23",
    "4.9e-324", "2.4703282292062327e-324", "2.4703282292062328e-324", "1.7976931348623157e308",
    "1.7976931348623159e308", "1e-320", "9007199254740993e0", "1E0", "00.5e+01", "1e308", "2.2250738585072014e-308",
    "0.5", ".5", "1.", "0.", ".0", "1.5", "2.25", "0.1", "3.14159", "100.001", "0.30000000000000004",
    "0.1000000000000000055511151231257827", "123456789012345678901234567890.5", "9007199254740993.",
    "9223372036854775808.", "0.000000000000000000000000000001", "1.7976931348623157", "00.50", "4.9406564584124654",
    "2.2250738585072011",
];

fn gen_leaf(rng: &mut Rng) -> T {
    match rng.below(10) {
        0..=3 => T::Ident((*rng.pick(&VAR_NAMES)).into()),
        4..=6 => {
            if rng.chance(1, 4) {
                let v = rng.interesting_i64();
                let v = if v < 0 { v.wrapping_neg().max(0) } else { v };
                match rng.below(4) {
                    0 | 1 => T::Int(format!("{v}")),
                    2 => T::Int(format!("0x{v:x}")),
                    _ => T::Int(format!("0X{:X}", rng.next_u64())),
                }
            } else {
                T::Int((*rng.pick(&INT_LITS)).into())
            }
        }
        7..=8 => {
            if rng.chance(1, 4) {
                // random decimal with up to 25 digits on each side
                let a = rng.below(25) as usize;
                let b = rng.below(25) as usize;
                let digits = |rng: &mut Rng, n: usize| (0..n).map(|_| char::from(b'0' + rng.below(10) as u8)).collect::<String>();
                let mut s = digits(rng, a);
                s.push('.');
                s.push_str(&digits(rng, b));
                if s == "." {
                    s = "0.".into();
                }
                if rng.chance(1, 3) {
                    let e = rng.below(700) as i64 - 350;
                    s.push_str(&format!("{}{}", if rng.bool() { "e" } else { "E" }, e));
                    if rng.chance(1, 4) && e >= 0 {
                        s = s.replace('e', "e+").replace('E', "E+");
                    }
                }
                T::Float(s)
            } else {
                T::Float((*rng.pick(&FLOAT_LITS)).into())
            }
        }
        _ => T::Const(if rng.bool() { "PI" } else { "E" }),
    }
}

fn gen_tree(rng: &mut Rng, depth: usize) -> T {
    if depth == 0 || rng.chance(1, 6) {
        return gen_leaf(rng);
    }
    match rng.below(10) {
        0..=5 => T::Bin(*rng.pick(&ALL_B), gen_tree(rng, depth - 1).into(), gen_tree(rng, depth - 1).into()),
        6..=8 => {
            let op = *rng.pick(&ALL_U);
            let func = op != U::Neg || rng.chance(1, 3);
            T::Un(op, func, gen_tree(rng, depth - 1).into())
        }
        _ => T::If(gen_tree(rng, depth - 1).into(), gen_tree(rng, depth - 1).into(), gen_tree(rng, depth - 1).into()),
    }
}

const INT_VALUES: [i64; 22] = [
    0, 1, -1, 2, -2, 3, 7, -7, 63, 64, 65, -64, i64::MAX, i64::MIN, i64::MAX - 1, i64::MIN + 1, 1 << 32,
    (1 << 32) + 1, 1 << 31, -(1 << 32), 1 << 62, 4294967295,
];
fn float_values() -> Vec<f64> {
    vec![
        0.0, -0.0, 1.0, -1.0, 0.5, -2.5, 2.5, 1.5, 1e300, -1e300, f64::INFINITY, f64::NEG_INFINITY, f64::NAN,
        f64::from_bits(1), -f64::from_bits(1), f64::MIN_POSITIVE, f64::MAX, f64::MIN, 9223372036854775808.0,
        -9223372036854775808.0, 9007199254740993.0, 1e-300, std::f64::consts::PI, 63.9, 64.0, -0.9, 4294967296.0,
        f64::from_bits(0x000f_ffff_ffff_ffff),
    ]
}

fn gen_value(rng: &mut Rng, fv: &[f64]) -> V {
    match rng.below(8) {
        0..=2 => V::I(*rng.pick(&INT_VALUES)),
        3 => V::I(rng.interesting_i64()),
        4..=5 => V::F(*rng.pick(fv)),
        6 => V::F((rng.below(2001) as f64 - 1000.0) / 8.0),
        _ => V::F(f64::from_bits(rng.next_u64())),
    }
}

fn gen_env(rng: &mut Rng, fv: &[f64], names: &[String]) -> Env {
    // a variable is unbound with probability 1/8 (unknown identifier → error / short circuit)
    let mut env: Env = vec![];
    for n in names {
        if !rng.chance(1, 8) {
            env.push((n.clone(), gen_value(rng, fv)));
        }
    }
    env
}

fn env_for(rng: &mut Rng, fv: &[f64], t: &T) -> Env {
    let mut names = vec![];
    idents_of(t, &mut names);
    gen_env(rng, fv, &names)
}

// ---------------------------------------------------------------------------------------
// One case
// ---------------------------------------------------------------------------------------

struct Ctx {
    rep: Report,
    /// (request, implementation answer, libm-tolerant?)
    pending: Vec<(String, String, bool)>,
    camdrv: String,
}

impl Ctx {
    fn flush(&mut self) {
        let pend = std::mem::take(&mut self.pending);
        if pend.is_empty() {
            return;
        }
        let reqs: Vec<String> = pend.iter().map(|p| p.0.clone()).collect();
        let answers = run_model(&self.camdrv, &reqs);
        if answers.len() != reqs.len() {
            self.rep.n_disagreements += 1;
            self.rep.disagreements.push(json!({"request": "<stream>", "impl": format!("{} requests", reqs.len()),
                "model": format!("{} answers (driver died or desynchronised)", answers.len())}));
        }
        for (i, (req, imp, tolerant)) in pend.iter().enumerate() {
            let model = answers.get(i).map(|s| s.as_str()).unwrap_or("<missing>");
            if model == imp {
                continue;
            }
            if model == "skip" {
                self.rep.count("spec-evaluator-skipped(large integer exponent)");
                continue;
            }
            // libm-dependent results: same tree dump, float values within 4 ulp
            if *tolerant {
                if let (Some((d1, v1)), Some((d2, v2))) = (imp.rsplit_once(' '), model.rsplit_once(' ')) {
                    if d1 == d2 && close(v1, v2, 4) {
                        self.rep.count("model:libm-within-4ulp");
                        continue;
                    }
                }
                if close(imp, model, 4) {
                    self.rep.count("model:libm-within-4ulp");
                    continue;
                }
            }
            self.rep.n_disagreements += 1;
            if self.rep.disagreements.len() < 40 {
                self.rep.disagreements.push(json!({"request": req, "impl": imp, "model": model,
                    "formula": String::from_utf8_lossy(&unhex(req.split(' ').nth(3).unwrap_or("-"))).to_string()}));
            }
        }
        *self.rep.dist.entry("model_requests".into()).or_insert(0) += reqs.len() as u64;
    }
}

fn classify(v: V) -> &'static str {
    match v {
        V::I(0) => "int-zero",
        V::I(i64::MIN) => "int-min",
        V::I(i) if i < 0 => "int-neg",
        V::I(_) => "int-pos",
        V::F(f) if f.is_nan() => "float-nan",
        V::F(f) if f.is_infinite() => "float-inf",
        V::F(f) if f == 0.0 => "float-zero",
        V::F(_) => "float",
    }
}

/// Smallest sub-tree on which implementation and reference still differ; gives the signature.
fn shrink_eval(t: &T, env: &Env, xenv: &[(String, String)]) -> (T, Value) {
    let differs = |t: &T| {
        let mut out = vec![];
        let mut r = Rng::new(0);
        render(t, 0, Paren::Full, &mut r, &mut out);
        let src = out.join(" ");
        let got = run_impl(&src, &env_impl(env, xenv)).map(|x| x.1).unwrap_or("parse-panic".into());
        let want = show_ref(&ref_eval_x(t, env, xenv, &mut vec![]));
        got != want && !(uses_libm(t) && close(&got, &want, 4))
    };
    let mut cur = t.clone();
    loop {
        let kids: Vec<T> = match &cur {
            T::Bin(_, l, r) => vec![(**l).clone(), (**r).clone()],
            T::Un(_, _, x) => vec![(**x).clone()],
            T::If(c, a, b) => vec![(**c).clone(), (**a).clone(), (**b).clone()],
            _ => vec![],
        };
        match kids.into_iter().find(|k| differs(k)) {
            Some(k) => cur = k,
            None => break,
        }
    }
    let cls = |x: &T| ref_eval_x(x, env, xenv, &mut vec![]).map(classify).unwrap_or("error");
    let sig = match &cur {
        T::Bin(op, l, r) => json!({"kind": "eval", "op": format!("{op:?}"), "lhs": cls(l), "rhs": cls(r)}),
        T::Un(op, _, x) => json!({"kind": "eval", "op": format!("{op:?}"), "arg": cls(x)}),
        T::If(..) => json!({"kind": "eval", "op": "If"}),
        _ => json!({"kind": "eval", "op": "leaf"}),
    };
    (cur, sig)
}

/// A well-formed formula: parse oracle + evaluation oracle + model differential.
fn do_case(cx: &mut Ctx, t: &T, src: &str, env: &Env, tag: &str) {
    do_case_x(cx, t, src, env, &[], tag)
}

/// A well-formed formula, evaluated in an environment of literal bindings `env` and of
/// sub-formula bindings `xenv` (<Expression> elements).
fn do_case_x(cx: &mut Ctx, t: &T, src: &str, env: &Env, xenv: &[(String, String)], tag: &str) {
    let imp = run_impl(src, &env_impl(env, xenv));
    let want_dump = dump_t(t);
    let want_eval = ref_eval_x(t, env, xenv, &mut vec![]);
    let want_eval_s = show_ref(&want_eval);
    let libm = uses_libm(t) || xenv.iter().any(|x| ref_parse(&x.1).map_or(true, |b| uses_libm(&b)));
    cx.rep.case(&format!("{src}|{}", env_wire(env, xenv)), depth(t) >= 1 && want_eval.is_ok());
    cx.rep.count(&format!("src/{tag}"));
    cx.rep.count(&format!("depth/{}", depth(t)));
    cx.rep.count(&format!("ref-result/{}", match &want_eval {
        Ok(V::I(_)) => "int",
        Ok(V::F(f)) if f.is_nan() => "float-nan",
        Ok(V::F(_)) => "float",
        Err(RErr::UnknownIdent) => "err-unknown-ident",
        Err(RErr::Cyclic) => "err-cyclic-expression",
        Err(RErr::RemByZero) => "err-rem-by-zero",
    }));
    let replay = json!({"formula": src, "env": env_wire(env, xenv)});
    // the independent reference parser must read the rendering back as the generated tree
    match ref_parse(src) {
        Ok(rt) if dump_t(&rt) == want_dump => {}
        other => {
            // a defect of the harness itself (printer or reference parser): report loudly
            cx.rep.violation(json!({"kind": "harness-reference-parser"}),
                &format!("reference parser reads {src:?} as {:?}, generated tree {want_dump}", other.map(|t| dump_t(&t))), replay.clone());
        }
    }
    match &imp {
        None => cx.rep.violation(json!({"kind": "parse-panic"}), &format!("parse panics on well-formed formula {src:?}"), replay.clone()),
        Some((d, v)) => {
            if *d != want_dump {
                cx.rep.violation(json!({"kind": "parse-tree"}),
                    &format!("{src:?} parsed as {d}, the standard's precedence gives {want_dump}"), replay.clone());
            } else if *v != want_eval_s && !(libm && close(v, &want_eval_s, 4)) {
                let (small, sig) = shrink_eval(t, env, xenv);
                let kind = if v == "panic" { "eval panics" } else { "eval differs from the reference evaluator" };
                cx.rep.violation(sig, &format!("{kind}: {src:?} gives {v}, reference {want_eval_s}; minimal sub-expression {}", dump_t(&small)), replay.clone());
            }
        }
    }
    let req = format!("c05 run {} {} {}", profile(), hex(src.as_bytes()), env_wire(env, xenv));
    let ans = impl_answer(&imp);
    if cx.rep.evaluations % 4001 == 1 {
        cx.rep.sample(json!({"formula": src, "env": env_wire(env, xenv), "impl": ans, "reference": format!("{want_dump} {want_eval_s}")}));
    }
    cx.pending.push((req, ans, libm));
    // the Lean reference evaluator (Spec.Formula.eval, the right-hand side of eval_refines_spec)
    // against this harness' reference evaluator: two independent transcriptions of the semantics
    if xenv.is_empty() && cx.rep.evaluations % 3 == 0 && imp.as_ref().map_or(false, |x| x.0 == want_dump) {
        cx.rep.count("spec-evaluator-cross-check");
        cx.pending.push((format!("c05 spec {} {}", hex(src.as_bytes()), env_wire(env, xenv)), want_eval_s.clone(), libm));
    }
    if cx.pending.len() >= 20_000 {
        cx.flush();
    }
}

/// Any text (possibly malformed): only model vs implementation (panic / tree / value).
fn do_raw(cx: &mut Ctx, src: &str, env: &Env, xenv: &[(String, String)], tag: &str) {
    if !src.is_ascii() || src.contains(',') && false {
        return;
    }
    let ienv = env_impl(env, xenv);
    if ienv.len() != env.len() + xenv.len() {
        cx.rep.violation(json!({"kind": "parse-panic", "where": "expression binding"}),
            &format!("parse panics on a well-formed <Expression> binding {xenv:?}"), json!({"formula": xenv.iter().map(|x| x.1.clone()).collect::<Vec<_>>().join(" ;; "), "env": "-"}));
        return;
    }
    let imp = run_impl(src, &ienv);
    // malformed text is never a non-trivial case of the property (rule: well-formed tree with an operator)
    cx.rep.case(&format!("{src}|{}", env_wire(env, xenv)), false);
    cx.rep.count(&format!("src/{tag}"));
    cx.rep.count(if imp.is_some() { "raw:parsed" } else { "raw:parse-panic" });
    if let Some((d, v)) = &imp {
        if v == "panic" {
            // evaluation must never panic, whatever tree the parser produced
            cx.rep.violation(json!({"kind": "eval-panic-raw"}), &format!("evaluation of {src:?} panics"),
                json!({"formula": src, "env": env_wire(env, xenv)}));
        }
        // a text the reference grammar rejects must not silently yield a tree (a value computed
        // from part of the text): the implementation has to refuse it
        if let Err(why) = ref_parse(src) {
            let reason = if why.contains("trailing") { "trailing-tokens" } else if why.contains("literal") { "literal" } else { "syntax" };
            cx.rep.count(&format!("raw:accepted-malformed/{reason}"));
            cx.rep.violation(json!({"kind": "accepts-malformed", "reason": reason}),
                &format!("{src:?} is not a well-formed formula ({why}) but parse returns the tree {d}"),
                json!({"formula": src, "env": env_wire(env, xenv)}));
        }
    }
    let req = format!("c05 run {} {} {}", profile(), hex(src.as_bytes()), env_wire(env, xenv));
    // tolerance only when a libm-dependent operation can be involved
    let libm = src.contains("**") || ["SIN", "COS", "TAN", "EXP", "LN", "LG"].iter().any(|f| src.contains(f))
        || xenv.iter().any(|x| x.1.contains("**") || ["SIN", "COS", "TAN", "EXP", "LN", "LG"].iter().any(|f| x.1.contains(f)));
    cx.pending.push((req, impl_answer(&imp), libm));
}

/// Text of unknown status: a formula the reference grammar accepts is a full case, anything else
/// goes to the malformed stream.
fn do_any(cx: &mut Ctx, src: &str, env: &Env, tag: &str) {
    if !src.is_ascii() {
        return;
    }
    match ref_parse(src) {
        Ok(t) => {
            cx.rep.count("malformed-stream:well-formed-after-mutation");
            do_case(cx, &t, src, env, tag)
        }
        Err(_) => do_raw(cx, src, env, &[], tag),
    }
}

struct NoDevice;
impl cameleon_genapi::Device for NoDevice {
    fn read_mem(&mut self, _: i64, _: &mut [u8]) -> Result<(), Box<dyn std::error::Error + Send + Sync>> {
        Err("the formula stream has no device".into())
    }
    fn write_mem(&mut self, _: i64, _: &[u8]) -> Result<(), Box<dyn std::error::Error + Send + Sync>> {
        Err("the formula stream has no device".into())
    }
}

/// The token list as XML character data: operators escaped, random XML-safe gaps, now and then
/// a comment between two tokens or a token inside a CDATA section.
fn xml_text(toks: &[String], rng: &mut Rng, decorate: bool) -> String {
    const GAPS: [&str; 5] = ["", " ", "\t", "\n", "\r\n"];
    let mut s = String::new();
    for t in toks {
        s.push_str(*rng.pick(&GAPS));
        if decorate && rng.chance(1, 12) {
            s.push_str("<!-- a comment -->");
        }
        if decorate && rng.chance(1, 12) {
            s.push_str(&format!("<![CDATA[{t}]]>"));
        } else {
            s.push_str(&t.replace('&', "&amp;").replace('<', "&lt;").replace('>', "&gt;"));
        }
    }
    s.push_str(*rng.pick(&GAPS));
    s
}

const XML_HEAD: &str = "<RegisterDescription ModelName=\"M\" VendorName=\"V\" StandardNameSpace=\"None\" SchemaMajorVersion=\"1\" SchemaMinorVersion=\"1\" SchemaSubMinorVersion=\"0\" MajorVersion=\"1\" MinorVersion=\"0\" SubMinorVersion=\"0\" ProductGuid=\"a\" VersionGuid=\"b\">\n";

/// End-to-end through the XML loader and the node implementations: the formula is written into
/// a `<SwissKnife>`, `<IntSwissKnife>` (with `<Constant>` and `<Expression>` children) or
/// `<Converter>` element, the description is built with the real `GenApiBuilder`, the tree the
/// node holds must be the generated tree and the node's value the reference evaluation (the
/// loader hands entity-decoded text to the lexer, which decodes entities once more).
fn do_xml(cx: &mut Ctx, rng: &mut Rng, t: &T, kind: u64, decorate: bool) {
    let mut toks = vec![];
    render(t, 0, Paren::Random, rng, &mut toks);
    let plain = toks.join(" ");
    let int = kind == 1;
    // bindings: every identifier of the tree is a constant, an expression over the constants, or unbound
    let mut names = vec![];
    idents_of(t, &mut names);
    let mut env: Env = vec![];
    let mut xenv: Vec<(String, String)> = vec![];
    let mut decl = String::new();
    let mut decl_x = String::new();
    for n in &names {
        match rng.below(4) {
            0 | 1 => {
                let v = if int { V::I(rng.interesting_i64()) } else { V::F((rng.below(4001) as f64 - 2000.0) / 16.0) };
                let txt = match v {
                    V::I(i) => format!("{i}"),
                    V::F(f) => format!("{f:?}"),
                };
                decl.push_str(&format!("<Constant Name=\"{n}\">{txt}</Constant>"));
                env.push((n.clone(), v));
            }
            2 => {
                let mut et = vec![];
                let sub = T::Bin(*rng.pick(&ALL_B), Box::new(gen_leaf(rng)), Box::new(gen_leaf(rng)));
                // the sub-formula may use constants declared so far and literals only
                let sub = match &sub {
                    T::Bin(op, l, r) => {
                        let fix = |x: &T, rng: &mut Rng, env: &Env| match x {
                            T::Ident(_) if env.is_empty() => T::Int("3".into()),
                            T::Ident(_) => T::Ident(env[rng.below(env.len() as u64) as usize].0.clone()),
                            o => o.clone(),
                        };
                        T::Bin(*op, Box::new(fix(l, rng, &env)), Box::new(fix(r, rng, &env)))
                    }
                    o => o.clone(),
                };
                render(&sub, 0, Paren::Min, rng, &mut et);
                decl_x.push_str(&format!("<Expression Name=\"{n}\">{}</Expression>", xml_text(&et, rng, false)));
                xenv.push((n.clone(), et.join(" ")));
            }
            _ => {}
        }
    }
    decl.push_str(&decl_x);
    let body = xml_text(&toks, rng, decorate);
    let xml = match kind {
        0 => format!("{XML_HEAD}<SwissKnife Name=\"F\">{decl}<Formula>{body}</Formula></SwissKnife>\n</RegisterDescription>"),
        1 => format!("{XML_HEAD}<IntSwissKnife Name=\"F\">{decl}<Formula>{body}</Formula></IntSwissKnife>\n</RegisterDescription>"),
        _ => format!("{XML_HEAD}<Float Name=\"V\"><Value>1.0</Value></Float>\n<Converter Name=\"F\">{decl}<FormulaTo>{body}</FormulaTo><FormulaFrom>{body}</FormulaFrom><pValue>V</pValue></Converter>\n</RegisterDescription>"),
    };
    let kind_name = ["SwissKnife", "IntSwissKnife", "Converter"][kind.min(2) as usize];
    cx.rep.count(&format!("xml-path/{kind_name}{}", if decorate { "+comment/CDATA" } else { "" }));
    let want_tree = dump_t(t);
    let want_val = ref_eval_x(t, &env, &xenv, &mut vec![]);
    let want_val_s = match (&want_val, kind) {
        (_, 2) => "-".to_string(),
        (Ok(v), 0) => format!("ok:f{}", fbits(v.f())),
        (Ok(v), _) => format!("ok:i{}", v.i()),
        (Err(RErr::RemByZero), _) => "err:InvalidData".into(),
        (Err(_), _) => "err:InvalidNode".into(),
    };
    let got = catch(|| {
        let (_, store, mut vcx) = GenApiBuilder::<DefaultNodeStore>::default().no_cache().build(&xml).map_err(|e| e.to_string())?;
        let id = store.id_by_name("F").ok_or("node F not found")?;
        let mut dev = NoDevice;
        match store.node_opt(id) {
            Some(NodeData::SwissKnife(n)) => {
                let v = match id.as_ifloat_kind(&store).ok_or("not a float kind")?.value(&mut dev, &store, &mut vcx) {
                    Ok(f) => format!("ok:f{}", fbits(f)),
                    Err(e) => format!("err:{}", err_name(&e)),
                };
                Ok((dump_expr(n.formula().expr()), v))
            }
            Some(NodeData::IntSwissKnife(n)) => {
                let v = match id.as_iinteger_kind(&store).ok_or("not an integer kind")?.value(&mut dev, &store, &mut vcx) {
                    Ok(i) => format!("ok:i{i}"),
                    Err(e) => format!("err:{}", err_name(&e)),
                };
                Ok((dump_expr(n.formula().expr()), v))
            }
            Some(NodeData::Converter(n)) => {
                let (a, b) = (dump_expr(n.formula_to().expr()), dump_expr(n.formula_from().expr()));
                if a != b {
                    return Err(format!("FormulaTo {a} differs from FormulaFrom {b}"));
                }
                Ok((a, "-".to_string()))
            }
            _ => Err("F has an unexpected kind".to_string()),
        }
    });
    let got_s = match got {
        Err(()) => "panic".to_string(),
        Ok(Err(e)) => format!("error {e}"),
        Ok(Ok((d, v))) => format!("{d} {v}"),
    };
    let want = format!("{want_tree} {want_val_s}");
    cx.rep.case(&format!("xml|{kind}|{xml}"), depth(t) >= 1 && (kind == 2 || want_val.is_ok()));
    let agree = got_s == want
        || (uses_libm(t) || xenv.iter().any(|x| x.1.contains("**")))
            && matches!((got_s.rsplit_once(' '), want.rsplit_once(' ')), (Some((d1, v1)), Some((d2, v2))) if d1 == d2 && close(v1, v2, 4));
    if !agree {
        cx.rep.violation(json!({"kind": "xml-path", "element": kind_name}),
            &format!("{kind_name} with formula {plain:?} (constants {}, expressions {xenv:?}) loaded from XML gives {got_s}, expected {want}", env_wire(&env, &[])),
            json!({"formula": plain, "env": env_wire(&env, &xenv), "xml": xml}));
    }
}

fn render_variants(cx: &mut Ctx, rng: &mut Rng, t: &T, env: &Env, tag: &str, all: bool) {
    let combos: Vec<(Paren, Ws, Ent)> = if all {
        vec![
            (Paren::Min, Ws::None, Ent::Never),
            (Paren::Min, Ws::One, Ent::Always),
            (Paren::Full, Ws::None, Ent::Never),
            (Paren::Random, Ws::Random, Ent::Random),
        ]
    } else {
        vec![match rng.below(4) {
            0 => (Paren::Min, Ws::None, Ent::Never),
            1 => (Paren::Min, Ws::Random, Ent::Random),
            2 => (Paren::Full, Ws::One, Ent::Always),
            _ => (Paren::Random, Ws::Random, Ent::Random),
        }]
    };
    for (p, w, e) in combos {
        let mut toks = vec![];
        render(t, 0, p, rng, &mut toks);
        let src = join(&toks, w, e, rng);
        cx.rep.count(&format!("render/{p:?}-{w:?}-{e:?}"));
        do_case(cx, t, &src, env, tag);
    }
}

fn id(s: &str) -> Box<T> {
    Box::new(T::Ident(s.into()))
}

/// `<Expression Name="A">A+1</Expression>`: evaluated in a CHILD process first, because unbounded
/// recursion ends in a stack overflow that aborts the process (not a catchable panic).
fn probe_cyclic_child() -> ! {
    let mut env: HashMap<String, Expr> = HashMap::new();
    env.insert("A".into(), formula::parse("A+1"));
    env.insert("B".into(), formula::parse("C * 2"));
    env.insert("C".into(), formula::parse("1 ? B : 0"));
    let ok = |src: &str, env: &HashMap<String, Expr>| matches!(formula::parse(src).eval(env), Err(GenApiError::InvalidNode(_)));
    let good = ok("A", &env) && ok("B + 1", &env) && matches!(formula::parse("0 && A").eval(&env), Ok(EvaluationResult::Integer(0)));
    std::process::exit(if good { 0 } else { 3 })
}

fn main() {
    if std::env::args().any(|a| a == "--probe-cyclic") {
        probe_cyclic_child();
    }
    let args = parse_args();
    let rep = Report::new(
        "C05",
        "expression trees (all 19 binary and 18 unary operators/functions, ternary, constants, decimal/hex/float literal forms, variables) to depth 6, each rendered with minimal/full/random parentheses, whitespace and XML-entity variants, evaluated under environments from boundary sets; a case is non-trivial when it is a well-formed formula whose tree has at least one operator and whose reference evaluation is not an error (malformed texts are never counted; XML cases: same rule, Converter cases by the tree alone); distinct by (formula text, environment) resp. the XML document",
    );
    let mut cx = Ctx { rep, pending: vec![], camdrv: args.camdrv.clone() };
    let mut rng = Rng::new(args.seed);
    let fv = float_values();

    if let Some(path) = &args.replay {
        let v: Value = serde_json::from_str(&std::fs::read_to_string(path).unwrap()).unwrap();
        let r = &v["replay"];
        let src = r["formula"].as_str().unwrap();
        let envs = r["env"].as_str().unwrap_or("-");
        let mut env: Env = vec![];
        if envs != "-" {
            for part in envs.split(',') {
                let (n, v) = part.split_once('=').unwrap();
                let (k, x) = v.split_once(':').unwrap();
                env.push((n.into(), if k == "i" { V::I(x.parse().unwrap()) } else { V::F(f64::from_bits(u64::from_str_radix(x, 16).unwrap())) }));
            }
        }
        match ref_parse(src) {
            Ok(t) if r["xml"].is_string() => {
                cx.rep.count("replay/xml-case-as-plain-formula");
                do_case(&mut cx, &t, src, &env, "replay")
            }
            Ok(t) => do_case(&mut cx, &t, src, &env, "replay"),
            Err(_) => {
                // not well-formed for the reference grammar: a recorded syntax probe
                probe_syntax(&mut cx, src);
                do_raw(&mut cx, src, &env, &[], "replay-raw");
            }
        }
        cx.flush();
        cx.rep.write(&args);
        return;
    }

    // ---- 0a. self-referring expression bindings, out of process ---------------------------
    let cyclic_safe = {
        let st = std::process::Command::new(std::env::current_exe().unwrap()).arg("--probe-cyclic")
            .stdout(std::process::Stdio::null()).stderr(std::process::Stdio::null()).status();
        cx.rep.count("probe/cyclic-expression(child process)");
        match st {
            Ok(s) if s.success() => true,
            other => {
                let how = match &other {
                    Ok(s) if s.code() == Some(3) => "does not return the error InvalidNode".to_string(),
                    Ok(s) => format!("kills the process ({s})"),
                    Err(e) => format!("child could not be started: {e}"),
                };
                cx.rep.violation(json!({"kind": "cyclic-expression"}),
                    &format!("evaluating `A` with <Expression Name=\"A\">A+1</Expression> {how}"),
                    json!({"formula": "A", "env": format!("A=x:{}", hex(b"A+1")), "child_process": true}));
                false
            }
        }
    };

    // ---- 0. corpus of past failures ----------------------------------------------------
    if let Ok(rd) = std::fs::read_dir("/verif/corpus/C05") {
        let mut files: Vec<_> = rd.flatten().map(|e| e.path()).collect();
        files.sort();
        for f in files {
            if let Ok(txt) = std::fs::read_to_string(&f) {
                for line in txt.lines().filter(|l| !l.trim().is_empty() && !l.starts_with('#')) {
                    let (src, envs) = line.split_once(" ;; ").unwrap_or((line, "-"));
                    let mut env: Env = vec![];
                    if envs != "-" {
                        for part in envs.split(',') {
                            let (n, v) = part.split_once('=').unwrap();
                            let (k, x) = v.split_once(':').unwrap();
                            env.push((n.into(), if k == "i" { V::I(x.parse().unwrap()) } else { V::F(f64::from_bits(u64::from_str_radix(x, 16).unwrap())) }));
                        }
                    }
                    match ref_parse(src) {
                        Ok(t) => do_case(&mut cx, &t, src, &env, "corpus"),
                        Err(_) => do_raw(&mut cx, src, &env, &[], "corpus-raw"),
                    }
                }
            }
        }
    }

    // ---- 1. systematic: every ordered pair of binary operators, both nestings ----------
    let env0: Env = vec![("a".into(), V::I(7)), ("b".into(), V::I(-3)), ("c".into(), V::F(2.5))];
    for op1 in ALL_B {
        for op2 in ALL_B {
            let left = T::Bin(op2, Box::new(T::Bin(op1, id("a"), id("b"))), id("c"));
            let right = T::Bin(op1, id("a"), Box::new(T::Bin(op2, id("b"), id("c"))));
            render_variants(&mut cx, &mut rng, &left, &env0, "pairs", true);
            render_variants(&mut cx, &mut rng, &right, &env0, "pairs", true);
        }
        // unary against binary, ternary against binary
        for (u, f) in [(U::Neg, false), (U::Not, false), (U::Neg, true), (U::Abs, true)] {
            let t1 = T::Un(u, f, Box::new(T::Bin(op1, id("a"), id("b"))));
            let t2 = T::Bin(op1, Box::new(T::Un(u, f, id("a"))), id("b"));
            let t3 = T::Bin(op1, id("a"), Box::new(T::Un(u, f, id("b"))));
            for t in [t1, t2, t3] {
                render_variants(&mut cx, &mut rng, &t, &env0, "unary-vs-binary", true);
            }
        }
        let t1 = T::If(Box::new(T::Bin(op1, id("a"), id("b"))), id("b"), id("c"));
        let t2 = T::Bin(op1, Box::new(T::If(id("a"), id("b"), id("c"))), id("a"));
        let t3 = T::Bin(op1, id("a"), Box::new(T::If(id("a"), id("b"), id("c"))));
        let t4 = T::If(id("a"), Box::new(T::Bin(op1, id("a"), id("b"))), Box::new(T::Bin(op1, id("b"), id("c"))));
        for t in [t1, t2, t3, t4] {
            render_variants(&mut cx, &mut rng, &t, &env0, "ternary-vs-binary", true);
        }
    }
    let nest = [
        T::If(Box::new(T::If(id("a"), id("b"), id("c"))), id("b"), id("c")),
        T::If(id("a"), Box::new(T::If(id("a"), id("b"), id("c"))), id("c")),
        T::If(id("a"), id("b"), Box::new(T::If(id("a"), id("b"), id("c")))),
        T::Un(U::Neg, false, Box::new(T::Un(U::Neg, false, id("a")))),
        T::Un(U::Not, false, Box::new(T::Un(U::Neg, false, id("a")))),
        T::Un(U::Neg, false, Box::new(T::If(id("a"), id("b"), id("c")))),
    ];
    for t in &nest {
        render_variants(&mut cx, &mut rng, t, &env0, "nesting", true);
    }

    // ---- 2. every operator on every pair of boundary operands --------------------------
    let mut vals: Vec<V> = INT_VALUES.iter().map(|i| V::I(*i)).collect();
    vals.extend(fv.iter().map(|f| V::F(*f)));
    let stride = if args.thorough() { 1 } else { 3 };
    let mut k = 0usize;
    for op in ALL_B {
        for x in &vals {
            for y in &vals {
                k += 1;
                if (k + args.seed as usize) % stride != 0 {
                    continue;
                }
                let env: Env = vec![("X".into(), *x), ("Y".into(), *y)];
                let t = T::Bin(op, id("X"), id("Y"));
                do_case(&mut cx, &t, &format!("X {} Y", b_sym(op)), &env, "operand-grid");
            }
        }
    }
    for op in ALL_U {
        for x in &vals {
            let env: Env = vec![("X".into(), *x)];
            let func = op != U::Not;
            let t = T::Un(op, func, id("X"));
            render_variants(&mut cx, &mut rng, &t, &env, "operand-grid-unary", false);
            if op == U::Neg {
                do_case(&mut cx, &T::Un(op, false, id("X")), "-X", &env, "operand-grid-unary");
            }
        }
    }
    for x in &vals {
        // short circuit: the operand that must not be evaluated is an unknown identifier / a zero remainder
        let env: Env = vec![("X".into(), *x)];
        for src in ["X && UNKNOWN", "X || UNKNOWN", "X ? 1 : UNKNOWN", "X ? UNKNOWN : 2", "X && 1 % 0", "X || 1 % 0", "X ? 1 % 0 : 2"] {
            let t = ref_parse(src).unwrap();
            do_case(&mut cx, &t, src, &env, "short-circuit");
        }
    }
    // integer powers with large exponents
    for base in [0i64, 1, -1, 2, -2, 3, 5, 10, i64::MAX, i64::MIN, 6700417] {
        for e in [0i64, 1, 2, 3, 62, 63, 64, 65, 4294967295, 4294967296, 4294967297, 8589934592, i64::MAX, 1 << 62] {
            let env: Env = vec![("X".into(), V::I(base)), ("Y".into(), V::I(e))];
            do_case(&mut cx, &T::Bin(B::Pow, id("X"), id("Y")), "X**Y", &env, "int-pow");
        }
    }

    // ---- 3. literal forms ----------------------------------------------------------------
    for s in INT_LITS {
        do_case(&mut cx, &T::Int(s.into()), s, &vec![], "literals");
    }
    for s in FLOAT_LITS {
        do_case(&mut cx, &T::Float(s.into()), s, &vec![], "literals");
        let t = T::Bin(B::Add, Box::new(T::Float(s.into())), Box::new(T::Int("1".into())));
        render_variants(&mut cx, &mut rng, &t, &vec![], "literals", false);
    }

    // ---- 4. random trees to depth 6 -------------------------------------------------------
    let n_trees = if args.thorough() { 60_000 } else { 6_000 };
    for i in 0..n_trees {
        let d = 1 + (i % 6);
        let t = gen_tree(&mut rng, d);
        let env = env_for(&mut rng, &fv, &t);
        render_variants(&mut cx, &mut rng, &t, &env, "random-tree", i % 8 == 0);
        if i % 5 == 0 {
            do_xml(&mut cx, &mut rng, &t, (i / 5 % 3) as u64, i % 10 == 0);
        }
        if i % 3 == 0 {
            let env2 = env_for(&mut rng, &fv, &t);
            render_variants(&mut cx, &mut rng, &t, &env2, "random-tree", false);
        }
    }

    // ---- 5. environments that bind identifiers to expressions (<Expression> elements) -----
    let sub = |rng: &mut Rng, d: usize| -> String {
        let mut toks = vec![];
        render(&gen_tree(rng, d), 0, Paren::Min, rng, &mut toks);
        toks.join(" ")
    };
    for i in 0..(n_trees / 10) {
        // EX1 refers to variables only, EX2 refers to EX1 (and variables), EX3 to EX2 and EX1
        let mut xenv = vec![
            ("EX1".to_string(), sub(&mut rng, 2)),
            ("EX2".to_string(), format!("EX1 {} ({})", b_sym(*rng.pick(&ALL_B)), sub(&mut rng, 2))),
            ("EX3".to_string(), format!("({}) {} EX2 {} EX1", sub(&mut rng, 1), b_sym(*rng.pick(&ALL_B)), b_sym(*rng.pick(&ALL_B)))),
        ];
        match if cyclic_safe { i % 8 } else { 0 } {
            // self-reference, mutual reference, a cycle behind an operand that is not evaluated
            5 => xenv[0].1 = format!("EX1 + ({})", sub(&mut rng, 1)),
            6 => xenv[0].1 = format!("({}) * EX3", sub(&mut rng, 1)),
            7 => xenv[0].1 = format!("0 && EX1 || ({})", sub(&mut rng, 1)),
            _ => {}
        }
        if cyclic_safe && i % 8 >= 5 {
            cx.rep.count("expression-env/cyclic");
        }
        let which = ["EX1", "EX2", "EX3"][rng.below(3) as usize];
        let main_t = T::Bin(*rng.pick(&ALL_B), id(which), Box::new(gen_tree(&mut rng, 2)));
        let mut toks = vec![];
        render(&main_t, 0, Paren::Min, &mut rng, &mut toks);
        let mut names = vec![];
        idents_of(&main_t, &mut names);
        for x in &xenv {
            idents_of(&ref_parse(&x.1).unwrap(), &mut names);
        }
        names.retain(|n| !n.starts_with("EX") || n == "EXPOSURE");
        let env = gen_env(&mut rng, &fv, &names);
        do_case_x(&mut cx, &main_t, &toks.join(" "), &env, &xenv, "expression-env");
    }

    // ---- 6. malformed stream: mutations of well-formed text (model vs implementation only) --
    let n_bad = if args.thorough() { 30_000 } else { 4_000 };
    const JUNK: [&str; 30] = [
        "(", ")", "+", "-", "*", "**", "/", "%", "&", "&&", "|", "||", "^", "~", "=", "<>", "<", "<=", ">", ">=", "<<",
        ">>", "?", ":", ".", "0x", "$", ",", "_", "1e5",
    ];
    for _ in 0..n_bad {
        let d = 1 + rng.below(3) as usize;
        let t = gen_tree(&mut rng, d);
        let mut toks = vec![];
        render(&t, 0, Paren::Random, &mut rng, &mut toks);
        match rng.below(5) {
            0 => {
                let i = rng.below(toks.len() as u64) as usize;
                toks.remove(i);
            }
            1 => {
                let i = rng.below(toks.len() as u64 + 1) as usize;
                toks.insert(i, (*rng.pick(&JUNK)).into());
            }
            2 => {
                let i = rng.below(toks.len() as u64) as usize;
                toks[i] = (*rng.pick(&JUNK)).into();
            }
            3 => {
                let i = rng.below(toks.len() as u64) as usize;
                toks.truncate(i);
            }
            _ => {
                let i = rng.below(toks.len() as u64) as usize;
                let j = rng.below(toks.len() as u64) as usize;
                toks.swap(i, j);
            }
        }
        let mut src = join(&toks, if rng.bool() { Ws::None } else { Ws::Random }, Ent::Random, &mut rng);
        if rng.chance(1, 6) && !src.is_empty() {
            // character-level damage (also cuts entities in half)
            let i = rng.below(src.len() as u64) as usize;
            src.remove(i);
        }
        let env = env_for(&mut rng, &fv, &t);
        do_any(&mut cx, &src, &env, "malformed");
    }
    for src in ["", " ", "1 2", "(1))", "+-1", "-+1", "++1", "1 +", "0x", "9223372036854775808", "0x8000000000000000", "1.2.3", ".", "..", "1e5",
        "PI(1)", "FOO(1)", "SIN 1", "SIN()", "a ? b", "a ? b : ", "1 &amp;amp; 1", "&am", "&lt", "1 &", "1 $", "1 2 $", "_a", "a..b", "0X1F", "1.e", "0x1G", "2 * 1e3", "1.5E3 + 1", "0X10", "(1)) + 5", "1e", "1e+", ".e5", "2E", "1 e5", "0x10000000000000000", "+ + 1", "+~1", "a ** +b", "1.5e3.2", "1e5e5", "(((((1)))))", "- - - 1", "~~~1", "1 ? 2 : 3 ? 4 : 5"] {
        do_any(&mut cx, src, &vec![], "malformed-fixed");
    }

    // ---- 7. syntax of the standard that the reference grammar above does not cover --------
    probe_syntax(&mut cx, "ROUND(1.5, 0)");

    cx.flush();
    cx.rep.extra.insert("grammar_table".into(), json!(TABLE.iter().map(|t| json!([t.0, format!("{:?}", t.1), t.2])).collect::<Vec<_>>()));
    cx.rep.write(&args);
}

/// Forms the GenApi standard defines that the implementation's grammar has no production for.
fn probe_syntax(cx: &mut Ctx, src: &str) {
    if src.starts_with("ROUND(") && src.contains(',') {
        cx.rep.count("probe/ROUND-two-arguments");
        let imp = run_impl(src, &HashMap::new());
        if imp.is_none() {
            cx.rep.violation(json!({"kind": "unsupported-syntax", "form": "ROUND(x,precision)"}),
                "the standard's two-argument ROUND(x, precision) is rejected (parser panics on ',')",
                json!({"formula": src, "env": "-"}));
        }
    }
}
