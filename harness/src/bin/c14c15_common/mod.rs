//! Minimal scripted in-memory U3V device for C14 / C15: a conforming GenCP endpoint over a
//! region memory map, with an access log and single-shot failure injection.
//! (Independent of `ctrl_common/`, which serves C06/C07.)
#![allow(dead_code)]

use std::collections::VecDeque;
use std::sync::{Arc, Mutex};
use std::time::Duration;

use cameleon::u3v::ControlHandle;
use cameleon::ControlError;
use cameleon_device::u3v::verif::{VerifPoll, VerifUsb};
use cameleon_device::u3v::{
    BusSpeed, ControlIfaceInfo, Device, DeviceInfo, LibUsbError, ReceiveIfaceInfo,
};

pub const MAGIC: u32 = 0x4356_3355;
pub const CMD_READ_MEM: u16 = 0x0800;
pub const CMD_WRITE_MEM: u16 = 0x0802;
pub const STATUS_INVALID_ADDRESS: u16 = 0x8003;
pub const STATUS_ACCESS_DENIED: u16 = 0x8006;

pub const ABRM_BASE: u64 = 0x01C4; // first bootstrap register the host touches
pub const ABRM_LEN: usize = 0x1C; // .. up to and including SBRM_ADDRESS
pub const SBRM_LEN: usize = 0x44;
pub const SIRM_LEN: usize = 0x30;

#[derive(Clone, Debug)]
pub struct Region {
    pub base: u64,
    pub data: Vec<u8>,
}

/// What happens to the faulted access.
#[derive(Clone, Debug, PartialEq)]
pub enum FaultKind {
    /// The device answers with a GenCP error status; the access is not performed.
    Status(u16),
    /// `write_bulk` fails: the command never reaches the device.
    UsbSend(&'static str),
    /// The device performs the access but the acknowledge is lost (`read_bulk` fails).
    UsbRecv(&'static str),
}

impl FaultKind {
    /// `<kind>:<applied>` as understood by the Lean drivers.
    pub fn spec(&self) -> String {
        match self {
            FaultKind::Status(_) => "status:0".into(),
            FaultKind::UsbSend(n) => format!("{n}:0"),
            FaultKind::UsbRecv(n) => format!("{n}:1"),
        }
    }
}

pub fn usb_err(name: &str) -> LibUsbError {
    match name {
        "Io" => LibUsbError::Io,
        "Pipe" => LibUsbError::Pipe,
        "Overflow" => LibUsbError::Overflow,
        "Other" => LibUsbError::Other,
        "Busy" => LibUsbError::Busy,
        "NoDevice" => LibUsbError::NoDevice,
        "NotFound" => LibUsbError::NotFound,
        "Timeout" => LibUsbError::Timeout,
        _ => panic!("unknown usb error name {name}"),
    }
}

pub const USB_ERR_NAMES: [&str; 8] = [
    "Io", "Pipe", "Overflow", "Other", "Busy", "NoDevice", "NotFound", "Timeout",
];

#[derive(Clone, Debug, PartialEq)]
pub enum Acc {
    R { addr: u64, len: u16, ok: bool },
    W { addr: u64, data: Vec<u8>, ok: bool, applied: bool },
}

impl Acc {
    pub fn show(&self) -> String {
        match self {
            Acc::R { addr, len, ok } => format!("r{addr}:{len}{}", if *ok { "" } else { "!" }),
            Acc::W { addr, data, ok, applied } => format!(
                "w{addr}:{}{}",
                camharness::hex(data),
                if *ok { "" } else if *applied { "!a" } else { "!" }
            ),
        }
    }
}

pub fn show_log(log: &[Acc]) -> String {
    format!("[{}]", log.iter().map(Acc::show).collect::<Vec<_>>().join(","))
}

struct Inner {
    regions: Vec<Region>,
    acks: VecDeque<Vec<u8>>,
    recv_err: Option<&'static str>,
    log: Vec<Acc>,
    n_access: usize,
    fault: Option<(usize, FaultKind)>,
    malformed_cmds: usize,
    /// (endpoint, length) of every bulk-in transfer submitted on a receive channel
    submitted: Vec<(u8, usize)>,
    next_transfer: u64,
    /// (address of SI_CONTROL, address, data): registers the device keeps frozen while the stream
    /// is enabled and publishes as soon as a write clears the stream-enable bit
    publish_on_disable: Option<(u64, u64, Vec<u8>)>,
}

impl Inner {
    fn find(&self, addr: u64, len: usize) -> Option<(usize, usize)> {
        let end = addr as u128 + len as u128;
        self.regions.iter().enumerate().find_map(|(i, r)| {
            (addr >= r.base && end <= r.base as u128 + r.data.len() as u128)
                .then(|| (i, (addr - r.base) as usize))
        })
    }
}

pub struct FakeUsb(Mutex<Inner>);

fn ack(status: u16, ack_id: u16, req_id: u16, scd: &[u8]) -> Vec<u8> {
    let mut v = Vec::with_capacity(12 + scd.len());
    v.extend_from_slice(&MAGIC.to_le_bytes());
    v.extend_from_slice(&status.to_le_bytes());
    v.extend_from_slice(&ack_id.to_le_bytes());
    v.extend_from_slice(&(scd.len() as u16).to_le_bytes());
    v.extend_from_slice(&req_id.to_le_bytes());
    v.extend_from_slice(scd);
    v
}

impl FakeUsb {
    pub fn new(regions: Vec<Region>) -> Arc<Self> {
        Arc::new(FakeUsb(Mutex::new(Inner {
            regions,
            acks: VecDeque::new(),
            recv_err: None,
            log: vec![],
            n_access: 0,
            fault: None,
            malformed_cmds: 0,
            submitted: vec![],
            next_transfer: 0,
            publish_on_disable: None,
        })))
    }
    /// Start a new observed operation: empty log, access counter 0, optional fault.
    pub fn arm(&self, fault: Option<(usize, FaultKind)>) {
        let mut g = self.0.lock().unwrap();
        g.log.clear();
        g.n_access = 0;
        g.fault = fault;
        g.acks.clear();
        g.recv_err = None;
    }
    pub fn take_log(&self) -> Vec<Acc> {
        std::mem::take(&mut self.0.lock().unwrap().log)
    }
    pub fn regions(&self) -> Vec<Region> {
        self.0.lock().unwrap().regions.clone()
    }
    /// The device holds back a register update until the host disables the stream.
    pub fn publish_on_disable(&self, si_control: u64, addr: u64, data: Vec<u8>) {
        self.0.lock().unwrap().publish_on_disable = Some((si_control, addr, data));
    }
    /// Lengths of the stream transfers submitted so far; `clear` empties the ledger.
    pub fn submitted(&self, clear: bool) -> Vec<(u8, usize)> {
        let mut g = self.0.lock().unwrap();
        if clear {
            std::mem::take(&mut g.submitted)
        } else {
            g.submitted.clone()
        }
    }
    pub fn malformed_cmds(&self) -> usize {
        self.0.lock().unwrap().malformed_cmds
    }
    /// Overwrite bytes of the device image from outside (device-side change between sessions).
    pub fn poke(&self, addr: u64, data: &[u8]) -> bool {
        let mut g = self.0.lock().unwrap();
        match g.find(addr, data.len()) {
            Some((i, o)) => {
                g.regions[i].data[o..o + data.len()].copy_from_slice(data);
                true
            }
            None => false,
        }
    }
    /// Bytes of the device image (None when not fully mapped).
    pub fn peek(&self, addr: u64, len: usize) -> Option<Vec<u8>> {
        let g = self.0.lock().unwrap();
        g.find(addr, len).map(|(i, o)| g.regions[i].data[o..o + len].to_vec())
    }
}

impl VerifUsb for FakeUsb {
    fn claim_interface(&self, _iface: u8) -> Result<(), LibUsbError> {
        Ok(())
    }
    fn release_interface(&self, _iface: u8) -> Result<(), LibUsbError> {
        Ok(())
    }
    fn read_bulk(&self, _ep: u8, buf: &mut [u8], _t: Duration) -> Result<usize, LibUsbError> {
        let mut g = self.0.lock().unwrap();
        if let Some(e) = g.recv_err.take() {
            return Err(usb_err(e));
        }
        match g.acks.pop_front() {
            None => Err(LibUsbError::Timeout),
            Some(a) if a.len() > buf.len() => Err(LibUsbError::Overflow),
            Some(a) => {
                buf[..a.len()].copy_from_slice(&a);
                Ok(a.len())
            }
        }
    }
    fn write_bulk(&self, _ep: u8, buf: &[u8], _t: Duration) -> Result<usize, LibUsbError> {
        let mut g = self.0.lock().unwrap();
        let le16 = |o: usize| u16::from_le_bytes([buf[o], buf[o + 1]]);
        if buf.len() < 12 || u32::from_le_bytes([buf[0], buf[1], buf[2], buf[3]]) != MAGIC {
            g.malformed_cmds += 1;
            return Ok(buf.len());
        }
        let (cmd_id, scd_len, req_id) = (le16(6), le16(8) as usize, le16(10));
        let scd = &buf[12..];
        if scd.len() != scd_len
            || !(cmd_id == CMD_READ_MEM && scd_len == 12 || cmd_id == CMD_WRITE_MEM && scd_len >= 8)
        {
            g.malformed_cmds += 1;
            return Ok(buf.len());
        }
        let addr = u64::from_le_bytes(scd[0..8].try_into().unwrap());
        let idx = g.n_access;
        g.n_access += 1;
        let fault = match &g.fault {
            Some((k, f)) if *k == idx => Some(f.clone()),
            _ => None,
        };
        if cmd_id == CMD_READ_MEM {
            let len = u16::from_le_bytes([scd[10], scd[11]]);
            let place = g.find(addr, len as usize);
            match fault {
                Some(FaultKind::Status(code)) => {
                    g.log.push(Acc::R { addr, len, ok: false });
                    g.acks.push_back(ack(code, cmd_id + 1, req_id, &[]));
                }
                Some(FaultKind::UsbSend(e)) => {
                    g.log.push(Acc::R { addr, len, ok: false });
                    return Err(usb_err(e));
                }
                Some(FaultKind::UsbRecv(e)) => {
                    g.log.push(Acc::R { addr, len, ok: false });
                    g.recv_err = Some(e);
                }
                None => match place {
                    Some((i, o)) => {
                        g.log.push(Acc::R { addr, len, ok: true });
                        let data = g.regions[i].data[o..o + len as usize].to_vec();
                        g.acks.push_back(ack(0, cmd_id + 1, req_id, &data));
                    }
                    None => {
                        g.log.push(Acc::R { addr, len, ok: false });
                        g.acks.push_back(ack(STATUS_INVALID_ADDRESS, cmd_id + 1, req_id, &[]));
                    }
                },
            }
        } else {
            let data = scd[8..].to_vec();
            let place = g.find(addr, data.len());
            let mut apply = |g: &mut Inner| {
                if let Some((i, o)) = place {
                    g.regions[i].data[o..o + data.len()].copy_from_slice(&data);
                    // a write that clears the stream-enable bit lets the device publish the
                    // registers it kept frozen while streaming
                    if let Some((ctrl, pa, pd)) = g.publish_on_disable.clone() {
                        if addr <= ctrl && ctrl < addr + data.len() as u64 && data[(ctrl - addr) as usize] & 1 == 0 {
                            if let Some((pi, po)) = g.find(pa, pd.len()) {
                                g.regions[pi].data[po..po + pd.len()].copy_from_slice(&pd);
                            }
                            g.publish_on_disable = None;
                        }
                    }
                    true
                } else {
                    false
                }
            };
            match fault {
                Some(FaultKind::Status(code)) => {
                    g.log.push(Acc::W { addr, data: data.clone(), ok: false, applied: false });
                    g.acks.push_back(ack(code, cmd_id + 1, req_id, &[]));
                }
                Some(FaultKind::UsbSend(e)) => {
                    g.log.push(Acc::W { addr, data: data.clone(), ok: false, applied: false });
                    return Err(usb_err(e));
                }
                Some(FaultKind::UsbRecv(e)) => {
                    let applied = apply(&mut g);
                    g.log.push(Acc::W { addr, data: data.clone(), ok: false, applied });
                    g.recv_err = Some(e);
                }
                None => {
                    if apply(&mut g) {
                        g.log.push(Acc::W { addr, data: data.clone(), ok: true, applied: true });
                        let mut scd = vec![0u8, 0];
                        scd.extend_from_slice(&(data.len() as u16).to_le_bytes());
                        g.acks.push_back(ack(0, cmd_id + 1, req_id, &scd));
                    } else {
                        g.log.push(Acc::W { addr, data: data.clone(), ok: false, applied: false });
                        g.acks.push_back(ack(STATUS_INVALID_ADDRESS, cmd_id + 1, req_id, &[]));
                    }
                }
            }
        }
        Ok(buf.len())
    }
    fn clear_halt(&self, _ep: u8) -> Result<(), LibUsbError> {
        Ok(())
    }
    fn write_control(&self, _rt: u8, _r: u8, _v: u16, _i: u16, buf: &[u8], _t: Duration) -> Result<usize, LibUsbError> {
        Ok(buf.len())
    }
    // the camera never sends a frame: every transfer is recorded and times out
    fn submit_bulk(&self, ep: u8, len: usize) -> Result<u64, LibUsbError> {
        let mut g = self.0.lock().unwrap();
        g.submitted.push((ep, len));
        g.next_transfer += 1;
        Ok(g.next_transfer)
    }
    fn poll_bulk(&self, _id: u64, _t: Duration) -> VerifPoll {
        std::thread::sleep(Duration::from_micros(100));
        VerifPoll::Completed(Err(LibUsbError::Timeout))
    }
    fn cancel_bulk(&self, _id: u64) {}
}

pub fn device_info() -> DeviceInfo {
    DeviceInfo {
        gencp_version: semver::Version::new(1, 0, 0),
        u3v_version: semver::Version::new(1, 0, 0),
        guid: "AAAA00000001".into(),
        vendor_name: "verif".into(),
        model_name: "fake".into(),
        family_name: None,
        device_version: "1".into(),
        manufacturer_info: "".into(),
        serial_number: "1".into(),
        user_defined_name: None,
        supported_speed: BusSpeed::SuperSpeed,
    }
}

/// ABRM fragment `[0x1C4, 0x1E0)`: capability, max response time, manifest table, SBRM address.
pub fn abrm_region(capability: u64, response_ms: u32, manifest_addr: u64, sbrm_addr: u64) -> Region {
    let mut d = vec![];
    d.extend_from_slice(&capability.to_le_bytes());
    d.extend_from_slice(&response_ms.to_le_bytes());
    d.extend_from_slice(&manifest_addr.to_le_bytes());
    d.extend_from_slice(&sbrm_addr.to_le_bytes());
    assert_eq!(d.len(), ABRM_LEN);
    Region { base: ABRM_BASE, data: d }
}

/// SBRM with the registers the host uses; everything else zero.
pub fn sbrm_region(base: u64, u3vcp_capability: u64, max_cmd: u32, max_ack: u32, sirm_addr: u64) -> Region {
    let mut d = vec![0u8; SBRM_LEN];
    d[0..4].copy_from_slice(&0x0001_0000u32.to_le_bytes());
    d[0x04..0x0C].copy_from_slice(&u3vcp_capability.to_le_bytes());
    d[0x14..0x18].copy_from_slice(&max_cmd.to_le_bytes());
    d[0x18..0x1C].copy_from_slice(&max_ack.to_le_bytes());
    d[0x1C..0x20].copy_from_slice(&1u32.to_le_bytes());
    d[0x20..0x28].copy_from_slice(&sirm_addr.to_le_bytes());
    d[0x28..0x2C].copy_from_slice(&(SIRM_LEN as u32).to_le_bytes());
    Region { base, data: d }
}

pub const STREAM_EP: u8 = 0x82;

/// Build the device + an opened control handle over the fake.  `Err` = open failed / panicked.
pub fn open_handle(usb: &Arc<FakeUsb>) -> Result<ControlHandle, String> {
    open_both(usb).map(|x| x.0)
}

/// Control handle and (opened) stream handle of the same device.
pub fn open_both(usb: &Arc<FakeUsb>) -> Result<(ControlHandle, cameleon::u3v::StreamHandle), String> {
    use cameleon::{DeviceControl, PayloadStream};
    let dev = Device::verif_new(
        usb.clone(),
        ControlIfaceInfo { iface_number: 0, bulk_in_ep: 0x81, bulk_out_ep: 0x01 },
        None,
        Some(ReceiveIfaceInfo { iface_number: 1, bulk_in_ep: STREAM_EP }),
        device_info(),
    );
    let r = camharness::catch(|| {
        let mut h = ControlHandle::verif_new(&dev).map_err(|e| format!("new: {e}"))?;
        h.open().map_err(|e| format!("open: {e}"))?;
        let mut strm = cameleon::u3v::StreamHandle::verif_new(&dev)
            .map_err(|e| format!("stream new: {e}"))?
            .ok_or("no stream channel")?;
        strm.open().map_err(|e| format!("stream open: {e}"))?;
        Ok::<_, String>((h, strm))
    });
    match r {
        Ok(r) => r,
        Err(()) => Err("panic in open".into()),
    }
}

pub fn ctrl_err_name(e: &ControlError) -> &'static str {
    match e {
        ControlError::Busy => "Busy",
        ControlError::Disconnected => "Disconnected",
        ControlError::Io(_) => "Io",
        ControlError::Timeout => "Timeout",
        ControlError::NotOpened => "NotOpened",
        ControlError::InvalidDevice(_) => "InvalidDevice",
        ControlError::BufferTooSmall => "BufferTooSmall",
        ControlError::InvalidData(_) => "InvalidData",
    }
}
