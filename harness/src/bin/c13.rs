//! C13 — bootstrap register accessors of `cameleon/src/u3v/register_map.rs`.
//!
//! Every public accessor of `Abrm`/`Sbrm`/`Sirm`/`ManifestTable`/`ManifestEntry` is run
//! against a recording in-memory `DeviceControl` (pseudo-random image over the whole
//! 64-bit address space + structured patches), and its canonicalised answer
//! (`value-or-error | access log`) is compared with
//!  * the **property oracle**: an independent Rust-side expectation computed from the
//!    `SPEC` table below (my transcription of the GenCP / USB3 Vision register tables):
//!    right address, right length, little-endian decode, capability guard, no panic;
//!  * the **Lean model** (`drv_c13`, `CamVerif.Model.RegMap` driven by the generated
//!    accessor table `CamVerif.Gen.RegMap`).
//!
//! Every accessor is also run on a SECOND `DeviceControl` implementation, the scripted stateful
//! device `ScriptDev` (history-dependent contents, periodic failures with varying error values,
//! short reads), and compared with the model's accessors over an arbitrary device (`accg`
//! requests: `runNamedG` / `RRow.runG` of `Proofs/C13Struct.lean` / `Proofs/C13More.lean`);
//! oracle there: the device's error is returned unchanged, no call after it, no panic.

use camharness::*;
use cameleon::u3v::register_map::*;
use cameleon::{ControlError, ControlResult, DeviceControl};

// ---------------------------------------------------------------------------------------
// memory image + recording device
// ---------------------------------------------------------------------------------------

/// Byte of the background image at address `a` (shared with the Lean driver).
fn noise(seed: u64, a: u64) -> u8 {
    let mut z = seed ^ a.wrapping_mul(0x9E37_79B9_7F4A_7C15);
    z = (z ^ (z >> 30)).wrapping_mul(0xBF58_476D_1CE4_E5B9);
    z = (z ^ (z >> 27)).wrapping_mul(0x94D0_49BB_1331_11EB);
    ((z ^ (z >> 31)) >> 56) as u8
}

#[derive(Clone, Default)]
struct Image {
    seed: u64,
    /// patches; a later segment overrides an earlier one
    segs: Vec<(u64, Vec<u8>)>,
}

impl Image {
    fn byte(&self, a: u64) -> u8 {
        for (s, d) in self.segs.iter().rev() {
            if a >= *s && a - *s < d.len() as u64 {
                return d[(a - *s) as usize];
            }
        }
        noise(self.seed, a)
    }
    fn bytes(&self, a: u64, len: usize) -> Vec<u8> {
        (0..len as u64).map(|i| self.byte(a.wrapping_add(i))).collect()
    }
    fn patch(&mut self, a: u64, d: &[u8]) {
        // patches never wrap around the end of the address space
        let room = (u64::MAX - a) as u128 + 1;
        let n = (d.len() as u128).min(room) as usize;
        if n > 0 {
            self.segs.push((a, d[..n].to_vec()));
        }
    }
    fn wire(&self) -> String {
        let segs = if self.segs.is_empty() {
            "-".to_string()
        } else {
            self.segs.iter().map(|(a, d)| format!("{a}:{}", hex(d))).collect::<Vec<_>>().join(",")
        };
        format!("c13 img {} {}", self.seed, segs)
    }
    fn json(&self) -> Value {
        json!({"seed": self.seed.to_string(),
               "segs": self.segs.iter().map(|(a, d)| json!([a.to_string(), hex(d)])).collect::<Vec<_>>()})
    }
    fn from_json(v: &Value) -> Image {
        Image {
            seed: v["seed"].as_str().unwrap().parse().unwrap(),
            segs: v["segs"].as_array().unwrap().iter()
                .map(|s| (s[0].as_str().unwrap().parse().unwrap(), unhex(s[1].as_str().unwrap()))).collect(),
        }
    }
}

#[derive(Clone, PartialEq, Debug)]
struct Access {
    write: bool,
    addr: u64,
    len: usize,
    /// `None` = the device rejected the access
    data: Option<Vec<u8>>,
}

fn show_log(log: &[Access]) -> String {
    if log.is_empty() {
        return "-".into();
    }
    log.iter()
        .map(|a| {
            format!("{}:{}:{}:{}", if a.write { "W" } else { "R" }, a.addr, a.len,
                match &a.data { Some(d) => hex(d), None => "!".into() })
        })
        .collect::<Vec<_>>()
        .join(",")
}

/// Recording device.  Rejects (with `ControlError::Disconnected`) every access when
/// `broken`, and any access that runs past the end of the 64-bit address space.
struct RecDev {
    img: Image,
    log: Vec<Access>,
    broken: bool,
}

impl RecDev {
    fn new(img: &Image, broken: bool) -> Self {
        RecDev { img: img.clone(), log: vec![], broken }
    }
    fn rejects(&self, address: u64, len: usize) -> bool {
        self.broken || address as u128 + len as u128 > 1u128 << 64
    }
}

impl DeviceControl for RecDev {
    fn open(&mut self) -> ControlResult<()> { Ok(()) }
    fn close(&mut self) -> ControlResult<()> { Ok(()) }
    fn is_opened(&self) -> bool { true }
    fn read(&mut self, address: u64, buf: &mut [u8]) -> ControlResult<()> {
        if self.rejects(address, buf.len()) {
            self.log.push(Access { write: false, addr: address, len: buf.len(), data: None });
            return Err(ControlError::Disconnected);
        }
        let d = self.img.bytes(address, buf.len());
        buf.copy_from_slice(&d);
        self.log.push(Access { write: false, addr: address, len: buf.len(), data: Some(d) });
        Ok(())
    }
    fn write(&mut self, address: u64, data: &[u8]) -> ControlResult<()> {
        if self.rejects(address, data.len()) {
            self.log.push(Access { write: true, addr: address, len: data.len(), data: None });
            return Err(ControlError::Disconnected);
        }
        self.img.patch(address, data);
        self.log.push(Access { write: true, addr: address, len: data.len(), data: Some(data.to_vec()) });
        Ok(())
    }
    fn genapi(&mut self) -> ControlResult<String> { Err(ControlError::NotOpened) }
    fn enable_streaming(&mut self) -> ControlResult<()> { Err(ControlError::NotOpened) }
    fn disable_streaming(&mut self) -> ControlResult<()> { Err(ControlError::NotOpened) }
}

/// Device answering every read with the LE image of one u64 (to build receivers with a
/// chosen capability word / `DeviceConfiguration` without touching the image under test).
struct ConstDev(u64);
impl DeviceControl for ConstDev {
    fn open(&mut self) -> ControlResult<()> { Ok(()) }
    fn close(&mut self) -> ControlResult<()> { Ok(()) }
    fn is_opened(&self) -> bool { true }
    fn read(&mut self, _: u64, buf: &mut [u8]) -> ControlResult<()> {
        let b = self.0.to_le_bytes();
        for (i, x) in buf.iter_mut().enumerate() {
            *x = b[i % 8];
        }
        Ok(())
    }
    fn write(&mut self, _: u64, _: &[u8]) -> ControlResult<()> { Ok(()) }
    fn genapi(&mut self) -> ControlResult<String> { Err(ControlError::NotOpened) }
    fn enable_streaming(&mut self) -> ControlResult<()> { Err(ControlError::NotOpened) }
    fn disable_streaming(&mut self) -> ControlResult<()> { Err(ControlError::NotOpened) }
}

/// Second `DeviceControl` implementation (mirror of `scriptDev` in lean/Driver/C13.lean): a
/// STATEFUL device, nothing like a memory.  Call number `n` (counted from `n0`) fails iff
/// `k > 0 && n % k == 0`, with an error value that varies with `n / k`; a successful read
/// delivers only `min(len, short)` bytes (the rest of the caller's buffer is left alone) and
/// byte `i` is `noise(seed ^ n, addr + i) & mask`, i.e. the contents depend on the history.
/// The real accessors run on it are compared with the model's accessors over an ARBITRARY
/// device (`runNamedG` / `RRow.runG`) instantiated with the same script.
struct ScriptDev {
    seed: u64,
    k: u64,
    short: usize,
    mask: u8,
    n: u64,
    log: Vec<Access>,
    /// the first error this device returned, and how many calls were made after it
    failed: Option<&'static str>,
    after_failure: u32,
}

impl ScriptDev {
    fn step(&mut self) -> Result<u64, ControlError> {
        if self.failed.is_some() {
            self.after_failure += 1;
        }
        self.n += 1;
        if self.k > 0 && self.n % self.k == 0 {
            let (e, name) = match (self.n / self.k) % 3 {
                0 => (ControlError::Busy, "Busy"),
                1 => (ControlError::Timeout, "Timeout"),
                _ => (ControlError::Disconnected, "Disconnected"),
            };
            if self.failed.is_none() {
                self.failed = Some(name);
            }
            return Err(e);
        }
        Ok(self.n)
    }
}

impl DeviceControl for ScriptDev {
    fn open(&mut self) -> ControlResult<()> { Ok(()) }
    fn close(&mut self) -> ControlResult<()> { Ok(()) }
    fn is_opened(&self) -> bool { true }
    fn read(&mut self, address: u64, buf: &mut [u8]) -> ControlResult<()> {
        match self.step() {
            Err(e) => {
                self.log.push(Access { write: false, addr: address, len: buf.len(), data: None });
                Err(e)
            }
            Ok(n) => {
                let m = buf.len().min(self.short);
                for (i, x) in buf[..m].iter_mut().enumerate() {
                    *x = noise(self.seed ^ n, address.wrapping_add(i as u64)) & self.mask;
                }
                self.log.push(Access { write: false, addr: address, len: buf.len(), data: Some(buf[..m].to_vec()) });
                Ok(())
            }
        }
    }
    fn write(&mut self, address: u64, data: &[u8]) -> ControlResult<()> {
        match self.step() {
            Err(e) => {
                self.log.push(Access { write: true, addr: address, len: data.len(), data: None });
                Err(e)
            }
            Ok(_) => {
                self.log.push(Access { write: true, addr: address, len: data.len(), data: Some(data.to_vec()) });
                Ok(())
            }
        }
    }
    fn genapi(&mut self) -> ControlResult<String> { Err(ControlError::NotOpened) }
    fn enable_streaming(&mut self) -> ControlResult<()> { Err(ControlError::NotOpened) }
    fn disable_streaming(&mut self) -> ControlResult<()> { Err(ControlError::NotOpened) }
}

// ---------------------------------------------------------------------------------------
// canonicalisation of the implementation's values
// ---------------------------------------------------------------------------------------

fn err_name(e: &ControlError) -> &'static str {
    match e {
        ControlError::Busy => "Busy",
        ControlError::Disconnected => "Disconnected",
        ControlError::Io(_) => "Io",
        ControlError::Timeout => "Timeout",
        ControlError::NotOpened => "NotOpened",
        ControlError::InvalidDevice(_) => "InvalidDevice",
        ControlError::BufferTooSmall => "BufferTooSmall",
        ControlError::InvalidData(_) => "InvalidData",
    }
}

/// All decimal numbers in a `Debug` rendering (the structs have private fields only).
fn nums(dbg: &str) -> Vec<u64> {
    let mut out = vec![];
    let mut cur = String::new();
    for c in dbg.chars().chain(" ".chars()) {
        if c.is_ascii_digit() {
            cur.push(c);
        } else {
            // skip digits that are part of an identifier such as `U3VCapablitiy`
            if !cur.is_empty() {
                out.push(cur.parse().unwrap());
                cur.clear();
            }
        }
    }
    out
}

fn dbg_nums<T: std::fmt::Debug>(t: &T, strip: &[&str]) -> Vec<u64> {
    let mut s = format!("{:?}", t);
    for p in strip {
        s = s.replace(p, "");
    }
    nums(&s)
}

fn b(x: bool) -> &'static str { if x { "1" } else { "0" } }

fn c_ver(v: semver::Version) -> String { format!("v:{}.{}.{}", v.major, v.minor, v.patch) }
fn c_str(s: String) -> String { format!("s:{}", hex(s.as_bytes())) }
fn c_opt<T>(o: Option<T>, f: impl Fn(T) -> String) -> String {
    match o { None => "none".into(), Some(t) => format!("some {}", f(t)) }
}
fn c_dur(d: std::time::Duration) -> String { format!("ns:{}", d.as_nanos()) }
fn c_cfg(c: DeviceConfiguration) -> String {
    format!("cfg:{}:{}", dbg_nums(&c, &[])[0], b(c.is_multi_event_enabled()))
}
fn c_dcap(c: DeviceCapability) -> String {
    format!("dcap:{}:{}{}{}{}{}", dbg_nums(&c, &[])[0], b(c.is_user_defined_name_supported()),
        b(c.is_family_name_supported()), b(c.is_multi_event_supported()),
        b(c.is_stacked_commands_supported()), b(c.is_device_software_interface_version_supported()))
}
fn c_ucap(c: U3VCapablitiy) -> String {
    format!("ucap:{}:{}{}{}", dbg_nums(&c, &["U3VCapablitiy"])[0], b(c.is_sirm_available()),
        b(c.is_eirm_available()), b(c.is_iidc2_available()))
}
fn c_fi(f: GenICamFileInfo) -> String {
    let ft = match f.file_type() { Ok(t) => format!("{:?}", t), Err(e) => format!("err-{}", err_name(&e)) };
    let ct = match f.compression_type() { Ok(t) => format!("{:?}", t), Err(e) => format!("err-{}", err_name(&e)) };
    format!("fi:{}:{}:{}", ft, ct, c_ver(f.schema_version()))
}
fn c_abrm(a: Abrm) -> String { format!("abrm:{}", dbg_nums(&a, &[])[0]) }
fn c_sbrm(s: Sbrm) -> String {
    let n = dbg_nums(&s, &["U3VCapablitiy"]);
    format!("sbrm:{}:{}", n[0], n[1])
}
fn c_sirm(s: Sirm) -> String { format!("sirm:{}", dbg_nums(&s, &[])[0]) }
fn c_table(t: ManifestTable) -> String { format!("mt:{}", dbg_nums(&t, &[])[0]) }
const ENTRIES_SHOWN: usize = 3;
/// Tables of at most this many entries are walked to their LAST entry (the return type
/// `impl Iterator` hides `DoubleEndedIterator::next_back`, and `Map<Range<u64>>` has no O(1)
/// `nth`/`last`, so the last entry of a huge table cannot be observed cheaply).
const ENTRIES_WALKED: u64 = 1 << 16;
fn c_entries(mut it: impl Iterator<Item = ManifestEntry>) -> String {
    let (n, count) = match it.size_hint() { (lo, Some(hi)) if lo == hi => (hi.to_string(), Some(hi as u64)), _ => ("?".into(), None) };
    let firsts: Vec<String> = it.by_ref().take(ENTRIES_SHOWN).map(|e| dbg_nums(&e, &[])[0].to_string()).collect();
    let last = match count {
        Some(c) if c > ENTRIES_SHOWN as u64 && c <= ENTRIES_WALKED => it.last().map_or("-".into(), |e| dbg_nums(&e, &[])[0].to_string()),
        _ => "-".into(),
    };
    format!("entries:{}:{}:{}", n, if firsts.is_empty() { "-".into() } else { firsts.join(",") }, last)
}

// ---------------------------------------------------------------------------------------
// calling the real accessors
// ---------------------------------------------------------------------------------------

#[derive(Clone, Debug, PartialEq)]
enum Arg {
    None,
    U32(u32),
    Str(String),
    /// raw `DeviceConfiguration` value and the pure operation applied before writing:
    /// 0 = none, 1 = set_multi_event_enable_bit, 2 = disable_multi_event
    Cfg(u64, u8),
}

impl Arg {
    fn wire(&self) -> String {
        match self {
            Arg::None => "-".into(),
            Arg::U32(n) => format!("n:{n}"),
            Arg::Str(s) => format!("s:{}", hex(s.as_bytes())),
            Arg::Cfg(raw, op) => format!("cfg:{raw}:{op}"),
        }
    }
    fn parse(s: &str) -> Arg {
        if s == "-" {
            Arg::None
        } else if let Some(n) = s.strip_prefix("n:") {
            Arg::U32(n.parse().unwrap())
        } else if let Some(h) = s.strip_prefix("s:") {
            Arg::Str(String::from_utf8(unhex(h)).unwrap())
        } else {
            let p: Vec<&str> = s.split(':').collect();
            Arg::Cfg(p[1].parse().unwrap(), p[2].parse().unwrap())
        }
    }
}

fn mk_abrm(cap: u64) -> Abrm { Abrm::new(&mut ConstDev(cap)).unwrap() }
fn mk_cfg(raw: u64, op: u8) -> DeviceConfiguration {
    let mut c = mk_abrm(0).device_configuration(&mut ConstDev(raw)).unwrap();
    match op {
        1 => c.set_multi_event_enable_bit(),
        2 => c.disable_multi_event(),
        _ => {}
    }
    c
}

/// Names of every accessor this harness exercises, in `Type.method` form.
const ALL: &[&str] = &[
    "Abrm.new", "Abrm.sbrm", "Abrm.manifest_table", "Abrm.gencp_version", "Abrm.manufacturer_name",
    "Abrm.model_name", "Abrm.family_name", "Abrm.device_version", "Abrm.manufacturer_info",
    "Abrm.serial_number", "Abrm.user_defined_name", "Abrm.set_user_defined_name",
    "Abrm.manifest_table_address", "Abrm.sbrm_address", "Abrm.timestamp", "Abrm.set_timestamp_latch_bit",
    "Abrm.timestamp_increment", "Abrm.device_software_interface_version",
    "Abrm.maximum_device_response_time", "Abrm.device_capability", "Abrm.device_configuration",
    "Abrm.write_device_configuration",
    "Sbrm.new", "Sbrm.u3v_version", "Sbrm.maximum_command_transfer_length",
    "Sbrm.maximum_acknowledge_trasfer_length", "Sbrm.number_of_stream_channel", "Sbrm.sirm",
    "Sbrm.sirm_address", "Sbrm.sirm_length", "Sbrm.eirm_address", "Sbrm.eirm_length",
    "Sbrm.iidc2_address", "Sbrm.current_speed", "Sbrm.u3v_capability",
    "Sirm.new", "Sirm.payload_size_alignment", "Sirm.enable_stream", "Sirm.disable_stream",
    "Sirm.is_stream_enable", "Sirm.required_payload_size", "Sirm.required_leader_size",
    "Sirm.required_trailer_size", "Sirm.maximum_leader_size", "Sirm.set_maximum_leader_size",
    "Sirm.maximum_trailer_size", "Sirm.set_maximum_trailer_size", "Sirm.payload_transfer_size",
    "Sirm.set_payload_transfer_size", "Sirm.payload_transfer_count", "Sirm.set_payload_transfer_count",
    "Sirm.payload_final_transfer1_size", "Sirm.set_payload_final_transfer1_size",
    "Sirm.payload_final_transfer2_size", "Sirm.set_payload_final_transfer2_size",
    "ManifestTable.new", "ManifestTable.entries",
    "ManifestEntry.new", "ManifestEntry.genicam_file_version", "ManifestEntry.file_address",
    "ManifestEntry.file_size", "ManifestEntry.file_info", "ManifestEntry.sha1_hash",
];

/// Run one real accessor.  `base`/`cap` describe the receiver (`Abrm`: cap = device
/// capability word; `Sbrm`: base + U3V capability word; others: base).
/// `None` = receiver cannot be constructed (Sbrm whose capability register is unaddressable).
fn call<D: DeviceControl>(name: &str, base: u64, cap: u64, arg: &Arg, dev: &mut D) -> Option<ControlResult<String>> {
    let (ty, m) = name.split_once('.').unwrap();
    let u = |a: &Arg| match a { Arg::U32(n) => *n, _ => panic!("harness: u32 argument expected") };
    Some(match ty {
        "Abrm" => {
            if m == "new" {
                return Some(Abrm::new(dev).map(c_abrm));
            }
            let a = mk_abrm(cap);
            match m {
                "sbrm" => a.sbrm(dev).map(c_sbrm),
                "manifest_table" => a.manifest_table(dev).map(c_table),
                "gencp_version" => a.gencp_version(dev).map(c_ver),
                "manufacturer_name" => a.manufacturer_name(dev).map(c_str),
                "model_name" => a.model_name(dev).map(c_str),
                "family_name" => a.family_name(dev).map(|o| c_opt(o, c_str)),
                "device_version" => a.device_version(dev).map(c_str),
                "manufacturer_info" => a.manufacturer_info(dev).map(c_str),
                "serial_number" => a.serial_number(dev).map(c_str),
                "user_defined_name" => a.user_defined_name(dev).map(|o| c_opt(o, c_str)),
                "set_user_defined_name" => {
                    let s = match arg { Arg::Str(s) => s.clone(), _ => panic!("harness: string argument expected") };
                    a.set_user_defined_name(dev, &s).map(|()| "()".into())
                }
                "manifest_table_address" => a.manifest_table_address(dev).map(|n| n.to_string()),
                "sbrm_address" => a.sbrm_address(dev).map(|n| n.to_string()),
                "timestamp" => a.timestamp(dev).map(|n| n.to_string()),
                "set_timestamp_latch_bit" => a.set_timestamp_latch_bit(dev).map(|()| "()".into()),
                "timestamp_increment" => a.timestamp_increment(dev).map(|n| n.to_string()),
                "device_software_interface_version" => {
                    a.device_software_interface_version(dev).map(|o| c_opt(o, c_str))
                }
                "maximum_device_response_time" => a.maximum_device_response_time(dev).map(c_dur),
                "device_capability" => a.device_capability().map(c_dcap),
                "device_configuration" => a.device_configuration(dev).map(c_cfg),
                "write_device_configuration" => {
                    let c = match arg { Arg::Cfg(raw, op) => mk_cfg(*raw, *op), _ => panic!("harness: cfg argument expected") };
                    a.write_device_configuration(dev, c).map(|()| "()".into())
                }
                _ => panic!("harness: unknown accessor {name}"),
            }
        }
        "Sbrm" => {
            if m == "new" {
                return Some(Sbrm::new(dev, base).map(c_sbrm));
            }
            // receiver: only constructible when its capability register is addressable
            // (a panic here is NOT swallowed: it surfaces as a panic of this call)
            let s = match Sbrm::new(&mut ConstDev(cap), base) {
                Ok(s) => s,
                Err(_) => return None,
            };
            match m {
                "u3v_version" => s.u3v_version(dev).map(c_ver),
                "maximum_command_transfer_length" => s.maximum_command_transfer_length(dev).map(|n| n.to_string()),
                "maximum_acknowledge_trasfer_length" => s.maximum_acknowledge_trasfer_length(dev).map(|n| n.to_string()),
                "number_of_stream_channel" => s.number_of_stream_channel(dev).map(|n| n.to_string()),
                "sirm" => s.sirm(dev).map(|o| c_opt(o, c_sirm)),
                "sirm_address" => s.sirm_address(dev).map(|o| c_opt(o, |n| n.to_string())),
                "sirm_length" => s.sirm_length(dev).map(|o| c_opt(o, |n| n.to_string())),
                "eirm_address" => s.eirm_address(dev).map(|o| c_opt(o, |n| n.to_string())),
                "eirm_length" => s.eirm_length(dev).map(|o| c_opt(o, |n| n.to_string())),
                "iidc2_address" => s.iidc2_address(dev).map(|o| c_opt(o, |n| n.to_string())),
                "current_speed" => s.current_speed(dev).map(|sp| format!("{:?}", sp)),
                "u3v_capability" => s.u3v_capability().map(c_ucap),
                _ => panic!("harness: unknown accessor {name}"),
            }
        }
        "Sirm" => {
            let s = Sirm::new(base);
            match m {
                "new" => Ok(c_sirm(s)),
                "payload_size_alignment" => s.payload_size_alignment(dev).map(|n| n.to_string()),
                "enable_stream" => s.enable_stream(dev).map(|()| "()".into()),
                "disable_stream" => s.disable_stream(dev).map(|()| "()".into()),
                "is_stream_enable" => s.is_stream_enable(dev).map(|x| x.to_string()),
                "required_payload_size" => s.required_payload_size(dev).map(|n| n.to_string()),
                "required_leader_size" => s.required_leader_size(dev).map(|n| n.to_string()),
                "required_trailer_size" => s.required_trailer_size(dev).map(|n| n.to_string()),
                "maximum_leader_size" => s.maximum_leader_size(dev).map(|n| n.to_string()),
                "set_maximum_leader_size" => s.set_maximum_leader_size(dev, u(arg)).map(|()| "()".into()),
                "maximum_trailer_size" => s.maximum_trailer_size(dev).map(|n| n.to_string()),
                "set_maximum_trailer_size" => s.set_maximum_trailer_size(dev, u(arg)).map(|()| "()".into()),
                "payload_transfer_size" => s.payload_transfer_size(dev).map(|n| n.to_string()),
                "set_payload_transfer_size" => s.set_payload_transfer_size(dev, u(arg)).map(|()| "()".into()),
                "payload_transfer_count" => s.payload_transfer_count(dev).map(|n| n.to_string()),
                "set_payload_transfer_count" => s.set_payload_transfer_count(dev, u(arg)).map(|()| "()".into()),
                "payload_final_transfer1_size" => s.payload_final_transfer1_size(dev).map(|n| n.to_string()),
                "set_payload_final_transfer1_size" => s.set_payload_final_transfer1_size(dev, u(arg)).map(|()| "()".into()),
                "payload_final_transfer2_size" => s.payload_final_transfer2_size(dev).map(|n| n.to_string()),
                "set_payload_final_transfer2_size" => s.set_payload_final_transfer2_size(dev, u(arg)).map(|()| "()".into()),
                _ => panic!("harness: unknown accessor {name}"),
            }
        }
        "ManifestTable" => {
            let t = ManifestTable::new(base);
            match m {
                "new" => Ok(c_table(t)),
                "entries" => t.entries(dev).map(c_entries),
                _ => panic!("harness: unknown accessor {name}"),
            }
        }
        "ManifestEntry" => {
            let e = ManifestEntry::new(base);
            match m {
                "new" => Ok(dbg_nums(&e, &[])[0].to_string()).map(|a| format!("me:{a}")),
                "genicam_file_version" => e.genicam_file_version(dev).map(c_ver),
                "file_address" => e.file_address(dev).map(|n| n.to_string()),
                "file_size" => e.file_size(dev).map(|n| n.to_string()),
                "file_info" => e.file_info(dev).map(c_fi),
                "sha1_hash" => e.sha1_hash(dev).map(|o| c_opt(o, |h| format!("h:{}", hex(&h)))),
                _ => panic!("harness: unknown accessor {name}"),
            }
        }
        _ => panic!("harness: unknown accessor {name}"),
    })
}

fn show_res(r: &Result<ControlResult<String>, ()>) -> String {
    match r {
        Err(()) => "panic".into(),
        Ok(Err(e)) => format!("err {}", err_name(e)),
        Ok(Ok(s)) => format!("ok {s}"),
    }
}

// ---------------------------------------------------------------------------------------
// the property oracle: expectation from the standard's tables (independent of the code)
// ---------------------------------------------------------------------------------------

#[derive(Clone, Copy, PartialEq, Debug)]
enum Map { Abrm, Sbrm, Sirm, Entry }

#[derive(Clone, Copy, PartialEq, Debug)]
enum Dec {
    U32, U64, Str, DurMs, Speed,
    /// major = bits 31:16, minor = bits 15:0 (GenCP version, U3V version)
    Ver1616,
    /// major 31:24, minor 23:16, subminor 15:0 (manifest entry GenICam file version)
    FileVer,
    /// 2^(bits 31:24) (SI info)
    Align,
    /// bit 0 (SI control: stream enable)
    Bit0,
    /// schema major 31:24, minor 23:16, file format 15:10, file type 2:0
    FileInfo,
    /// device configuration, bit 1 = multi event enable
    Cfg,
    /// 20 bytes, all zero = not available
    Sha1,
}

#[derive(Clone, Copy, PartialEq, Debug)]
enum Kind { Get, Set, SetConst(u32) }

struct SpecAcc {
    name: &'static str,
    map: Map,
    off: u64,
    len: usize,
    dec: Dec,
    /// capability bit guarding the register (ABRM: device capability; SBRM: U3VCP capability)
    cap: Option<u32>,
    kind: Kind,
}

const fn g(name: &'static str, map: Map, off: u64, len: usize, dec: Dec) -> SpecAcc {
    SpecAcc { name, map, off, len, dec, cap: None, kind: Kind::Get }
}
const fn go(name: &'static str, map: Map, off: u64, len: usize, dec: Dec, bit: u32) -> SpecAcc {
    SpecAcc { name, map, off, len, dec, cap: Some(bit), kind: Kind::Get }
}
const fn s(name: &'static str, map: Map, off: u64, len: usize, dec: Dec) -> SpecAcc {
    SpecAcc { name, map, off, len, dec, cap: None, kind: Kind::Set }
}
const fn sc(name: &'static str, map: Map, off: u64, len: usize, v: u32) -> SpecAcc {
    SpecAcc { name, map, off, len, dec: Dec::U32, cap: None, kind: Kind::SetConst(v) }
}

/// GenCP 1.x "Technology agnostic bootstrap register map", USB3 Vision 1.x SBRM / SIRM
/// tables and the GenCP manifest entry layout, keyed by the accessor that the crate
/// documents as reading that register.
const SPEC: &[SpecAcc] = &[
    g("Abrm.gencp_version", Map::Abrm, 0x0000, 4, Dec::Ver1616),
    g("Abrm.manufacturer_name", Map::Abrm, 0x0004, 64, Dec::Str),
    g("Abrm.model_name", Map::Abrm, 0x0044, 64, Dec::Str),
    go("Abrm.family_name", Map::Abrm, 0x0084, 64, Dec::Str, 8),
    g("Abrm.device_version", Map::Abrm, 0x00C4, 64, Dec::Str),
    g("Abrm.manufacturer_info", Map::Abrm, 0x0104, 64, Dec::Str),
    g("Abrm.serial_number", Map::Abrm, 0x0144, 64, Dec::Str),
    go("Abrm.user_defined_name", Map::Abrm, 0x0184, 64, Dec::Str, 0),
    SpecAcc { name: "Abrm.set_user_defined_name", map: Map::Abrm, off: 0x0184, len: 64, dec: Dec::Str, cap: Some(0), kind: Kind::Set },
    g("Abrm.maximum_device_response_time", Map::Abrm, 0x01CC, 4, Dec::DurMs),
    g("Abrm.manifest_table_address", Map::Abrm, 0x01D0, 8, Dec::U64),
    g("Abrm.sbrm_address", Map::Abrm, 0x01D8, 8, Dec::U64),
    g("Abrm.device_configuration", Map::Abrm, 0x01E0, 8, Dec::Cfg),
    s("Abrm.write_device_configuration", Map::Abrm, 0x01E0, 8, Dec::Cfg),
    g("Abrm.timestamp", Map::Abrm, 0x01F0, 8, Dec::U64),
    sc("Abrm.set_timestamp_latch_bit", Map::Abrm, 0x01F8, 4, 1),
    g("Abrm.timestamp_increment", Map::Abrm, 0x01FC, 8, Dec::U64),
    go("Abrm.device_software_interface_version", Map::Abrm, 0x0210, 64, Dec::Str, 14),
    g("Sbrm.u3v_version", Map::Sbrm, 0x0000, 4, Dec::Ver1616),
    g("Sbrm.maximum_command_transfer_length", Map::Sbrm, 0x0014, 4, Dec::U32),
    g("Sbrm.maximum_acknowledge_trasfer_length", Map::Sbrm, 0x0018, 4, Dec::U32),
    g("Sbrm.number_of_stream_channel", Map::Sbrm, 0x001C, 4, Dec::U32),
    go("Sbrm.sirm_address", Map::Sbrm, 0x0020, 8, Dec::U64, 0),
    go("Sbrm.sirm_length", Map::Sbrm, 0x0028, 4, Dec::U32, 0),
    go("Sbrm.eirm_address", Map::Sbrm, 0x002C, 8, Dec::U64, 1),
    go("Sbrm.eirm_length", Map::Sbrm, 0x0034, 4, Dec::U32, 1),
    go("Sbrm.iidc2_address", Map::Sbrm, 0x0038, 8, Dec::U64, 2),
    g("Sbrm.current_speed", Map::Sbrm, 0x0040, 4, Dec::Speed),
    g("Sirm.payload_size_alignment", Map::Sirm, 0x00, 4, Dec::Align),
    g("Sirm.is_stream_enable", Map::Sirm, 0x04, 4, Dec::Bit0),
    sc("Sirm.enable_stream", Map::Sirm, 0x04, 4, 1),
    sc("Sirm.disable_stream", Map::Sirm, 0x04, 4, 0),
    g("Sirm.required_payload_size", Map::Sirm, 0x08, 8, Dec::U64),
    g("Sirm.required_leader_size", Map::Sirm, 0x10, 4, Dec::U32),
    g("Sirm.required_trailer_size", Map::Sirm, 0x14, 4, Dec::U32),
    g("Sirm.maximum_leader_size", Map::Sirm, 0x18, 4, Dec::U32),
    s("Sirm.set_maximum_leader_size", Map::Sirm, 0x18, 4, Dec::U32),
    g("Sirm.payload_transfer_size", Map::Sirm, 0x1C, 4, Dec::U32),
    s("Sirm.set_payload_transfer_size", Map::Sirm, 0x1C, 4, Dec::U32),
    g("Sirm.payload_transfer_count", Map::Sirm, 0x20, 4, Dec::U32),
    s("Sirm.set_payload_transfer_count", Map::Sirm, 0x20, 4, Dec::U32),
    g("Sirm.payload_final_transfer1_size", Map::Sirm, 0x24, 4, Dec::U32),
    s("Sirm.set_payload_final_transfer1_size", Map::Sirm, 0x24, 4, Dec::U32),
    g("Sirm.payload_final_transfer2_size", Map::Sirm, 0x28, 4, Dec::U32),
    s("Sirm.set_payload_final_transfer2_size", Map::Sirm, 0x28, 4, Dec::U32),
    g("Sirm.maximum_trailer_size", Map::Sirm, 0x2C, 4, Dec::U32),
    s("Sirm.set_maximum_trailer_size", Map::Sirm, 0x2C, 4, Dec::U32),
    g("ManifestEntry.genicam_file_version", Map::Entry, 0x00, 4, Dec::FileVer),
    g("ManifestEntry.file_info", Map::Entry, 0x04, 4, Dec::FileInfo),
    g("ManifestEntry.file_address", Map::Entry, 0x08, 8, Dec::U64),
    g("ManifestEntry.file_size", Map::Entry, 0x10, 8, Dec::U64),
    g("ManifestEntry.sha1_hash", Map::Entry, 0x18, 20, Dec::Sha1),
];

/// setter ↦ getter that must read the written value back
const PAIRS: &[(&str, &str)] = &[
    ("Abrm.set_user_defined_name", "Abrm.user_defined_name"),
    ("Abrm.write_device_configuration", "Abrm.device_configuration"),
    ("Sirm.enable_stream", "Sirm.is_stream_enable"),
    ("Sirm.disable_stream", "Sirm.is_stream_enable"),
    ("Sirm.set_maximum_leader_size", "Sirm.maximum_leader_size"),
    ("Sirm.set_maximum_trailer_size", "Sirm.maximum_trailer_size"),
    ("Sirm.set_payload_transfer_size", "Sirm.payload_transfer_size"),
    ("Sirm.set_payload_transfer_count", "Sirm.payload_transfer_count"),
    ("Sirm.set_payload_final_transfer1_size", "Sirm.payload_final_transfer1_size"),
    ("Sirm.set_payload_final_transfer2_size", "Sirm.payload_final_transfer2_size"),
];

fn spec(name: &str) -> Option<&'static SpecAcc> { SPEC.iter().find(|a| a.name == name) }

fn le(bs: &[u8]) -> u64 { bs.iter().rev().fold(0u64, |a, x| (a << 8) | *x as u64) }

/// Well-formed UTF-8 per Unicode Table 3-7 (written out independently of `std`).
fn utf8_ok(mut s: &[u8]) -> bool {
    let cont = |x: u8| (0x80..=0xBF).contains(&x);
    while let Some(&b0) = s.first() {
        let n = match b0 {
            0x00..=0x7F => 1,
            0xC2..=0xDF => 2,
            0xE0..=0xEF => 3,
            0xF0..=0xF4 => 4,
            _ => return false,
        };
        if s.len() < n {
            return false;
        }
        let ok = match n {
            1 => true,
            2 => cont(s[1]),
            3 => {
                (match b0 { 0xE0 => (0xA0..=0xBF).contains(&s[1]), 0xED => (0x80..=0x9F).contains(&s[1]), _ => cont(s[1]) })
                    && cont(s[2])
            }
            _ => {
                (match b0 { 0xF0 => (0x90..=0xBF).contains(&s[1]), 0xF4 => (0x80..=0x8F).contains(&s[1]), _ => cont(s[1]) })
                    && cont(s[2]) && cont(s[3])
            }
        };
        if !ok {
            return false;
        }
        s = &s[n..];
    }
    true
}

const E_DEV: &str = "err InvalidDevice";

fn decode(dec: Dec, bs: &[u8]) -> String {
    let raw = le(bs);
    match dec {
        Dec::U32 | Dec::U64 => format!("ok {raw}"),
        Dec::Str => {
            let cut = bs.iter().position(|x| *x == 0).unwrap_or(bs.len());
            if utf8_ok(&bs[..cut]) { format!("ok s:{}", hex(&bs[..cut])) } else { E_DEV.into() }
        }
        Dec::DurMs => format!("ok ns:{}", raw as u128 * 1_000_000),
        Dec::Speed => match raw {
            1 => "ok LowSpeed".into(),
            2 => "ok FullSpeed".into(),
            4 => "ok HighSpeed".into(),
            8 => "ok SuperSpeed".into(),
            16 => "ok SuperSpeedPlus".into(),
            _ => E_DEV.into(),
        },
        Dec::Ver1616 => format!("ok v:{}.{}.0", raw >> 16, raw & 0xffff),
        Dec::FileVer => format!("ok v:{}.{}.{}", raw >> 24, (raw >> 16) & 0xff, raw & 0xffff),
        Dec::Align => {
            let e = raw >> 24;
            if e < usize::BITS as u64 { format!("ok {}", 1u128 << e) } else { E_DEV.into() }
        }
        Dec::Bit0 => format!("ok {}", raw & 1 == 1),
        Dec::FileInfo => {
            let ft = match raw & 7 { 0 => "DeviceXml", 1 => "BufferXml", _ => "err-InvalidDevice" };
            let ct = match (raw >> 10) & 0x3f { 0 => "Uncompressed", 1 => "Zip", _ => "err-InvalidDevice" };
            format!("ok fi:{}:{}:v:{}.{}.0", ft, ct, raw >> 24, (raw >> 16) & 0xff)
        }
        Dec::Cfg => format!("ok cfg:{}:{}", raw, (raw >> 1) & 1),
        Dec::Sha1 => {
            if bs.iter().all(|x| *x == 0) { "ok none".into() } else { format!("ok some h:{}", hex(bs)) }
        }
    }
}

fn some(v: String) -> String {
    match v.strip_prefix("ok ") { Some(x) => format!("ok some {x}"), None => v }
}

/// One device read as the tables prescribe it: (`Ok(bytes)` | `Err(answer)`, log).
fn spec_read(img: &Image, broken: bool, base: u64, off: u64, len: usize, log: &mut Vec<Access>) -> Result<Vec<u8>, String> {
    let addr = match base.checked_add(off) {
        Some(a) => a,
        None => return Err(E_DEV.into()), // the register does not exist in a 64-bit address space
    };
    if broken || addr as u128 + len as u128 > 1u128 << 64 {
        log.push(Access { write: false, addr, len, data: None });
        return Err("err Disconnected".into());
    }
    let d = img.bytes(addr, len);
    log.push(Access { write: false, addr, len, data: Some(d.clone()) });
    Ok(d)
}

fn cap_bits_dev(c: u64) -> String {
    format!("{}{}{}{}{}", (c >> 0) & 1, (c >> 8) & 1, (c >> 12) & 1, (c >> 13) & 1, (c >> 14) & 1)
}
fn cap_bits_u3v(c: u64) -> String { format!("{}{}{}", c & 1, (c >> 1) & 1, (c >> 2) & 1) }

/// Expected canonical answer `value | log` of accessor `name`, or `None` when the
/// receiver does not exist.
fn oracle(name: &str, base: u64, cap: u64, arg: &Arg, img: &Image, broken: bool) -> Option<String> {
    let mut log = vec![];
    let base_of = |m: Map| if m == Map::Abrm { 0 } else { base };
    if name.starts_with("Sbrm.") && name != "Sbrm.new" && base.checked_add(4).is_none() {
        return None;
    }
    let val: String = if let Some(a) = spec(name) {
        let guard_ok = a.cap.map_or(true, |bit| (cap >> bit) & 1 == 1);
        match a.kind {
            Kind::Get => {
                if !guard_ok {
                    "ok none".into()
                } else {
                    let v = match spec_read(img, broken, base_of(a.map), a.off, a.len, &mut log) {
                        Ok(bs) => decode(a.dec, &bs),
                        Err(e) => e,
                    };
                    if a.cap.is_some() { some(v) } else { v }
                }
            }
            Kind::Set | Kind::SetConst(_) => {
                // image of the value on the register's bytes
                let data: Result<Vec<u8>, String> = match (a.kind, arg) {
                    (Kind::SetConst(v), _) => Ok(v.to_le_bytes().to_vec()),
                    (_, Arg::U32(v)) => Ok(v.to_le_bytes().to_vec()),
                    (_, Arg::Cfg(raw, op)) => Ok(match op { 1 => raw | 2, 2 => raw & !2, _ => *raw }.to_le_bytes().to_vec()),
                    (_, Arg::Str(s)) => {
                        if !s.is_ascii() || s.len() > a.len || s.as_bytes().contains(&0) {
                            Err("err InvalidData".into())
                        } else {
                            let mut d = s.as_bytes().to_vec();
                            d.resize(a.len, 0);
                            Ok(d)
                        }
                    }
                    _ => panic!("harness: setter without argument"),
                };
                if !guard_ok {
                    "ok ()".into()
                } else {
                    match (data, base_of(a.map).checked_add(a.off)) {
                        (Err(e), _) => e,
                        (Ok(_), None) => E_DEV.into(),
                        (Ok(d), Some(addr)) => {
                            assert_eq!(d.len(), a.len);
                            if broken || addr as u128 + a.len as u128 > 1u128 << 64 {
                                log.push(Access { write: true, addr, len: a.len, data: None });
                                "err Disconnected".into()
                            } else {
                                log.push(Access { write: true, addr, len: a.len, data: Some(d) });
                                "ok ()".into()
                            }
                        }
                    }
                }
            }
        }
    } else {
        match name {
            // constructors / composite navigation / cached capability words
            "Abrm.new" => match spec_read(img, broken, 0, 0x01C4, 8, &mut log) {
                Ok(bs) => format!("ok abrm:{}", le(&bs)),
                Err(e) => e,
            },
            "Abrm.device_capability" => format!("ok dcap:{}:{}", cap, cap_bits_dev(cap)),
            "Abrm.manifest_table" => match spec_read(img, broken, 0, 0x01D0, 8, &mut log) {
                Ok(bs) => format!("ok mt:{}", le(&bs)),
                Err(e) => e,
            },
            "Abrm.sbrm" => match spec_read(img, broken, 0, 0x01D8, 8, &mut log) {
                Ok(bs) => {
                    let a = le(&bs);
                    match spec_read(img, broken, a, 0x0004, 8, &mut log) {
                        Ok(c) => format!("ok sbrm:{}:{}", a, le(&c)),
                        Err(e) => e,
                    }
                }
                Err(e) => e,
            },
            "Sbrm.new" => match spec_read(img, broken, base, 0x0004, 8, &mut log) {
                Ok(c) => format!("ok sbrm:{}:{}", base, le(&c)),
                Err(e) => e,
            },
            "Sbrm.u3v_capability" => format!("ok ucap:{}:{}", cap, cap_bits_u3v(cap)),
            "Sbrm.sirm" => {
                if cap & 1 == 0 {
                    "ok none".into()
                } else {
                    match spec_read(img, broken, base, 0x0020, 8, &mut log) {
                        Ok(bs) => format!("ok some sirm:{}", le(&bs)),
                        Err(e) => e,
                    }
                }
            }
            "Sirm.new" => format!("ok sirm:{base}"),
            "ManifestTable.new" => format!("ok mt:{base}"),
            "ManifestEntry.new" => format!("ok me:{base}"),
            // manifest table: 8-byte entry count, then 64-byte entries
            "ManifestTable.entries" => match spec_read(img, broken, base, 0, 8, &mut log) {
                Ok(bs) => {
                    let n = le(&bs);
                    let first = base as u128 + 8;
                    if first + 64 * n as u128 > 1u128 << 64 {
                        E_DEV.into() // the table [base, base + 8 + 64 n) does not fit into the address space
                    } else {
                        let shown: Vec<String> = (0..n.min(ENTRIES_SHOWN as u64)).map(|i| (first + 64 * i as u128).to_string()).collect();
                        let last = if n > ENTRIES_SHOWN as u64 && n <= ENTRIES_WALKED { (first + 64 * (n - 1) as u128).to_string() } else { "-".into() };
                        format!("ok entries:{}:{}:{}", n, if shown.is_empty() { "-".into() } else { shown.join(",") }, last)
                    }
                }
                Err(e) => e,
            },
            _ => panic!("harness: no oracle for {name}"),
        }
    };
    Some(format!("{val} | {}", show_log(&log)))
}

// ---------------------------------------------------------------------------------------
// one case
// ---------------------------------------------------------------------------------------

struct Ctx {
    rep: Report,
    /// image last sent to the model
    sent_img: Option<String>,
}

impl Ctx {
    fn send_img(&mut self, img: &Image) {
        let w = img.wire();
        if self.sent_img.as_deref() != Some(&w) {
            self.rep.expect(w.clone(), "ok".into());
            self.sent_img = Some(w);
        }
    }
}

fn replay_json(op: &str, img: &Image, name: &str, getter: &str, base: u64, cap: u64, broken: bool, arg: &Arg) -> Value {
    json!({"op": op, "img": img.json(), "name": name, "getter": getter, "base": base.to_string(),
           "cap": cap.to_string(), "broken": broken, "arg": arg.wire()})
}

fn class_of(imp: &str, exp: &str) -> &'static str {
    let (iv, il) = imp.split_once(" | ").unwrap_or((imp, ""));
    let (ev, el) = exp.split_once(" | ").unwrap_or((exp, ""));
    if iv == "panic" {
        "panic"
    } else if il != el {
        "wrong-access"
    } else if iv.starts_with("err") != ev.starts_with("err") {
        "wrong-error"
    } else {
        "wrong-value"
    }
}

fn count_arg(cx: &mut Ctx, arg: &Arg) {
    if let Arg::Str(s) = arg {
        cx.rep.count(&format!("name-arg:{}", if s.is_empty() { "empty" } else if !s.is_ascii() { "non-ascii" } else if s.contains('\0') { "interior-NUL" }
            else if s.len() > 64 { "ascii-too-long" } else if s.len() == 64 { "ascii-exactly-64" } else { "ascii-fits" }));
    }
}

/// Input-distribution counters: where the register lies relative to the end of the address
/// space, which enumerants / string classes the decoders met.
fn classify(cx: &mut Ctx, name: &str, base: u64, imp: &str) {
    if let Some(a) = spec(name) {
        if a.map != Map::Abrm {
            let end = base as u128 + a.off as u128 + a.len as u128;
            cx.rep.count(if base as u128 + a.off as u128 > u64::MAX as u128 {
                "addr:base+offset overflows u64"
            } else if end > 1u128 << 64 {
                "addr:register crosses the end of the address space"
            } else if end == 1u128 << 64 {
                "addr:register ends exactly at 2^64"
            } else {
                "addr:inside"
            });
        }
        let val = imp.split(" | ").next().unwrap_or("");
        match a.dec {
            Dec::Speed => cx.rep.count(&format!("speed:{}", val.trim_start_matches("ok "))),
            Dec::FileInfo => {
                let p: Vec<&str> = val.split(':').collect();
                if p.len() > 2 {
                    cx.rep.count(&format!("file_type:{}", p[1]));
                    cx.rep.count(&format!("compression:{}", p[2]));
                }
            }
            Dec::Align => cx.rep.count(if val.starts_with("ok") { "alignment:exponent<64" } else if val.starts_with("err InvalidDevice") { "alignment:exponent>=64 or unreadable" } else { "alignment:other" }),
            Dec::Str if a.kind == Kind::Get => cx.rep.count(&format!("string-read:{}", if val.starts_with("ok none") { "guard-closed" } else if val.contains("s:-") { "empty" } else if val.starts_with("ok") {
                let h = val.rsplit("s:").next().unwrap_or("");
                if unhex(h).is_ascii() { if h.len() == 128 { "ascii-64-no-NUL" } else { "ascii" } } else { "multibyte-utf8" }
            } else if val.starts_with("err InvalidDevice") { "invalid-utf8 or unreadable" } else { "other" })),
            _ => {}
        }
    }
}

/// Run accessor `name` once; oracle + model request.
fn do_acc(cx: &mut Ctx, img: &Image, name: &str, base: u64, cap: u64, broken: bool, arg: &Arg, src: &str) {
    let mut dev = RecDev::new(img, broken);
    let r = catch(|| call(name, base, cap, arg, &mut dev));
    let r = match r {
        Ok(None) => {
            cx.rep.count("receiver-not-constructible");
            if oracle(name, base, cap, arg, img, broken).is_some() {
                // the tables say the receiver exists (its capability register is addressable),
                // but the real constructor refused it
                cx.rep.case(&format!("{name} {base} {cap} receiver-refused"), false);
                cx.rep.violation(json!({"accessor": name, "class": "receiver"}),
                    &format!("{name}: the receiver at base {base} could not be constructed (constructor returned an error) although its capability register [base+4, base+12) lies inside the address space"),
                    replay_json("acc", img, name, "", base, cap, broken, arg));
            }
            return;
        }
        Ok(Some(x)) => Ok(x),
        Err(()) => Err(()),
    };
    let res = show_res(&r);
    let imp = if res == "panic" { "panic".to_string() } else { format!("{res} | {}", show_log(&dev.log)) };
    let canon = format!("{name} {base} {cap} {broken} {} {:x}", arg.wire(), fnv_bytes(FNV_INIT, imp.as_bytes()));
    let nontrivial = res.starts_with("ok") && !dev.log.is_empty();
    cx.rep.case(&canon, nontrivial);
    cx.rep.count(&format!("acc/{src}"));
    cx.rep.count(&format!("result:{}", if res == "panic" { "panic" } else if res.starts_with("err") { &res } else if dev.log.is_empty() { "ok-no-access" } else { "ok" }));
    classify(cx, name, base, &imp);
    count_arg(cx, arg);
    match oracle(name, base, cap, arg, img, broken) {
        None => {
            // the tables say this receiver cannot exist (its capability register is unaddressable)
            let (class, what) = if imp == "panic" {
                ("panic", "constructing the receiver panicked instead of reporting an error")
            } else {
                ("receiver", "receiver constructed although its capability register is unaddressable")
            };
            cx.rep.violation(json!({"accessor": name, "class": class}), what,
                replay_json("acc", img, name, "", base, cap, broken, arg));
            return;
        }
        Some(exp) => {
            if exp != imp {
                let class = class_of(&imp, &exp);
                cx.rep.violation(json!({"accessor": name, "class": class}),
                    &format!("{name}: implementation `{imp}`, register tables prescribe `{exp}`"),
                    replay_json("acc", img, name, "", base, cap, broken, arg));
            }
        }
    }
    cx.send_img(img);
    let req = format!("c13 acc {name} {base} {cap} {} {}", b(broken), arg.wire());
    if cx.rep.evaluations % 997 == 1 {
        cx.rep.sample(json!({"request": req, "impl": imp}));
    }
    cx.rep.expect(req, imp);
}

/// setter then paired getter on the same device.
fn do_rt(cx: &mut Ctx, img: &Image, setter: &str, getter: &str, base: u64, cap: u64, arg: &Arg, src: &str) {
    let mut dev = RecDev::new(img, false);
    let r1 = catch(|| call(setter, base, cap, arg, &mut dev).unwrap());
    let r2 = catch(|| call(getter, base, cap, &Arg::None, &mut dev).unwrap());
    let (s1, s2) = (show_res(&r1), show_res(&r2));
    let imp = if s1 == "panic" || s2 == "panic" { format!("{s1} ; {s2}") } else { format!("{s1} ; {s2} | {}", show_log(&dev.log)) };
    let canon = format!("rt {setter} {base} {cap} {}", arg.wire());
    cx.rep.case(&canon, s1 == "ok ()" && s2.starts_with("ok") && dev.log.len() == 2);
    cx.rep.count(&format!("rt/{src}"));
    count_arg(cx, arg);
    cx.rep.count(&format!("rt-result:{}", if s1 == "panic" || s2 == "panic" { "panic" } else if s1.starts_with("err") { &s1 } else if dev.log.is_empty() { "ok-unsupported" } else { "ok" }));
    // oracle: expectation for the setter on `img`, for the getter on the updated image
    let e1 = oracle(setter, base, cap, arg, img, false).unwrap();
    let mut img2 = img.clone();
    let (e1v, e1l) = e1.split_once(" | ").unwrap();
    let sa = spec(setter).unwrap();
    if e1v == "ok ()" && e1l != "-" {
        // apply the prescribed write
        let hexdata = e1l.rsplit(':').next().unwrap();
        img2.patch(if sa.map == Map::Abrm { sa.off } else { base + sa.off }, &unhex(hexdata));
    }
    let e2 = oracle(getter, base, cap, &Arg::None, &img2, false).unwrap();
    let (e2v, e2l) = e2.split_once(" | ").unwrap();
    let logs: Vec<&str> = [e1l, e2l].into_iter().filter(|l| *l != "-").collect();
    let exp = format!("{e1v} ; {e2v} | {}", if logs.is_empty() { "-".to_string() } else { logs.join(",") });
    if exp != imp {
        let class = if imp.contains("panic") { "panic" } else { "round-trip-access-or-value" };
        cx.rep.violation(json!({"accessor": setter, "class": class}),
            &format!("{setter};{getter}: implementation `{imp}`, register tables prescribe `{exp}`"),
            replay_json("rt", img, setter, getter, base, cap, false, arg));
    } else if e1v == "ok ()" && e1l != "-" {
        // the property itself: value read back = value written
        let want = match arg {
            Arg::U32(n) => format!("ok {n}"),
            Arg::Str(s) => format!("ok some s:{}", hex(s.as_bytes())),
            Arg::Cfg(raw, op) => { let r = match op { 1 => raw | 2, 2 => raw & !2, _ => *raw }; format!("ok cfg:{}:{}", r, (r >> 1) & 1) }
            Arg::None => format!("ok {}", setter == "Sirm.enable_stream"),
        };
        if s2 != want {
            cx.rep.violation(json!({"accessor": setter, "class": "round-trip"}),
                &format!("{setter} wrote {}, {getter} read back `{s2}`", arg.wire()),
                replay_json("rt", img, setter, getter, base, cap, false, arg));
        }
    }
    cx.send_img(img);
    let req = format!("c13 rt {setter} {getter} {base} {cap} {}", arg.wire());
    if cx.rep.evaluations % 499 == 1 {
        cx.rep.sample(json!({"request": req, "impl": imp}));
    }
    cx.rep.expect(req, imp);
}

/// Parameters of one scripted device (see `ScriptDev`).
#[derive(Clone, Copy, Debug)]
struct Script { seed: u64, k: u64, short: usize, mask: u8, n0: u64 }

/// Run accessor `name` once on the scripted stateful device; oracle (the device's error is
/// returned unchanged and nothing is called after it; no panic) + model request (`accg`).
fn do_accg(cx: &mut Ctx, name: &str, base: u64, cap: u64, arg: &Arg, sc: Script, src: &str) {
    let mut dev = ScriptDev { seed: sc.seed, k: sc.k, short: sc.short, mask: sc.mask, n: sc.n0, log: vec![], failed: None, after_failure: 0 };
    let r = match catch(|| call(name, base, cap, arg, &mut dev)) {
        Ok(None) => {
            cx.rep.count("accg:receiver-not-constructible");
            return;
        }
        Ok(Some(x)) => Ok(x),
        Err(()) => Err(()),
    };
    let res = show_res(&r);
    let imp = if res == "panic" { "panic".to_string() } else { format!("{res} | {} | {}", show_log(&dev.log), dev.n) };
    let replay = json!({"op": "accg", "name": name, "base": base.to_string(), "cap": cap.to_string(), "arg": arg.wire(),
        "seed": sc.seed.to_string(), "k": sc.k, "short": sc.short, "mask": sc.mask, "n0": sc.n0});
    let canon = format!("accg {name} {base} {cap} {} {:?} {:x}", arg.wire(), sc, fnv_bytes(FNV_INIT, imp.as_bytes()));
    cx.rep.case(&canon, !dev.log.is_empty() && res != "panic");
    cx.rep.count(&format!("accg/{src}"));
    cx.rep.count(&format!("accg-result:{}", if res == "panic" { "panic".to_string() } else if let Some(e) = dev.failed { if dev.log.len() > 1 { format!("device-error-{e}-on-later-call") } else { format!("device-error-{e}") } }
        else if res.starts_with("err") { res.clone() } else if dev.log.is_empty() { "ok-no-access".into() } else if dev.log.len() > 1 { "ok-multi-call".into() } else { "ok".into() }));
    cx.rep.count(&format!("accg-read-length:{}", if sc.short == 0 { "nothing-delivered" } else if sc.short < 8 { "short" } else if sc.short < 64 { "short-for-strings" } else { "full" }));
    // property oracle on the implementation's own outputs
    if res == "panic" {
        cx.rep.violation(json!({"accessor": name, "class": "panic"}),
            &format!("{name} panicked on the scripted device {sc:?}"), replay.clone());
    } else if let Some(e) = dev.failed {
        if res != format!("err {e}") || dev.after_failure != 0 {
            cx.rep.violation(json!({"accessor": name, "class": "device-error"}),
                &format!("{name}: the device failed with {e}; the accessor returned `{res}` and made {} further call(s)", dev.after_failure),
                replay.clone());
        }
    }
    let req = format!("c13 accg {name} {base} {cap} {} {} {} {} {} {}", arg.wire(), sc.seed, sc.k, sc.short, sc.mask, sc.n0);
    if cx.rep.evaluations % 997 == 2 {
        cx.rep.sample(json!({"request": req, "impl": imp}));
    }
    cx.rep.expect(req, imp);
}

fn gen_script(rng: &mut Rng) -> Script {
    Script {
        seed: rng.next_u64(),
        k: match rng.below(6) { 0 | 1 | 2 => 0, 3 => 1, 4 => 2, _ => rng.range(2, 5) },
        short: match rng.below(8) { 0 => 0, 1 => 1, 2 => rng.range(1, 8) as usize, 3 => rng.range(8, 64) as usize, _ => 1 << 16 },
        mask: match rng.below(6) { 0 => 0, 1 => 1, 2 => 0x7F, 3 => 0x1F, _ => 0xFF },
        n0: rng.below(12),
    }
}

// ---------------------------------------------------------------------------------------
// generators
// ---------------------------------------------------------------------------------------

fn gen_string_reg(rng: &mut Rng, len: usize) -> Vec<u8> {
    let mut out = match rng.below(10) {
        // plain ASCII, NUL-terminated
        0..=3 => { let n = rng.below(len as u64) as usize; (0..n).map(|_| rng.range(0x20, 0x7e) as u8).collect::<Vec<u8>>() }
        // fills the register completely, no NUL
        4 => (0..len).map(|_| rng.range(0x21, 0x7e) as u8).collect(),
        // empty
        5 => vec![],
        // valid multi-byte UTF-8
        6 | 7 => {
            let pool = ["é", "ü", "カ", "メ", "レ", "オ", "ン", "€", "𝄞", "😀", "a", "Z", "0", " ", "\u{7ff}", "\u{800}", "\u{ffff}", "\u{10000}", "\u{10ffff}", "\u{d7ff}", "\u{e000}"];
            let mut s = String::new();
            let target = rng.below(len as u64) as usize;
            loop {
                let c = *rng.pick(&pool);
                if s.len() + c.len() > target { break; }
                s.push_str(c);
            }
            s.into_bytes()
        }
        // invalid UTF-8 of the classic kinds
        8 => {
            let bad: [&[u8]; 12] = [&[0x80], &[0xC0, 0x80], &[0xC1, 0xBF], &[0xE0, 0x80, 0x80], &[0xED, 0xA0, 0x80],
                &[0xF0, 0x80, 0x80, 0x80], &[0xF4, 0x90, 0x80, 0x80], &[0xF5, 0x80, 0x80, 0x80], &[0xE2, 0x82], &[0xC3],
                &[0xFF], &[0xF0, 0x9F, 0x98]];
            let mut v: Vec<u8> = (0..rng.below(10)).map(|_| rng.range(0x20, 0x7e) as u8).collect();
            let pick: &[u8] = *rng.pick(&bad[..]);
            v.extend_from_slice(pick);
            v.extend((0..rng.below(5)).map(|_| rng.range(0x20, 0x7e) as u8));
            v
        }
        // raw noise
        _ => rng.bytes(len),
    };
    out.truncate(len);
    // garbage (not zeros) after the terminator half of the time
    if out.len() < len {
        out.push(0);
        let fill_noise = rng.bool();
        while out.len() < len {
            out.push(if fill_noise { rng.next_u64() as u8 } else { 0 });
        }
    }
    out
}

fn gen_base(rng: &mut Rng) -> u64 {
    match rng.below(12) {
        0 => 0,
        1 => u64::MAX,
        2 => u64::MAX - rng.below(0x60),
        3 => u64::MAX - rng.below(0x300),
        4 => 1u64 << rng.below(64),
        5 => 0x1_0000 * rng.range(1, 64),
        6 => rng.below(0x400),
        _ => rng.next_u64() >> rng.below(40),
    }
}

fn u32_interesting(rng: &mut Rng) -> u32 {
    match rng.below(8) {
        0 => 0,
        1 => 1,
        2 => u32::MAX,
        3 => 1u32 << rng.below(32),
        4 => (1u32 << rng.below(32)).wrapping_sub(1),
        5 => rng.below(70000) as u32,
        _ => rng.next_u64() as u32,
    }
}

/// 16-bit / 8-bit field values biased to the boundaries
fn b16(rng: &mut Rng) -> u32 {
    match rng.below(10) { 0 => 0, 1 => 1, 2 => 2, 3 => 0xFF, 4 => 0x100, 5 => 0xFFFE, 6 => 0xFFFF, 7 => 0x8000, _ => rng.below(0x1_0000) as u32 }
}
fn b8(rng: &mut Rng) -> u32 {
    match rng.below(8) { 0 => 0, 1 => 1, 2 => 2, 3 => 0x7F, 4 => 0x80, 5 => 0xFF, _ => rng.below(0x100) as u32 }
}
/// GenCP / U3V version word: major 31:16, minor 15:0
fn ver_word(rng: &mut Rng) -> u32 {
    if rng.chance(1, 16) { u32::MAX } else { b16(rng) << 16 | b16(rng) }
}

struct Layout { sbrm: u64, sirm: u64, table: u64, entry: u64, dcap: u64, ucap: u64 }

/// A structured, mostly valid device image: every register of the tables gets a plausible
/// value with probability ~0.8 and stays background noise / gets an invalid value otherwise.
fn gen_image(rng: &mut Rng, round: u64) -> (Image, Layout) {
    let mut img = Image { seed: rng.next_u64(), segs: vec![] };
    // all capability-bit combinations: device capability bits {0,8,12,13,14}, U3V bits {0,1,2}
    let combo = round % 256;
    let other = match rng.below(3) { 0 => 0, 1 => u64::MAX, _ => rng.next_u64() };
    let dmask: u64 = 1 | 1 << 8 | 1 << 12 | 1 << 13 | 1 << 14;
    let dbits = (combo & 1) | ((combo >> 1) & 1) << 8 | ((combo >> 2) & 1) << 12 | ((combo >> 3) & 1) << 13 | ((combo >> 4) & 1) << 14;
    let dcap = (other & !dmask) | dbits;
    let ucap = (other.rotate_left(17) & !7) | ((combo >> 5) & 7);
    let lay = Layout { sbrm: gen_base(rng), sirm: gen_base(rng), table: gen_base(rng), entry: gen_base(rng), dcap, ucap };
    let keep = |rng: &mut Rng| rng.chance(4, 5);
    let p32 = |img: &mut Image, a: Option<u64>, v: u32| if let Some(a) = a { img.patch(a, &v.to_le_bytes()) };
    let p64 = |img: &mut Image, a: Option<u64>, v: u64| if let Some(a) = a { img.patch(a, &v.to_le_bytes()) };
    // ---- ABRM
    if keep(rng) { p32(&mut img, Some(0x0000), ver_word(rng)); }
    for off in [0x0004u64, 0x0044, 0x0084, 0x00C4, 0x0104, 0x0144, 0x0184, 0x0210] {
        if keep(rng) { let s = gen_string_reg(rng, 64); img.patch(off, &s); }
    }
    p64(&mut img, Some(0x01C4), dcap);
    if keep(rng) { p32(&mut img, Some(0x01CC), u32_interesting(rng)); }
    p64(&mut img, Some(0x01D0), lay.table);
    p64(&mut img, Some(0x01D8), lay.sbrm);
    if keep(rng) { p64(&mut img, Some(0x01E0), rng.below(4)); }
    if keep(rng) { p64(&mut img, Some(0x01F0), rng.interesting_u64()); }
    if keep(rng) { p64(&mut img, Some(0x01FC), rng.below(100_000)); }
    // ---- SBRM
    let sb = |o: u64| lay.sbrm.checked_add(o);
    if keep(rng) { p32(&mut img, sb(0x00), ver_word(rng)); }
    p64(&mut img, sb(0x04), ucap);
    if keep(rng) { p32(&mut img, sb(0x14), u32_interesting(rng)); }
    if keep(rng) { p32(&mut img, sb(0x18), u32_interesting(rng)); }
    if keep(rng) { p32(&mut img, sb(0x1C), rng.below(3) as u32); }
    p64(&mut img, sb(0x20), lay.sirm);
    if keep(rng) { p32(&mut img, sb(0x28), 0x30); }
    if keep(rng) { p64(&mut img, sb(0x2C), rng.interesting_u64()); }
    if keep(rng) { p32(&mut img, sb(0x34), 0x0c); }
    if keep(rng) { p64(&mut img, sb(0x38), rng.interesting_u64()); }
    if keep(rng) {
        let v = match rng.below(10) { 0 => 0, 1 => 3, 2 => 32, 3 => rng.next_u64() as u32, 4 => rng.below(64) as u32,
            5 => (1u32 << rng.below(5)) | (1u32 << rng.below(32)), 6 => 1u32 << rng.below(32), _ => 1u32 << rng.below(5) };
        p32(&mut img, sb(0x40), v);
    }
    // ---- SIRM
    let si = |o: u64| lay.sirm.checked_add(o);
    if keep(rng) {
        let exp = match rng.below(8) { 0 => rng.range(64, 255), 1 => 63, 2 => rng.range(32, 64), _ => rng.below(13) } as u32;
        p32(&mut img, si(0x00), exp << 24 | (rng.next_u64() as u32 & 0x00ff_ffff));
    }
    if keep(rng) { p32(&mut img, si(0x04), rng.below(4) as u32); }
    if keep(rng) { p64(&mut img, si(0x08), rng.interesting_u64()); }
    for o in [0x10u64, 0x14, 0x18, 0x1C, 0x20, 0x24, 0x28, 0x2C] {
        if keep(rng) { p32(&mut img, si(o), u32_interesting(rng)); }
    }
    // ---- manifest table and the entry under test
    let mt = |o: u64| lay.table.checked_add(o);
    if keep(rng) {
        let n = match rng.below(12) { 0 => u64::MAX, 1 => 1u64 << rng.range(50, 63), 2 => rng.interesting_u64(), 3 => rng.range(4, 300), 4 => rng.range(65530, 65540), _ => rng.below(6) };
        p64(&mut img, mt(0), n);
    }
    let me = |o: u64| lay.entry.checked_add(o);
    if keep(rng) { p32(&mut img, me(0x00), if rng.chance(1, 16) { u32::MAX } else { b8(rng) << 24 | b8(rng) << 16 | b16(rng) }); }
    if keep(rng) {
        let ft = match rng.below(6) { 0 => rng.below(8), _ => rng.below(2) } as u32;
        let ct = match rng.below(6) { 0 => rng.below(64), _ => rng.below(2) } as u32;
        let rsv = if rng.chance(1, 4) { (rng.below(128) as u32) << 3 } else { 0 };
        p32(&mut img, me(0x04), b8(rng) << 24 | b8(rng) << 16 | ct << 10 | rsv | ft);
    }
    if keep(rng) { p64(&mut img, me(0x08), rng.interesting_u64()); }
    if keep(rng) { p64(&mut img, me(0x10), rng.below(1 << 20)); }
    if rng.chance(1, 3) {
        if let Some(a) = me(0x18) { img.patch(a, &[0u8; 20]); }
    } else if rng.chance(1, 8) {
        // a single non-zero byte
        if let Some(a) = me(0x18) { let mut h = [0u8; 20]; h[rng.below(20) as usize] = rng.range(1, 255) as u8; img.patch(a, &h); }
    }
    (img, lay)
}

fn receiver_of(name: &str, lay: &Layout) -> (u64, u64) {
    match name.split_once('.').unwrap().0 {
        "Abrm" => (0, lay.dcap),
        "Sbrm" => (lay.sbrm, lay.ucap),
        "Sirm" => (lay.sirm, 0),
        "ManifestTable" => (lay.table, 0),
        _ => (lay.entry, 0),
    }
}

fn gen_name(rng: &mut Rng) -> String {
    match rng.below(10) {
        0 => String::new(),
        1 => "cameleon".into(),
        2 => (0..64).map(|_| rng.range(0x21, 0x7e) as u8 as char).collect(),
        3 => (0..63).map(|_| rng.range(0x21, 0x7e) as u8 as char).collect(),
        4 => (0..rng.range(65, 200)).map(|_| rng.range(0x21, 0x7e) as u8 as char).collect(),
        5 => "カメレオン".into(),
        6 => format!("caf{}", 'é'),
        7 => { let n = rng.below(20); let mut s: String = (0..n).map(|_| rng.range(0x20, 0x7e) as u8 as char).collect(); s.push('\0'); s.push_str("tail"); s }
        8 => (0..rng.below(64)).map(|_| rng.range(0x01, 0x7f) as u8 as char).collect(),
        _ => (0..rng.below(64)).map(|_| rng.range(0x20, 0x7e) as u8 as char).collect(),
    }
}

fn gen_arg(rng: &mut Rng, name: &str) -> Arg {
    match spec(name) {
        Some(a) if a.kind == Kind::Set => match a.dec {
            Dec::Str => Arg::Str(gen_name(rng)),
            Dec::Cfg => Arg::Cfg(if rng.bool() { rng.below(4) } else { rng.interesting_u64() }, rng.below(3) as u8),
            _ => Arg::U32(u32_interesting(rng)),
        },
        _ => Arg::None,
    }
}

/// Exhaustive sweeps of the small enumerant / bit-field domains, run on every check:
/// CURRENT_SPEED 0..=63, every one-hot value and its neighbours; all 64 file-format x 8 file-type
/// values of the manifest file-info word; all 256 alignment exponents; version words over the
/// boundary sets of their fields.
fn sweeps(cx: &mut Ctx) {
    let base = 0x4_0000u64;
    let with = |off: u64, v: u32| Image { seed: 0xC13, segs: vec![(base + off, v.to_le_bytes().to_vec())] };
    let mut speeds: Vec<u32> = (0..=63).collect();
    for k in 0..32 {
        let h = 1u32 << k;
        speeds.extend([h, h.wrapping_add(1), h.wrapping_sub(1), h | 1u32 << ((k + 1) % 32), h | 1u32 << ((k + 5) % 32)]);
    }
    speeds.extend([u32::MAX, u32::MAX - 1, 0x8000_0000]);
    for v in speeds {
        do_acc(cx, &with(0x40, v), "Sbrm.current_speed", base, 0, false, &Arg::None, "sweep-speed");
    }
    for ct in 0..64u32 {
        for ft in 0..8u32 {
            for (hi, rsv) in [(0x0101u32, 0u32), (0xFFFF, 0x7F), (0x00FF, 0x01), (0xFF00, 0x40)] {
                do_acc(cx, &with(0x04, hi << 16 | ct << 10 | rsv << 3 | ft), "ManifestEntry.file_info", base, 0, false, &Arg::None, "sweep-file-info");
            }
        }
    }
    for e in 0..=255u32 {
        for low in [0u32, 0x00FF_FFFF] {
            do_acc(cx, &with(0x00, e << 24 | low), "Sirm.payload_size_alignment", base, 0, false, &Arg::None, "sweep-alignment");
        }
    }
    let f16 = [0u32, 1, 2, 0xFF, 0x100, 0x7FFF, 0x8000, 0xFFFE, 0xFFFF];
    for ma in f16 {
        for mi in f16 {
            do_acc(cx, &with(0x00, ma << 16 | mi), "Sbrm.u3v_version", base, 0, false, &Arg::None, "sweep-version");
            // ABRM is absolute: plant at address 0
            let img = Image { seed: 0xC13, segs: vec![(0, (ma << 16 | mi).to_le_bytes().to_vec())] };
            do_acc(cx, &img, "Abrm.gencp_version", 0, 0, false, &Arg::None, "sweep-version");
        }
    }
    let f8 = [0u32, 1, 0x7F, 0x80, 0xFE, 0xFF];
    for ma in f8 {
        for mi in f8 {
            for sub in f16 {
                do_acc(cx, &with(0x00, ma << 24 | mi << 16 | sub), "ManifestEntry.genicam_file_version", base, 0, false, &Arg::None, "sweep-version");
            }
        }
    }
    for v in [0u32, 1, 2, 3, u32::MAX, 0xFFFF_FFFE] {
        do_acc(cx, &with(0x04, v), "Sirm.is_stream_enable", base, 0, false, &Arg::None, "sweep-bit");
    }
    // SHA1 register: all zero, and a single non-zero byte at each of the 20 positions
    do_acc(cx, &Image { seed: 0xC13, segs: vec![(base + 0x18, vec![0u8; 20])] }, "ManifestEntry.sha1_hash", base, 0, false, &Arg::None, "sweep-sha1");
    for pos in 0..20usize {
        for v in [1u8, 0x80, 0xFF] {
            let mut h = vec![0u8; 20];
            h[pos] = v;
            do_acc(cx, &Image { seed: 0xC13, segs: vec![(base + 0x18, h)] }, "ManifestEntry.sha1_hash", base, 0, false, &Arg::None, "sweep-sha1");
        }
    }
    // every based register placed so that it ends one byte below / exactly at / one byte past 2^64
    let top = Image { seed: 0xC13, segs: vec![] };
    for a in SPEC.iter().filter(|a| a.map != Map::Abrm) {
        for delta in [-1i128, 0, 1] {
            let b = ((1i128 << 64) - a.off as i128 - a.len as i128 + delta) as u64;
            let arg = match a.kind { Kind::Set => Arg::U32(0x0102_0304), _ => Arg::None };
            do_acc(cx, &top, a.name, b, u64::MAX, false, &arg, "sweep-register-at-top");
            do_acc(cx, &top, a.name, b, u64::MAX, true, &arg, "sweep-register-at-top");
        }
    }
    for (s, gt) in PAIRS.iter().filter(|p| p.0.starts_with("Sirm.")) {
        let a = spec(s).unwrap();
        for delta in [-1i128, 0] {
            let b = ((1i128 << 64) - a.off as i128 - a.len as i128 + delta) as u64;
            let arg = match a.kind { Kind::Set => Arg::U32(0xA1B2_C3D4), _ => Arg::None };
            do_rt(cx, &top, s, gt, b, 0, &arg, "sweep-register-at-top");
        }
    }
    for (name, off, len) in [("Sbrm.new", 4u64, 8u64), ("Sbrm.sirm", 0x20, 8), ("Sbrm.u3v_capability", 4, 8), ("ManifestTable.entries", 0, 8)] {
        for delta in [-1i128, 0, 1] {
            let b = ((1i128 << 64) - off as i128 - len as i128 + delta) as u64;
            do_acc(cx, &top, name, b, u64::MAX, false, &Arg::None, "sweep-register-at-top");
        }
    }
    // manifest tables ending exactly at / just past the end of the address space
    for (tb, n) in [(u64::MAX - 71, 1u64), (u64::MAX - 71, 2), (u64::MAX - 70, 1), (u64::MAX - 7, 0), (u64::MAX - 7, 1), (u64::MAX - 135, 2), (u64::MAX - 135, 3), (0, (1u64 << 58) - 1), (0, 1u64 << 58), (8, (1u64 << 58) - 1)] {
        let img = Image { seed: 0xC13, segs: vec![(tb, n.to_le_bytes().to_vec())] };
        do_acc(cx, &img, "ManifestTable.entries", tb, 0, false, &Arg::None, "sweep-table-end");
    }
}

fn run_replay(cx: &mut Ctx, r: &Value, src: &str) {
    if r["op"] == "accg" {
        let sc = Script { seed: r["seed"].as_str().unwrap().parse().unwrap(), k: r["k"].as_u64().unwrap(),
            short: r["short"].as_u64().unwrap() as usize, mask: r["mask"].as_u64().unwrap() as u8, n0: r["n0"].as_u64().unwrap() };
        do_accg(cx, r["name"].as_str().unwrap(), r["base"].as_str().unwrap().parse().unwrap(),
            r["cap"].as_str().unwrap().parse().unwrap(), &Arg::parse(r["arg"].as_str().unwrap()), sc, src);
        return;
    }
    let img = Image::from_json(&r["img"]);
    let base: u64 = r["base"].as_str().unwrap().parse().unwrap();
    let cap: u64 = r["cap"].as_str().unwrap().parse().unwrap();
    let arg = Arg::parse(r["arg"].as_str().unwrap());
    let name = r["name"].as_str().unwrap();
    if r["op"] == "rt" {
        do_rt(cx, &img, name, r["getter"].as_str().unwrap(), base, cap, &arg, src);
    } else {
        do_acc(cx, &img, name, base, cap, r["broken"].as_bool().unwrap(), &arg, src);
    }
}

fn main() {
    let args = parse_args();
    let mut cx = Ctx {
        rep: Report::new(
            "C13",
            "every public accessor of Abrm/Sbrm/Sirm/ManifestTable/ManifestEntry on structured pseudo-random 64-bit device images (all 2^5 x 2^3 capability-bit combinations, bases anywhere incl. the top of the address space, valid/invalid strings, enumerants, exponents), setter->getter round trips, rejecting device; a case is non-trivial when the accessor succeeds after at least one device access; distinct by (accessor, base, capability, argument, answer hash)",
        ),
        sent_img: None,
    };
    let mut rng = Rng::new(args.seed);

    if let Some(path) = &args.replay {
        let v: Value = serde_json::from_str(&std::fs::read_to_string(path).unwrap()).unwrap();
        run_replay(&mut cx, &v["replay"], "replay");
        cx.rep.write(&args);
        return;
    }

    // minimised past failures first
    let mut corpus: Vec<_> = std::fs::read_dir("/verif/corpus/C13").map(|d| d.flatten().map(|e| e.path()).collect()).unwrap_or_default();
    corpus.sort();
    for path in corpus {
        if path.extension().map_or(true, |e| e != "json") {
            continue;
        }
        let v: Value = serde_json::from_str(&std::fs::read_to_string(&path).unwrap()).unwrap();
        run_replay(&mut cx, &v["replay"], "corpus");
    }

    // The accessor list of this harness is static (calling a new accessor needs new code), so
    // it is CHECKED against the accessor table regenerated from the source: the driver
    // answers `names` with every accessor tools/gen_regmap.py found in ANY inherent impl block
    // of the five structs (it refuses impls / modules / macros it cannot see into); a new or
    // removed accessor makes this line disagree and the run fail.
    let mut names: Vec<&str> = ALL.to_vec();
    names.sort();
    cx.rep.expect("c13 names".into(), format!("ok {}", names.join(",")));

    sweeps(&mut cx);

    let rounds: u64 = if args.thorough() { 256 * 24 } else { 256 * 2 };
    for round in 0..rounds {
        let (img, lay) = gen_image(&mut rng, round);
        for name in ALL {
            let (base, cap) = receiver_of(name, &lay);
            let arg = gen_arg(&mut rng, name);
            do_acc(&mut cx, &img, name, base, cap, false, &arg, "structured");
            if rng.chance(1, 16) {
                do_acc(&mut cx, &img, name, base, cap, true, &arg, "rejecting-device");
            }
            if rng.chance(1, 8) {
                // same accessor at an unrelated base (pure noise image there)
                let (b2, c2) = (gen_base(&mut rng), rng.next_u64());
                do_acc(&mut cx, &img, name, b2, c2, false, &arg, "noise-base");
            }
        }
        for (s, gt) in PAIRS {
            let (base, cap) = receiver_of(s, &lay);
            let arg = gen_arg(&mut rng, s);
            do_rt(&mut cx, &img, s, gt, base, cap, &arg, "structured");
        }
        // every accessor on the scripted stateful device (a second DeviceControl implementation)
        for name in ALL {
            let sc = gen_script(&mut rng);
            let base = if rng.chance(1, 4) { gen_base(&mut rng) } else { rng.below(1 << 40) };
            let cap = match rng.below(3) { 0 => u64::MAX, 1 => rng.next_u64(), _ => rng.next_u64() & rng.next_u64() };
            let arg = gen_arg(&mut rng, name);
            do_accg(&mut cx, name, base, cap, &arg, sc, "scripted-device");
        }
        if round % 128 == 127 {
            cx.rep.flush_model(&args.camdrv);
            cx.sent_img = None;
        }
    }
    cx.rep.extra.insert("accessors_exercised".into(), json!(ALL.len()));
    cx.rep.extra.insert("capability_combinations".into(), json!("all 256 (device capability bits 0,8,12,13,14 x U3V capability bits 0,1,2), other bits zero/ones/random"));
    cx.rep.write(&args);
}
