//! C11 — stream leader/trailer decoding (`device/src/u3v/protocol/stream.rs`), pixel-format
//! code tables (`device/src/pixel_format.rs`), payload assembly
//! (`cameleon/src/u3v/stream_handle.rs::PayloadBuilder` through the `verif_build_payload`
//! hook) and the `Payload` views (`cameleon/src/payload.rs`).
//!
//! Real code vs the Lean model (`CamVerif.Model.Stream`, `CamVerif.Gen.PixelFormat`), plus the
//! property oracle evaluated on the implementation's own outputs against an independent
//! Rust-side decode (absolute offsets of the U3V layout).

use std::collections::BTreeSet;
use std::convert::TryFrom;

use camharness::*;
use cameleon::payload::{Payload, PayloadType as PT};
use cameleon::u3v::stream_handle::verif_build_payload;
use cameleon::StreamError;
use cameleon_device::u3v::protocol::stream::{
    ChunkLeader, ChunkTrailer, ImageExtendedChunkLeader, ImageExtendedChunkTrailer, ImageLeader, ImageTrailer,
    Leader, PayloadStatus, PayloadType, Trailer,
};
use cameleon_device::u3v::Error;
use cameleon_device::PixelFormat;

const LEADER_MAGIC: u32 = 0x4C56_3355;
const TRAILER_MAGIC: u32 = 0x5456_3355;
const T_IMAGE: u16 = 0x0001;
const T_EXT: u16 = 0x4001;
const T_CHUNK: u16 = 0x4000;

fn err_name(e: &Error) -> &'static str {
    match e {
        Error::LibUsb(_) => "LibUsb",
        Error::InvalidPacket(_) => "InvalidPacket",
        Error::BufferIo(_) => "BufferIo",
        Error::InvalidDevice => "InvalidDevice",
    }
}

fn serr_name(e: &StreamError) -> &'static str {
    match e {
        StreamError::ReceiveError(_) => "ReceiveError",
        StreamError::SendError(_) => "SendError",
        StreamError::InvalidPayload(_) => "InvalidPayload",
        StreamError::Disconnected => "Disconnected",
        StreamError::Io(_) => "Io",
        StreamError::Timeout => "Timeout",
        StreamError::Poisoned(_) => "Poisoned",
        StreamError::BufferTooSmall => "BufferTooSmall",
        StreamError::InStreaming => "InStreaming",
    }
}

fn le(b: &[u8]) -> u64 {
    b.iter().rev().fold(0u64, |a, x| (a << 8) | *x as u64)
}

fn pt_name(t: PayloadType) -> &'static str {
    match t {
        PayloadType::Image => "Image",
        PayloadType::ImageExtendedChunk => "ImageExtendedChunk",
        PayloadType::Chunk => "Chunk",
    }
}

fn pt_code(t: PayloadType) -> u16 {
    match t {
        PayloadType::Image => T_IMAGE,
        PayloadType::ImageExtendedChunk => T_EXT,
        PayloadType::Chunk => T_CHUNK,
    }
}

fn st_name(s: PayloadStatus) -> &'static str {
    match s {
        PayloadStatus::Success => "Success",
        PayloadStatus::DataDiscarded => "DataDiscarded",
        PayloadStatus::DataOverrun => "DataOverrun",
    }
}

fn st_code(s: PayloadStatus) -> u16 {
    match s {
        PayloadStatus::Success => 0x0000,
        PayloadStatus::DataDiscarded => 0xA100,
        PayloadStatus::DataOverrun => 0xA101,
    }
}

// ---------------------------------------------------------------------------
// Independent reference decode (absolute offsets of the U3V stream layout)
// ---------------------------------------------------------------------------

#[derive(Clone, Debug, PartialEq)]
struct RefLeader {
    size: u16,
    id: u64,
    ptype: u16,
}

fn ref_leader(b: &[u8]) -> Option<RefLeader> {
    if b.len() < 20 || le(&b[0..4]) != LEADER_MAGIC as u64 {
        return None;
    }
    let ptype = le(&b[18..20]) as u16;
    if ![T_IMAGE, T_EXT, T_CHUNK].contains(&ptype) {
        return None;
    }
    Some(RefLeader { size: le(&b[6..8]) as u16, id: le(&b[8..16]), ptype })
}

#[derive(Clone, Debug, PartialEq)]
struct RefImageLeader {
    ts: u64,
    pf: u32,
    w: u32,
    h: u32,
    xo: u32,
    yo: u32,
    xp: u16,
}

/// Image / image-extended-chunk leader (52 bytes incl. trailing reserved u16).
fn ref_image_leader(b: &[u8]) -> Option<RefImageLeader> {
    if b.len() < 52 {
        return None;
    }
    Some(RefImageLeader {
        ts: le(&b[20..28]),
        pf: le(&b[28..32]) as u32,
        w: le(&b[32..36]) as u32,
        h: le(&b[36..40]) as u32,
        xo: le(&b[40..44]) as u32,
        yo: le(&b[44..48]) as u32,
        xp: le(&b[48..50]) as u16,
    })
}

fn ref_chunk_leader_ts(b: &[u8]) -> Option<u64> {
    (b.len() >= 28).then(|| le(&b[20..28]))
}

#[derive(Clone, Debug, PartialEq)]
struct RefTrailer {
    size: u16,
    id: u64,
    status: u16,
    valid: u64,
}

fn ref_trailer(b: &[u8]) -> Option<RefTrailer> {
    if b.len() < 28 || le(&b[0..4]) != TRAILER_MAGIC as u64 {
        return None;
    }
    let status = le(&b[16..18]) as u16;
    if ![0x0000, 0xA100, 0xA101].contains(&status) {
        return None;
    }
    Some(RefTrailer { size: le(&b[6..8]) as u16, id: le(&b[8..16]), status, valid: le(&b[20..28]) })
}

fn ref_u32_at(b: &[u8], off: usize) -> Option<u32> {
    (b.len() >= off + 4).then(|| le(&b[off..off + 4]) as u32)
}

/// Byte order of the 4-byte chunk id / chunk length fields.
#[derive(Clone, Copy, PartialEq, Debug)]
enum Order {
    Big,
    Little,
}

/// TRANSCRIPTION CHOICE (one line to flip; keep equal to `chunkLengthOrder` in
/// lean/CamVerif/Spec/StreamLayout.lean).  The chunk LENGTH field is read big-endian because
/// that is what `stream_handle.rs` does (`u32::from_be_bytes`); the standard text is not
/// available offline and nothing else in /repo (no test, no sample data, no producer of chunk
/// payloads) confirms or contradicts it.  Independent recollection (USB3 Vision is little-endian
/// throughout; GenICam's U3V chunk adapter reads id/length without byte swap, only the GEV one
/// swaps; aravis uses little-endian for U3V chunks) says LITTLE.  The oracle certifies whichever
/// order is written here; `build:ext-layout …` counters show how many generated layouts tell
/// the two readings apart.
const CHUNK_LEN_ORDER: Order = Order::Big;

fn chunk_len(order: Order, f: [u8; 4]) -> u32 {
    match order {
        Order::Big => u32::from_be_bytes(f),
        Order::Little => u32::from_le_bytes(f),
    }
}

/// Chunk layout decoded from the end of `buf[..valid]`: data size of the first chunk.
/// `Err(true)` = layout malformed (error expected), `Err(false)` = a length field lies outside
/// the buffer (only possible outside the premise `valid <= buf.len()`).
fn ref_walk(buf: &[u8], valid: u64, order: Order) -> Result<u64, bool> {
    let mut end = valid as i128;
    loop {
        if end < 4 {
            return Err(true);
        }
        let lp = (end - 4) as u128;
        if lp + 4 > buf.len() as u128 {
            return Err(false);
        }
        let lp = lp as usize;
        let n = chunk_len(order, [buf[lp], buf[lp + 1], buf[lp + 2], buf[lp + 3]]) as i128;
        let start = end - 8 - n;
        if start < 0 {
            return Err(true);
        }
        if start == 0 {
            return Ok(n as u64);
        }
        end = start;
    }
}

// ---------------------------------------------------------------------------
// Packet construction (harness side; plain byte pushes)
// ---------------------------------------------------------------------------

fn push(v: &mut Vec<u8>, x: u64, n: usize) {
    for i in 0..n {
        v.push((x >> (8 * i)) as u8);
    }
}

#[derive(Clone, Debug)]
struct LeaderSpec {
    magic: u32,
    r1: u16,
    size: u16,
    id: u64,
    r2: u16,
    ptype: u16,
    ts: u64,
    pf: u32,
    w: u32,
    h: u32,
    xo: u32,
    yo: u32,
    xp: u16,
    r3: u16,
}

impl LeaderSpec {
    fn random(rng: &mut Rng, ptype: u16, pfs: &[u32]) -> Self {
        let geom = |rng: &mut Rng| match rng.below(5) {
            0 => 0,
            1 => u32::MAX,
            2 => rng.below(8192) as u32,
            3 => 1u32 << rng.below(32),
            _ => rng.next_u64() as u32,
        };
        LeaderSpec {
            magic: LEADER_MAGIC,
            r1: if rng.chance(1, 4) { rng.next_u64() as u16 } else { 0 },
            size: if rng.chance(1, 2) { 52 } else { rng.next_u64() as u16 },
            id: rng.interesting_u64(),
            r2: if rng.chance(1, 4) { rng.next_u64() as u16 } else { 0 },
            ptype,
            ts: rng.interesting_u64(),
            pf: if pfs.is_empty() || rng.chance(1, 10) { rng.next_u64() as u32 } else { *rng.pick(pfs) },
            w: geom(rng),
            h: geom(rng),
            xo: geom(rng),
            yo: geom(rng),
            xp: rng.next_u64() as u16,
            r3: if rng.chance(1, 4) { rng.next_u64() as u16 } else { 0 },
        }
    }
    fn bytes(&self) -> Vec<u8> {
        let mut v = vec![];
        push(&mut v, self.magic as u64, 4);
        push(&mut v, self.r1 as u64, 2);
        push(&mut v, self.size as u64, 2);
        push(&mut v, self.id, 8);
        push(&mut v, self.r2 as u64, 2);
        push(&mut v, self.ptype as u64, 2);
        push(&mut v, self.ts, 8);
        if self.ptype != T_CHUNK {
            push(&mut v, self.pf as u64, 4);
            push(&mut v, self.w as u64, 4);
            push(&mut v, self.h as u64, 4);
            push(&mut v, self.xo as u64, 4);
            push(&mut v, self.yo as u64, 4);
            push(&mut v, self.xp as u64, 2);
            push(&mut v, self.r3 as u64, 2);
        }
        v
    }
}

#[derive(Clone, Debug)]
struct TrailerSpec {
    magic: u32,
    r1: u16,
    size: u16,
    id: u64,
    status: u16,
    r2: u16,
    valid: u64,
    /// which specific part to append (payload type code)
    kind: u16,
    height: u32,
    layout: u32,
}

impl TrailerSpec {
    fn random(rng: &mut Rng, kind: u16, valid: u64) -> Self {
        TrailerSpec {
            magic: TRAILER_MAGIC,
            r1: if rng.chance(1, 4) { rng.next_u64() as u16 } else { 0 },
            size: if rng.chance(1, 2) { 36 } else { rng.next_u64() as u16 },
            id: rng.interesting_u64(),
            status: 0,
            r2: if rng.chance(1, 4) { rng.next_u64() as u16 } else { 0 },
            valid,
            kind,
            height: match rng.below(3) {
                0 => rng.below(5000) as u32,
                1 => u32::MAX,
                _ => rng.next_u64() as u32,
            },
            layout: rng.next_u64() as u32,
        }
    }
    fn bytes(&self) -> Vec<u8> {
        let mut v = vec![];
        push(&mut v, self.magic as u64, 4);
        push(&mut v, self.r1 as u64, 2);
        push(&mut v, self.size as u64, 2);
        push(&mut v, self.id, 8);
        push(&mut v, self.status as u64, 2);
        push(&mut v, self.r2 as u64, 2);
        push(&mut v, self.valid, 8);
        match self.kind {
            T_IMAGE => push(&mut v, self.height as u64, 4),
            T_EXT => {
                push(&mut v, self.height as u64, 4);
                push(&mut v, self.layout as u64, 4);
            }
            _ => push(&mut v, self.layout as u64, 4),
        }
        v
    }
}

// ---------------------------------------------------------------------------
// Parsers: implementation answers + oracle
// ---------------------------------------------------------------------------

type Part<T> = Result<Result<T, &'static str>, ()>; // Err(()) = panic

fn show_part<T>(p: &Part<T>, f: impl Fn(&T) -> String) -> String {
    match p {
        Err(()) => "panic".into(),
        Ok(Err(e)) => format!("err:{e}"),
        Ok(Ok(x)) => format!("ok:{}", f(x)),
    }
}

#[derive(Clone, Debug, PartialEq)]
struct ImplImageLeader {
    ts: u128,
    pf: PixelFormat,
    w: u32,
    h: u32,
    xo: u32,
    yo: u32,
    xp: u16,
}

fn show_il(x: &ImplImageLeader) -> String {
    format!("{}:{:?}:{}:{}:{}:{}:{}", x.ts, x.pf, x.w, x.h, x.xo, x.yo, x.xp)
}

macro_rules! image_leader_of {
    ($l:expr, $t:ty) => {
        catch(|| {
            $l.specific_leader_as::<$t>().map_err(|e| err_name(&e)).map(|x| ImplImageLeader {
                ts: x.timestamp().as_nanos(),
                pf: x.pixel_format(),
                w: x.width(),
                h: x.height(),
                xo: x.x_offset(),
                yo: x.y_offset(),
                xp: x.x_padding(),
            })
        })
    };
}

fn check_image_leader(which: &str, b: &[u8], got: &Part<ImplImageLeader>) -> Option<String> {
    match got {
        Err(()) => Some(format!("{which} specific leader panics")),
        Ok(Ok(x)) => match ref_image_leader(b) {
            None => Some(format!("{which} specific leader decoded from a packet shorter than 52 bytes")),
            Some(r) => {
                // pixel format through the frozen PFNC reference, not the implementation's table
                let same = x.ts == r.ts as u128
                    && pfnc().get(&r.pf).map(|n| n.to_string()) == Some(format!("{:?}", x.pf))
                    && (x.w, x.h, x.xo, x.yo, x.xp) == (r.w, r.h, r.xo, r.yo, r.xp);
                (!same).then(|| format!("{which} specific leader fields differ from the layout decode: {x:?} vs {r:?}"))
            }
        },
        Ok(Err(_)) => match ref_image_leader(b) {
            Some(r) if pfnc().contains_key(&r.pf) => {
                Some(format!("{which} specific leader rejected although complete with a known pixel format"))
            }
            _ => None,
        },
    }
}

fn do_leader(rep: &mut Report, b: &[u8], src: &str) {
    let generic = catch(|| Leader::parse(b).map_err(|e| err_name(&e)));
    rep.count(&format!("leader/{src}"));
    let mut problems: Vec<String> = vec![];
    let ans = match &generic {
        Err(()) => {
            problems.push("Leader::parse panics".into());
            "panic".to_string()
        }
        Ok(Err(e)) => {
            if ref_leader(b).is_some() {
                problems.push("Leader::parse rejects a well-formed generic leader".into());
            }
            format!("err {e}")
        }
        Ok(Ok(l)) => {
            let r = ref_leader(b);
            match &r {
                None => problems.push("Leader::parse accepts what the layout decode rejects".into()),
                Some(r) => {
                    if (l.leader_size(), l.block_id(), pt_code(l.payload_type())) != (r.size, r.id, r.ptype) {
                        problems.push(format!("generic leader fields differ from the layout decode: {r:?}"));
                    }
                }
            }
            let img = image_leader_of!(l, ImageLeader);
            let ext = image_leader_of!(l, ImageExtendedChunkLeader);
            let chunk: Part<u128> =
                catch(|| l.specific_leader_as::<ChunkLeader>().map_err(|e| err_name(&e)).map(|x| x.timestamp().as_nanos()));
            problems.extend(check_image_leader("image", b, &img));
            problems.extend(check_image_leader("image-extended-chunk", b, &ext));
            match (&chunk, ref_chunk_leader_ts(b)) {
                (Err(()), _) => problems.push("chunk specific leader panics".into()),
                (Ok(Ok(ts)), Some(r)) if *ts == r as u128 => {}
                (Ok(Err(_)), None) => {}
                _ => problems.push("chunk specific leader differs from the layout decode".into()),
            }
            format!(
                "ok size={} id={} type={} img={} ext={} chunk={}",
                l.leader_size(),
                l.block_id(),
                pt_name(l.payload_type()),
                show_part(&img, show_il),
                show_part(&ext, show_il),
                show_part(&chunk, |t| t.to_string())
            )
        }
    };
    rep.count(match &generic {
        Err(()) => "leader:panic",
        Ok(Err(e)) => {
            if *e == "BufferIo" {
                "leader:err-BufferIo"
            } else {
                "leader:err-InvalidPacket"
            }
        }
        Ok(Ok(_)) => "leader:ok",
    });
    rep.case(&format!("leader {}", hex(b)), matches!(generic, Ok(Ok(_))));
    for p in problems {
        let kind = if p.contains("panic") { "panic" } else { "unfaithful" };
        rep.violation(json!({"kind": "leader-parse", "class": kind}), &p, json!({"op": "leader", "bytes": hex(b)}));
    }
    let req = format!("c11 leader {}", hex(b));
    if rep.evaluations % 7919 == 1 {
        rep.sample(json!({"request": req, "impl": ans}));
    }
    rep.expect(req, ans);
}

fn do_trailer(rep: &mut Report, b: &[u8], src: &str) {
    let generic = catch(|| Trailer::parse(b).map_err(|e| err_name(&e)));
    rep.count(&format!("trailer/{src}"));
    let mut problems: Vec<String> = vec![];
    let ans = match &generic {
        Err(()) => {
            problems.push("Trailer::parse panics".into());
            "panic".to_string()
        }
        Ok(Err(e)) => {
            if ref_trailer(b).is_some() {
                problems.push("Trailer::parse rejects a well-formed generic trailer".into());
            }
            format!("err {e}")
        }
        Ok(Ok(t)) => {
            match ref_trailer(b) {
                None => problems.push("Trailer::parse accepts what the layout decode rejects".into()),
                Some(r) => {
                    if (t.trailer_size(), t.block_id(), st_code(t.payload_status()), t.valid_payload_size())
                        != (r.size, r.id, r.status, r.valid)
                    {
                        problems.push(format!("generic trailer fields differ from the layout decode: {r:?}"));
                    }
                }
            }
            let img: Part<u32> =
                catch(|| t.specific_trailer_as::<ImageTrailer>().map_err(|e| err_name(&e)).map(|x| x.actual_height()));
            let ext: Part<(u32, u32)> = catch(|| {
                t.specific_trailer_as::<ImageExtendedChunkTrailer>()
                    .map_err(|e| err_name(&e))
                    .map(|x| (x.actual_height(), x.chunk_layout_id()))
            });
            let chunk: Part<u32> =
                catch(|| t.specific_trailer_as::<ChunkTrailer>().map_err(|e| err_name(&e)).map(|x| x.chunk_layout_id()));
            match (&img, ref_u32_at(b, 28)) {
                (Err(()), _) => problems.push("image specific trailer panics".into()),
                (Ok(Ok(h)), Some(r)) if *h == r => {}
                (Ok(Err(_)), None) => {}
                _ => problems.push("image specific trailer differs from the layout decode".into()),
            }
            match (&ext, ref_u32_at(b, 28).zip(ref_u32_at(b, 32))) {
                (Err(()), _) => problems.push("image-extended-chunk specific trailer panics".into()),
                (Ok(Ok(x)), Some(r)) if *x == r => {}
                (Ok(Err(_)), None) => {}
                _ => problems.push("image-extended-chunk specific trailer differs from the layout decode".into()),
            }
            match (&chunk, ref_u32_at(b, 28)) {
                (Err(()), _) => problems.push("chunk specific trailer panics".into()),
                (Ok(Ok(l)), Some(r)) if *l == r => {}
                (Ok(Err(_)), None) => {}
                _ => problems.push("chunk specific trailer differs from the layout decode".into()),
            }
            format!(
                "ok size={} id={} status={} valid={} img={} ext={} chunk={}",
                t.trailer_size(),
                t.block_id(),
                st_name(t.payload_status()),
                t.valid_payload_size(),
                show_part(&img, |h| h.to_string()),
                show_part(&ext, |x| format!("{}:{}", x.0, x.1)),
                show_part(&chunk, |l| l.to_string())
            )
        }
    };
    rep.count(match &generic {
        Err(()) => "trailer:panic",
        Ok(Err(e)) => {
            if *e == "BufferIo" {
                "trailer:err-BufferIo"
            } else {
                "trailer:err-InvalidPacket"
            }
        }
        Ok(Ok(_)) => "trailer:ok",
    });
    rep.case(&format!("trailer {}", hex(b)), matches!(generic, Ok(Ok(_))));
    for p in problems {
        let kind = if p.contains("panic") { "panic" } else { "unfaithful" };
        rep.violation(json!({"kind": "trailer-parse", "class": kind}), &p, json!({"op": "trailer", "bytes": hex(b)}));
    }
    let req = format!("c11 trailer {}", hex(b));
    if rep.evaluations % 7919 == 2 {
        rep.sample(json!({"request": req, "impl": ans}));
    }
    rep.expect(req, ans);
}

// ---------------------------------------------------------------------------
// Pixel formats
// ---------------------------------------------------------------------------

/// Every u32 in `[lo, hi)` the real `TryFrom<u32>` accepts (multi-threaded sweep).
fn sweep(lo: u64, hi: u64) -> Vec<(u32, PixelFormat)> {
    let threads = std::thread::available_parallelism().map(|n| n.get()).unwrap_or(4).min(16) as u64;
    let span = (hi - lo + threads - 1) / threads;
    let mut out = vec![];
    std::thread::scope(|s| {
        let hs: Vec<_> = (0..threads)
            .map(|t| {
                s.spawn(move || {
                    let a = lo + t * span;
                    let b = (a + span).min(hi);
                    let mut v = vec![];
                    let mut c = a;
                    while c < b {
                        if let Ok(f) = PixelFormat::try_from(c as u32) {
                            v.push((c as u32, f));
                        }
                        c += 1;
                    }
                    v
                })
            })
            .collect();
        for h in hs {
            out.extend(h.join().unwrap());
        }
    });
    out.sort_by_key(|x| x.0);
    out
}

/// All hexadecimal literals of at least 5 digits in the pixel-format source: candidate codes,
/// obtained independently of the generator and of the sweep.
fn source_literals() -> Vec<u32> {
    let repo = std::env::var("VERIF_REPO").unwrap_or_else(|_| "/repo".into());
    let src = std::fs::read_to_string(format!("{repo}/device/src/pixel_format.rs")).unwrap_or_default();
    let mut out = BTreeSet::new();
    let b = src.as_bytes();
    let mut i = 0;
    while i + 2 < b.len() {
        if b[i] == b'0' && (b[i + 1] == b'x' || b[i + 1] == b'X') {
            let mut j = i + 2;
            let mut digits = String::new();
            while j < b.len() && (b[j].is_ascii_hexdigit() || b[j] == b'_') {
                if b[j] != b'_' {
                    digits.push(b[j] as char);
                }
                j += 1;
            }
            if digits.len() >= 5 && digits.len() <= 8 {
                if let Ok(v) = u32::from_str_radix(&digits, 16) {
                    out.insert(v);
                }
            }
            i = j;
        } else {
            i += 1;
        }
    }
    out.into_iter().collect()
}

/// Frozen, independent PFNC reference (harness/data/pfnc.txt = lean/CamVerif/Spec/PFNC.lean).
fn pfnc() -> &'static std::collections::HashMap<u32, &'static str> {
    static T: std::sync::OnceLock<std::collections::HashMap<u32, &'static str>> = std::sync::OnceLock::new();
    T.get_or_init(|| {
        include_str!("../../data/pfnc.txt")
            .lines()
            .filter(|l| !l.starts_with('#') && !l.trim().is_empty())
            .map(|l| {
                let mut it = l.split_whitespace();
                let name = it.next().unwrap();
                let code = u32::from_str_radix(it.next().unwrap().trim_start_matches("0x"), 16).unwrap();
                (code, name)
            })
            .collect()
    })
}

fn do_pf(rep: &mut Report, code: u32, src: &str) {
    // independent PFNC oracle: a code is accepted iff the reference knows it, as that format
    {
        let got = catch(|| PixelFormat::try_from(code).ok().map(|f| format!("{f:?}")));
        let want = pfnc().get(&code).map(|s| s.to_string());
        if let Ok(got) = got {
            if got != want {
                rep.violation(
                    json!({"kind": "pixel-format", "class": "not-pfnc"}),
                    &format!("code {code:#010x}: implementation decodes {got:?}, the PFNC reference says {want:?}"),
                    json!({"op": "pf", "code": code}),
                );
            }
        }
    }
    let r = catch(|| PixelFormat::try_from(code).ok().map(|f| (f, u32::from(f))));
    rep.count(&format!("pf/{src}"));
    let ans = match &r {
        Err(()) => {
            rep.violation(json!({"kind": "pixel-format", "class": "panic"}), "PixelFormat conversion panics",
                json!({"op": "pf", "code": code}));
            "panic".to_string()
        }
        Ok(None) => "err".to_string(),
        Ok(Some((f, back))) => {
            if *back != code {
                rep.violation(
                    json!({"kind": "pixel-format", "class": "round-trip"}),
                    &format!("code {code:#x} decodes to {f:?} which encodes to {back:#x}"),
                    json!({"op": "pf", "code": code}),
                );
            }
            format!("ok {f:?} {back}")
        }
    };
    rep.count(if matches!(r, Ok(Some(_))) { "pf:ok" } else { "pf:err" });
    rep.case(&format!("pf {code}"), matches!(r, Ok(Some(_))));
    let req = format!("c11 pf {code}");
    if rep.evaluations % 7919 == 3 {
        rep.sample(json!({"request": req, "impl": ans}));
    }
    rep.expect(req, ans);
    // The same code THROUGH the two duplicated specific-leader decoders (`ImageLeader` and
    // `ImageExtendedChunkLeader` each carry their own `read u32 -> try_into`) and, except for the
    // bulk random stream, through the builder: model differential + PFNC oracle on each.
    for ptype in [T_IMAGE, T_EXT] {
        let lb = pf_leader(code, ptype);
        do_leader(rep, &lb, &format!("pf-{src}"));
        if src != "random" {
            let tb = TrailerSpec { magic: TRAILER_MAGIC, r1: 0, size: 36, id: 7, status: 0, r2: 0, valid: 8, kind: ptype,
                height: 2, layout: 1 }
            .bytes();
            // 8 zero bytes = one empty chunk, so the extended-chunk walk succeeds with image size 0
            let c = BuildCase { leader: lb, trailer: tb, len: 8, seed: 1, patches: vec![(0, vec![0u8; 8])], recv: 8 };
            do_build(rep, &c, &format!("pf-{src}"));
        }
    }
}

/// A complete 52-byte leader of the given payload type carrying pixel-format code `code`;
/// the other fields are derived from the code so that the packets differ.
fn pf_leader(code: u32, ptype: u16) -> Vec<u8> {
    LeaderSpec {
        magic: LEADER_MAGIC,
        r1: 0,
        size: 52,
        id: 0x1000 + code as u64,
        r2: 0,
        ptype,
        ts: ((code as u64) << 3) | 5,
        pf: code,
        w: 640 + (code & 0xff),
        h: 480 + ((code >> 8) & 0xff),
        xo: (code >> 16) & 0xfff,
        yo: code & 0xf,
        xp: (code >> 4) as u16,
        r3: 0,
    }
    .bytes()
}

// ---------------------------------------------------------------------------
// Builder
// ---------------------------------------------------------------------------

fn pattern(len: usize, seed: u64) -> Vec<u8> {
    (0..len).map(|i| ((i as u64 * 7 + seed * 13 + 3) % 256) as u8).collect()
}

#[derive(Clone, Debug)]
struct BuildCase {
    leader: Vec<u8>,
    trailer: Vec<u8>,
    len: usize,
    seed: u64,
    patches: Vec<(usize, Vec<u8>)>,
    recv: usize,
}

impl BuildCase {
    fn buf(&self) -> Vec<u8> {
        let mut b = pattern(self.len, self.seed);
        for (off, bs) in &self.patches {
            for (k, x) in bs.iter().enumerate() {
                if off + k < b.len() {
                    b[off + k] = *x;
                }
            }
        }
        b
    }
    fn patches_str(&self) -> String {
        let s = self.patches.iter().filter(|p| !p.1.is_empty()).map(|(o, b)| format!("{o}:{}", hex(b))).collect::<Vec<_>>().join(";");
        if s.is_empty() {
            "-".into()
        } else {
            s
        }
    }
    fn request(&self) -> String {
        format!(
            "c11 build {} {} {} {} {} {} {}",
            profile(),
            hex(&self.leader),
            hex(&self.trailer),
            self.len,
            self.seed,
            self.patches_str(),
            self.recv
        )
    }
    fn replay(&self) -> Value {
        json!({"op": "build", "leader": hex(&self.leader), "trailer": hex(&self.trailer), "len": self.len,
               "seed": self.seed, "patches": self.patches_str(), "recv": self.recv.to_string()})
    }
}

#[derive(Debug, PartialEq)]
struct RefPayload {
    id: u64,
    ptype: u16,
    ts: u64,
    valid: u64,
    /// (w, h, xo, yo, PFNC name of the pixel format, image size)
    info: Option<(u64, u64, u64, u64, String, u64)>,
}

/// What a payload built from these inputs must look like, decoded independently;
/// `None` = the inputs do not describe a deliverable payload (an error is expected).
/// Only meaningful under the premise `recv <= buf.len()`.
fn ref_build(c: &BuildCase, buf: &[u8]) -> Option<RefPayload> {
    let l = ref_leader(&c.leader)?;
    let t = ref_trailer(&c.trailer)?;
    if t.status != 0 || t.valid > c.recv as u64 {
        return None;
    }
    match l.ptype {
        T_IMAGE => {
            let il = ref_image_leader(&c.leader)?;
            let pf = pfnc().get(&il.pf)?.to_string();
            let h = ref_u32_at(&c.trailer, 28)?;
            Some(RefPayload { id: l.id, ptype: l.ptype, ts: il.ts, valid: t.valid,
                info: Some((il.w as u64, h as u64, il.xo as u64, il.yo as u64, pf, t.valid)) })
        }
        T_EXT => {
            let il = ref_image_leader(&c.leader)?;
            let pf = pfnc().get(&il.pf)?.to_string();
            let h = ref_u32_at(&c.trailer, 28)?;
            ref_u32_at(&c.trailer, 32)?;
            let isz = ref_walk(buf, t.valid, CHUNK_LEN_ORDER).ok()?;
            Some(RefPayload { id: l.id, ptype: l.ptype, ts: il.ts, valid: t.valid,
                info: Some((il.w as u64, h as u64, il.xo as u64, il.yo as u64, pf, isz)) })
        }
        _ => {
            let ts = ref_chunk_leader_ts(&c.leader)?;
            ref_u32_at(&c.trailer, 28)?;
            Some(RefPayload { id: l.id, ptype: l.ptype, ts, valid: t.valid, info: None })
        }
    }
}

fn digest(b: &[u8]) -> String {
    format!("{}:{:016x}", b.len(), fnv_bytes(FNV_INIT, b))
}

fn impl_ptype(t: PT) -> (&'static str, u16) {
    match t {
        PT::Image => ("Image", T_IMAGE),
        PT::ImageExtendedChunk => ("ImageExtendedChunk", T_EXT),
        PT::Chunk => ("Chunk", T_CHUNK),
    }
}

fn do_build(rep: &mut Report, c: &BuildCase, src: &str) {
    // C11_TRACE=1: print every builder request before running it (a hang or an abort of the
    // implementation cannot be caught; the last line printed is then the failing input)
    if std::env::var_os("C11_TRACE").is_some() {
        eprintln!("{}", c.request());
    }
    let buf = c.buf();
    let in_premise = c.recv <= buf.len();
    let r: Result<Result<Payload, &'static str>, ()> =
        catch(|| verif_build_payload(&c.leader, &c.trailer, buf.clone(), c.recv).map_err(|e| serr_name(&e)));
    rep.count(&format!("build/{src}"));
    rep.count(if in_premise { "build:recv<=buf" } else { "build:recv>buf(outside premise, differential only)" });
    let mut problems: Vec<(String, String)> = vec![]; // (class, text)
    // Does this input tell a big-endian chunk length field from a little-endian one?  (The order
    // is a transcription choice taken from the code, see CHUNK_LEN_ORDER.)
    if in_premise {
        if let (Some(l), Some(t)) = (ref_leader(&c.leader), ref_trailer(&c.trailer)) {
            if l.ptype == T_EXT && t.status == 0 && t.valid <= c.recv as u64 {
                let be = ref_walk(&buf, t.valid, Order::Big);
                let le_ = ref_walk(&buf, t.valid, Order::Little);
                rep.count(match (&be, &le_) {
                    (Ok(a), Ok(b)) if a == b => "build:ext-layout byte-order-symmetric: well-formed, same image size under BE and LE",
                    (Err(_), Err(_)) => "build:ext-layout byte-order-symmetric: malformed under BE and LE",
                    (Ok(_), Ok(_)) => "build:ext-layout DISTINGUISHING: well-formed under both, different image size",
                    (Ok(_), Err(_)) => "build:ext-layout DISTINGUISHING: well-formed only with BE length fields",
                    (Err(_), Ok(_)) => "build:ext-layout DISTINGUISHING: well-formed only with LE length fields",
                });
                if le_.is_ok() && be != le_ {
                    rep.count(match &r {
                        Ok(Ok(_)) => "build:ext-layout well-formed-as-LE, differs as BE -> implementation builds a payload (BE reading)",
                        Ok(Err(_)) => "build:ext-layout well-formed-as-LE, differs as BE -> implementation returns Err",
                        Err(()) => "build:ext-layout well-formed-as-LE, differs as BE -> implementation panics",
                    });
                }
            }
        }
    }
    let ans = match &r {
        Err(()) => {
            if in_premise {
                problems.push(("panic".into(), "PayloadBuilder::build panics although recv <= buffer length".into()));
            }
            "panic".to_string()
        }
        Ok(Err(e)) => {
            if in_premise && ref_build(c, &buf).is_some() {
                problems.push(("spurious-error".into(), "builder fails on inputs that describe a deliverable payload".into()));
            }
            format!("err {e}")
        }
        Ok(Ok(p)) => {
            let info = p.image_info().cloned();
            let image = catch(|| p.image().map(|s| s.to_vec()));
            let view = catch(|| p.payload().to_vec());
            // `into_vec` zero-extends to valid_payload_size: on the unchanged code a built payload has
            // valid <= recv (<= buffer length + 3000 in the generators), but a defective builder may
            // let a declared size of 2^32.. through; never allocate that (it made one run crawl for
            // 40 minutes and a 2^40 size would abort the process).  The declared size is read from
            // the trailer bytes by the independent decode.
            let declared = ref_trailer(&c.trailer).map(|t| t.valid).unwrap_or(0);
            let vec: Result<Option<Vec<u8>>, ()> = if declared <= buf.len() as u64 + 16_384 {
                catch(|| Some(p.clone().into_vec()))
            } else {
                Ok(None)
            };
            let (tname, tcode) = impl_ptype(p.payload_type());
            let valid = view.as_ref().map(|v| v.len() as u64).ok();
            if in_premise {
                // bounds
                let isz = info.as_ref().map(|i| i.image_size as u64);
                match &view {
                    Err(()) => problems.push(("view-panic".into(), "Payload::payload() panics".into())),
                    Ok(v) => {
                        if v.len() > c.recv {
                            problems.push(("bounds".into(), format!("valid payload size {} > received {}", v.len(), c.recv)));
                        }
                        if v[..] != buf[..v.len().min(buf.len())] {
                            problems.push(("content".into(), "payload() is not a prefix of the receive buffer".into()));
                        }
                    }
                }
                match &image {
                    Err(()) => problems.push(("view-panic".into(), "Payload::image() panics".into())),
                    Ok(None) => {
                        if tcode != T_CHUNK || info.is_some() {
                            problems.push(("content".into(), "image() is None for an image payload".into()));
                        }
                    }
                    Ok(Some(im)) => {
                        if Some(im.len() as u64) != isz || im[..] != buf[..im.len().min(buf.len())] {
                            problems.push(("content".into(), "image() is not the first image_size bytes of the buffer".into()));
                        }
                    }
                }
                if let (Some(i), Some(v)) = (isz, valid) {
                    if i > v {
                        problems.push(("bounds".into(), format!("image size {i} > valid payload size {v}")));
                    }
                }
                match &vec {
                    Err(()) => problems.push(("view-panic".into(), "Payload::into_vec() panics".into())),
                    Ok(None) => problems.push((
                        "bounds".into(),
                        format!("payload built although the trailer declares {declared} valid bytes for a {}-byte buffer", buf.len()),
                    )),
                    Ok(Some(v)) => {
                        if view.as_ref().ok() != Some(v) {
                            problems.push(("content".into(), "into_vec() differs from payload()".into()));
                        }
                    }
                }
                // provenance: every field equals the independent decode
                match ref_build(c, &buf) {
                    None => problems.push(("unfaithful".into(), "payload built from inputs that do not describe a deliverable payload".into())),
                    Some(rp) => {
                        let got = RefPayload {
                            id: p.id(),
                            ptype: tcode,
                            ts: p.timestamp().as_nanos() as u64,
                            valid: valid.unwrap_or(u64::MAX),
                            info: info.as_ref().map(|i| {
                                (i.width as u64, i.height as u64, i.x_offset as u64, i.y_offset as u64,
                                 format!("{:?}", i.pixel_format), i.image_size as u64)
                            }),
                        };
                        if got != rp || p.timestamp().as_nanos() != rp.ts as u128 {
                            problems.push(("unfaithful".into(), format!("payload fields {got:?} differ from the independent decode {rp:?}")));
                        }
                    }
                }
            }
            let show_img = match &image {
                Err(()) => "panic".to_string(),
                Ok(None) => "none".to_string(),
                Ok(Some(b)) => digest(b),
            };
            format!(
                "ok id={} type={} ts={} valid={} info={} image={} payload={} vec={}",
                p.id(),
                tname,
                p.timestamp().as_nanos(),
                // valid_payload_size is private: observable as payload().len() / into_vec().len()
                match (&view, &vec) {
                    (Ok(v), _) => v.len().to_string(),
                    (_, Ok(Some(v))) => v.len().to_string(),
                    _ => "?".into(),
                },
                match &info {
                    None => "none".to_string(),
                    Some(i) => format!("{}:{}:{}:{}:{:?}:{}", i.width, i.height, i.x_offset, i.y_offset, i.pixel_format, i.image_size),
                },
                show_img,
                match &view {
                    Err(()) => "panic".to_string(),
                    Ok(b) => digest(b),
                },
                match &vec {
                    Err(()) => "panic".to_string(),
                    Ok(None) => "not-run(declared size far above the buffer)".to_string(),
                    Ok(Some(b)) => digest(b),
                }
            )
        }
    };
    rep.count(match &r {
        Err(()) => "build:panic",
        Ok(Err(_)) => "build:err",
        Ok(Ok(p)) => match p.payload_type() {
            PT::Image => "build:ok-image",
            PT::ImageExtendedChunk => "build:ok-ext",
            PT::Chunk => "build:ok-chunk",
        },
    });
    let req = c.request();
    rep.case(&req, matches!(r, Ok(Ok(_))));
    for (class, text) in problems {
        let ptype = ref_leader(&c.leader).map(|l| l.ptype).unwrap_or(0);
        rep.violation(json!({"kind": "build", "class": class, "payload_type": ptype}), &text, c.replay());
    }
    if rep.evaluations % 7919 == 4 {
        rep.sample(json!({"request": req, "impl": ans}));
    }
    rep.expect(req, ans);
}

/// Chunk trailers (id + length, big endian) for chunks with the given data sizes laid out
/// from offset 0; returns (total size, patches).
fn order_bytes(order: Order, x: u32) -> [u8; 4] {
    match order {
        Order::Big => x.to_be_bytes(),
        Order::Little => x.to_le_bytes(),
    }
}

fn chunk_layout(rng: &mut Rng, sizes: &[usize], order: Order) -> (usize, Vec<(usize, Vec<u8>)>) {
    let mut off = 0usize;
    let mut patches = vec![];
    for n in sizes {
        let mut f = vec![];
        f.extend_from_slice(&order_bytes(order, rng.next_u64() as u32));
        f.extend_from_slice(&order_bytes(order, *n as u32));
        patches.push((off + n, f));
        off += n + 8;
    }
    (off, patches)
}

fn replay_one(rep: &mut Report, r: &Value) {
    match r["op"].as_str().unwrap_or("") {
        "leader" => do_leader(rep, &unhex(r["bytes"].as_str().unwrap()), "replay"),
        "trailer" => do_trailer(rep, &unhex(r["bytes"].as_str().unwrap()), "replay"),
        "pf" => do_pf(rep, r["code"].as_u64().unwrap() as u32, "replay"),
        "build" => {
            let patches = match r["patches"].as_str().unwrap() {
                "-" => vec![],
                s => s
                    .split(';')
                    .map(|it| {
                        let (o, h) = it.split_once(':').unwrap();
                        (o.parse().unwrap(), unhex(h))
                    })
                    .collect(),
            };
            let c = BuildCase {
                leader: unhex(r["leader"].as_str().unwrap()),
                trailer: unhex(r["trailer"].as_str().unwrap()),
                len: r["len"].as_u64().unwrap() as usize,
                seed: r["seed"].as_u64().unwrap(),
                patches,
                recv: r["recv"].as_str().unwrap().parse().unwrap(),
            };
            do_build(rep, &c, "replay");
        }
        other => panic!("unknown replay op {other:?}"),
    }
}

fn main() {
    let args = parse_args();
    let mut rep = Report::new(
        "C11",
        "leader/trailer byte strings: valid packets of every type, each truncated at every offset, byte/bit mutations, \
         random strings, all 65536 payload-type and status codes; pixel formats: every code the implementation accepts \
         (found by a sweep of the u32 space) + all literals in the source + every PFNC reference code + neighbours + bit flips + \
         random codes, each probed directly AND inside an image leader and an image-extended-chunk leader (both duplicated \
         decoders) and, except the bulk random ones, through the builder; builder: exhaustive \
         small grid (type x buffer length x received x valid_payload_size) + structured chunk layouts with corrupted length \
         fields + boundary sizes; a case is non-trivial when the implementation returns Ok (packet decoded / code known / \
         payload built); distinct by full request",
    );
    let mut rng = Rng::new(args.seed);

    if let Some(path) = &args.replay {
        let v: Value = serde_json::from_str(&std::fs::read_to_string(path).unwrap()).unwrap();
        replay_one(&mut rep, &v["replay"]);
        rep.write(&args);
        return;
    }
    // minimised past failures first
    if let Ok(rd) = std::fs::read_dir("/verif/corpus/C11") {
        let mut files: Vec<_> = rd.filter_map(|e| e.ok()).map(|e| e.path()).collect();
        files.sort();
        for f in files {
            if let Ok(s) = std::fs::read_to_string(&f) {
                if let Ok(v) = serde_json::from_str::<Value>(&s) {
                    replay_one(&mut rep, &v["replay"]);
                    rep.count("corpus");
                }
            }
        }
    }
    let thorough = args.thorough();

    // ---------------- pixel formats ----------------
    // thorough: the whole u32 space; quick: every (high half) x (low half < 0x400) plus the
    // neighbourhoods of all literals in the source.
    let t_sweep = std::time::Instant::now();
    let mut accepted: Vec<(u32, PixelFormat)> = if thorough {
        sweep(0, 1u64 << 32)
    } else {
        let mut v = vec![];
        // low 16 bits < 0x400 for every high half: 2^26 codes
        std::thread::scope(|s| {
            let hs: Vec<_> = (0..16u64)
                .map(|t| {
                    s.spawn(move || {
                        let mut v = vec![];
                        for hi in (t * 4096)..((t + 1) * 4096) {
                            for lo in 0..0x400u64 {
                                let c = ((hi << 16) | lo) as u32;
                                if let Ok(f) = PixelFormat::try_from(c) {
                                    v.push((c, f));
                                }
                            }
                        }
                        v
                    })
                })
                .collect();
            for h in hs {
                v.extend(h.join().unwrap());
            }
        });
        v
    };
    let literals = source_literals();
    for l in &literals {
        if let Ok(f) = PixelFormat::try_from(*l) {
            accepted.push((*l, f));
        }
    }
    accepted.sort_by_key(|x| x.0);
    accepted.dedup_by_key(|x| x.0);
    rep.extra.insert(
        "pixel_format_sweep".into(),
        json!({"range": if thorough { "all 2^32 codes" } else { "every high half x low half < 0x400 (2^26 codes) + source literals" },
               "accepted": accepted.len(), "seconds": t_sweep.elapsed().as_secs_f64()}),
    );
    // one-to-one on the implementation: accepted codes map to pairwise distinct variants, the
    // variants are exactly the discriminants 0..n-1, each encodes back to its code
    {
        let mut by_disc: Vec<(usize, u32, PixelFormat)> = accepted.iter().map(|(c, f)| (*f as usize, *c, *f)).collect();
        by_disc.sort_by_key(|x| x.0);
        let discs: BTreeSet<usize> = by_disc.iter().map(|x| x.0).collect();
        if discs.len() != accepted.len() {
            rep.violation(json!({"kind": "pixel-format", "class": "not-injective"}),
                "two accepted codes decode to the same variant", json!({"op": "pf", "code": accepted[0].0}));
        }
        if discs.iter().next_back().map(|m| m + 1) != Some(discs.len()) {
            rep.violation(json!({"kind": "pixel-format", "class": "variant-unreachable"}),
                "some enum variant (by discriminant) is not produced by any accepted code", json!({"op": "pf", "code": 0}));
        }
        let mut hdec = FNV_INIT;
        for (c, f) in &accepted {
            hdec = fnv_bytes(fnv_u64(hdec, *c as u64), format!("{f:?}").as_bytes());
        }
        let mut henc = FNV_INIT;
        for (_, _, f) in &by_disc {
            henc = fnv_u64(fnv_bytes(henc, format!("{f:?}").as_bytes()), u32::from(*f) as u64);
        }
        let ans = format!("ok n={} variants={} hdec={:016x} henc={:016x}", accepted.len(), discs.len(), hdec, henc);
        rep.case("pfsum", true);
        rep.sample(json!({"request": "c11 pfsum", "impl": ans}));
        rep.expect("c11 pfsum".into(), ans);
    }
    let mut codes: Vec<u32> = accepted.iter().map(|x| x.0).collect();
    // every code of the PFNC reference is probed too (a renumbered format is then seen as rejected)
    for c in pfnc().keys() {
        if !codes.contains(c) {
            codes.push(*c);
        }
    }
    codes.sort();
    for c in &codes {
        do_pf(&mut rep, *c, "accepted");
        do_pf(&mut rep, c.wrapping_add(1), "neighbour");
        do_pf(&mut rep, c.wrapping_sub(1), "neighbour");
        for bit in 0..32 {
            do_pf(&mut rep, c ^ (1 << bit), "bitflip");
        }
    }
    for l in &literals {
        do_pf(&mut rep, *l, "source-literal");
    }
    for c in [0u32, 1, u32::MAX, 0x8000_0000, 0x0100_0000, 0x0200_0000] {
        do_pf(&mut rep, c, "boundary");
    }
    for _ in 0..(if thorough { 200_000 } else { 20_000 }) {
        let c = match rng.below(3) {
            0 => rng.next_u64() as u32,
            1 => (*rng.pick(&codes) & 0xFFFF_0000) | rng.below(0x200) as u32,
            _ => ((rng.below(0x300) as u32) << 16) | (*rng.pick(&codes) & 0xFFFF),
        };
        do_pf(&mut rep, c, "random");
    }
    rep.flush_model(&args.camdrv);

    // ---------------- parsers ----------------
    let types = [T_IMAGE, T_EXT, T_CHUNK];
    let n_valid = if thorough { 1500 } else { 150 };
    for i in 0..n_valid {
        let ptype = types[i % 3];
        let ls = LeaderSpec::random(&mut rng, ptype, &codes);
        let mut lb = ls.bytes();
        let extra = rng.below(6) as usize;
        lb.extend(rng.bytes(extra));
        do_leader(&mut rep, &lb, "valid");
        for cut in 0..lb.len() {
            do_leader(&mut rep, &lb[..cut], "truncated");
        }
        for _ in 0..40 {
            let mut m = lb.clone();
            let k = rng.below(m.len() as u64) as usize;
            match rng.below(3) {
                0 => m[k] ^= 1 << rng.below(8),
                1 => m[k] = rng.next_u64() as u8,
                _ => {
                    m[k] = 0xFF;
                    if k + 1 < m.len() {
                        m[k + 1] = 0xFF;
                    }
                }
            }
            do_leader(&mut rep, &m, "mutated");
        }
        let valid = rng.interesting_u64();
        let mut ts = TrailerSpec::random(&mut rng, ptype, valid);
        ts.status = *rng.pick(&[0u16, 0, 0xA100, 0xA101]);
        let mut tb = ts.bytes();
        let extra = rng.below(6) as usize;
        tb.extend(rng.bytes(extra));
        do_trailer(&mut rep, &tb, "valid");
        for cut in 0..tb.len() {
            do_trailer(&mut rep, &tb[..cut], "truncated");
        }
        for _ in 0..40 {
            let mut m = tb.clone();
            let k = rng.below(m.len() as u64) as usize;
            match rng.below(3) {
                0 => m[k] ^= 1 << rng.below(8),
                1 => m[k] = rng.next_u64() as u8,
                _ => {
                    m[k] = 0xFF;
                    if k + 1 < m.len() {
                        m[k + 1] = 0xFF;
                    }
                }
            }
            do_trailer(&mut rep, &m, "mutated");
        }
    }
    // every payload-type code and every status code in an otherwise valid packet
    {
        let base_l = LeaderSpec::random(&mut rng, T_IMAGE, &codes);
        let base_t = TrailerSpec::random(&mut rng, T_EXT, 4096);
        for code in 0..=u16::MAX {
            let mut l = base_l.clone();
            l.ptype = code;
            // keep the 32-byte specific part regardless of the code
            let mut lb = LeaderSpec { ptype: T_IMAGE, ..l.clone() }.bytes();
            lb[18] = code as u8;
            lb[19] = (code >> 8) as u8;
            do_leader(&mut rep, &lb, "all-type-codes");
            let mut t = base_t.clone();
            t.status = code;
            do_trailer(&mut rep, &t.bytes(), "all-status-codes");
        }
    }
    for _ in 0..(if thorough { 60_000 } else { 6_000 }) {
        let n = rng.below(64) as usize;
        let mut b = rng.bytes(n);
        let force_magic = rng.chance(2, 3);
        if force_magic && b.len() >= 4 {
            let m = if rng.bool() { LEADER_MAGIC } else { TRAILER_MAGIC };
            b[..4].copy_from_slice(&m.to_le_bytes());
        }
        if force_magic && b.len() >= 20 && rng.bool() {
            let t = *rng.pick(&types);
            b[18] = t as u8;
            b[19] = (t >> 8) as u8;
            let s = *rng.pick(&[0u16, 0xA100, 0xA101]);
            b[16] = s as u8;
            b[17] = (s >> 8) as u8;
        }
        do_leader(&mut rep, &b, "random");
        do_trailer(&mut rep, &b, "random");
    }
    rep.flush_model(&args.camdrv);

    // ---------------- builder ----------------
    let some_pf = *codes.first().unwrap_or(&0x0108_0001);
    let plain_leader = |rng: &mut Rng, ptype: u16| {
        let mut l = LeaderSpec::random(rng, ptype, &[]);
        l.pf = some_pf;
        l
    };
    // (1) exhaustive small grid
    let max_l = if thorough { 34 } else { 20 };
    for &ptype in &types {
        let lb = plain_leader(&mut rng, ptype).bytes();
        for len in 0..=max_l {
            for recv in 0..=(len + 1) {
                for valid in 0..=(len as u64 + 2) {
                    let tb = TrailerSpec::random(&mut rng, ptype, valid).bytes();
                    // buffer contents: all zero / small length bytes / pattern
                    let fills: Vec<Vec<(usize, Vec<u8>)>> = if ptype == T_EXT {
                        vec![
                            vec![(0, vec![0u8; len])],
                            vec![(0, (0..len).map(|i| if i % 4 == 3 { (i % 13) as u8 } else { 0 }).collect())],
                            vec![(0, (0..len).map(|i| if i % 4 == 3 { ((i * 5) % 23) as u8 } else { 0 }).collect())],
                        ]
                    } else {
                        vec![vec![]]
                    };
                    for patches in fills {
                        let c = BuildCase { leader: lb.clone(), trailer: tb.clone(), len, seed: 1, patches, recv };
                        do_build(&mut rep, &c, "grid");
                    }
                }
            }
        }
        if rep.evaluations > 300_000 {
            rep.flush_model(&args.camdrv);
        }
    }
    rep.extra.insert("chunk_length_byte_order".into(), json!({"transcribed_as": format!("{:?}", CHUNK_LEN_ORDER),
        "source_of_choice": "code (u32::from_be_bytes in stream_handle.rs); standard text unavailable offline; independent recollection says Little for U3V",
        "see_counters": "input_distribution: build:ext-layout …"}));
    rep.extra.insert("builder_grid".into(), json!({"buffer_len": format!("0..={max_l}"), "recv": "0..=len+1", "valid": "0..=len+2",
        "types": 3, "exhaustive_over_grid": true}));

    // (2) structured chunk layouts, intact and corrupted, sizes around every boundary
    let rounds = if thorough { 200_000 } else { 20_000 };
    for _ in 0..rounds {
        let ptype = *rng.pick(&[T_EXT, T_EXT, T_EXT, T_IMAGE, T_CHUNK]);
        let nchunks = 1 + rng.below(4) as usize;
        let sizes: Vec<usize> = (0..nchunks)
            .map(|_| match rng.below(5) {
                0 => 0,
                1 => rng.below(4) as usize,
                2 => rng.below(64) as usize,
                3 => 256 + rng.below(8) as usize,
                _ => rng.below(1500) as usize,
            })
            .collect();
        // a quarter of the layouts carry LITTLE-endian id/length fields (what a camera would send
        // if the recollection about U3V chunk byte order is right; see CHUNK_LEN_ORDER)
        let order = if rng.chance(1, 4) { Order::Little } else { Order::Big };
        let (total, mut patches) = chunk_layout(&mut rng, &sizes, order);
        // corrupt one length field in a third of the cases
        let mut corrupted = false;
        if rng.chance(1, 3) {
            let k = rng.below(patches.len() as u64) as usize;
            let n = sizes[k] as u32;
            let end_of_k: usize = patches[k].0 + 8;
            let bad = match rng.below(8) {
                0 => n.wrapping_add(1),
                1 => n.wrapping_sub(1),
                2 => n.wrapping_add(8),
                3 => 0,
                4 => u32::MAX,
                5 => (end_of_k as u32).wrapping_sub(8), // walk lands exactly on offset 0
                6 => (end_of_k as u32).wrapping_sub(7), // one too many: underflow
                _ => rng.next_u64() as u32,
            };
            patches[k].1[4..8].copy_from_slice(&order_bytes(order, bad));
            corrupted = true;
        }
        let valid: u64 = match rng.below(12) {
            0 => total as u64 + 1,
            1 => (total as u64).saturating_sub(1),
            2 => rng.below(9),
            3 => rng.below(total as u64 + 1),
            4 => 1 << 32,
            5 => *rng.pick(&[u64::MAX, 1 << 63, (1 << 32) + total as u64]),
            _ => total as u64,
        };
        let len: usize = match rng.below(8) {
            0 => total.saturating_sub(1),
            1 => total + 1,
            2 => total + rng.below(600) as usize,
            3 => (valid.min(1 << 16) as usize).saturating_sub(1),
            _ => total,
        };
        let recv: usize = match rng.below(10) {
            0 => (valid.min(1 << 16) as usize).saturating_sub(1),
            1 => valid.min(1 << 16) as usize + 1,
            2 => len,
            3 => len + 1,
            4 => len.saturating_sub(1),
            5 => rng.below(len as u64 + 1) as usize,
            6 => len + rng.below(3000) as usize,
            _ => valid.min(1 << 16) as usize,
        };
        let mut ls = plain_leader(&mut rng, ptype);
        if rng.chance(1, 12) {
            ls.pf = rng.next_u64() as u32; // most likely unknown
        }
        let mut lb = ls.bytes();
        if rng.chance(1, 12) {
            let cut = rng.below(lb.len() as u64 + 1) as usize;
            lb.truncate(cut);
        }
        let mut tspec = TrailerSpec::random(&mut rng, ptype, valid);
        if rng.chance(1, 10) {
            tspec.status = *rng.pick(&[0xA100u16, 0xA101, 1, 0xFFFF]);
        }
        if rng.chance(1, 15) {
            tspec.kind = *rng.pick(&types); // specific trailer of another type (shorter / longer)
        }
        let mut tb = tspec.bytes();
        if rng.chance(1, 12) {
            let cut = rng.below(tb.len() as u64 + 1) as usize;
            tb.truncate(cut);
        }
        let c = BuildCase { leader: lb, trailer: tb, len, seed: rng.below(7), patches, recv };
        do_build(
            &mut rep,
            &c,
            match (corrupted, order) {
                (false, Order::Big) => "chunks",
                (true, Order::Big) => "chunks-corrupted",
                (false, Order::Little) => "chunks-le-fields",
                (true, Order::Little) => "chunks-le-fields-corrupted",
            },
        );
    }
    rep.write(&args);
}
