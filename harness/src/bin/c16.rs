//! C16 — `Camera` start/stop/close keep the device acquisition state consistent.
//!
//! The REAL generic `cameleon::Camera<FakeCtrl, FakeStrm, DefaultGenApiCtxt>` is driven
//! through every call sequence over {open, load, start(cap), stop, close, param} up to a
//! depth bound, crossed with a fault injected at every device/stream sub-operation index
//! (plus fault pairs in the thorough tier), for several GenApi descriptions (complete,
//! one SFNC node missing / of the wrong interface, unparsable) and both behaviours of a
//! stream handle whose `stop_streaming_loop` fails (loop survives / loop is gone).
//!
//! The fakes record every fallible trait call (the *effect trace*) and keep the device
//! state (stream enabled, memory behind TLParamsLocked / AcquisitionStart / AcquisitionStop,
//! number of live receive loops).  Node operations become observable because the XML maps
//! the three SFNC nodes to registers in the fake control handle's memory.
//!
//! Per run: (1) the property oracle is evaluated on the implementation's own trace and
//! state, (2) results + state after every call + trace are diffed against the Lean model
//! (`CamVerif.Model.Camera`, driver `drv_c16`).

use std::cell::RefCell;
use std::rc::Rc;

use cameleon::genapi::{DefaultGenApiCtxt, GenApiError, NodeStore};
use cameleon::payload::{Payload, PayloadReceiver, PayloadSender};
use cameleon::u3v::stream_handle::verif_build_payload;
use cameleon::{
    Camera, CameleonError, CameraInfo, ControlError, ControlResult, DeviceControl, PayloadStream, StreamError,
    StreamResult,
};
use camharness::*;
use cameleon::u3v::StreamHandle;
use cameleon_device::u3v::verif::{VerifPoll, VerifUsb};
use cameleon_device::u3v::{BusSpeed, ControlIfaceInfo, Device, DeviceInfo, LibUsbError, ReceiveIfaceInfo};
use std::sync::atomic::{AtomicBool, AtomicU64, Ordering};
use std::sync::Arc;
use std::time::{Duration, Instant};

// ---------------------------------------------------------------------------------------
// fake device

const ADDR_LOCK: u64 = 0x100;
const ADDR_START: u64 = 0x104;
const ADDR_STOP: u64 = 0x108;
const ADDR_GAIN: u64 = 0x10c;
const ADDR_GATE: u64 = 0x110;
/// register the fake stream handle reads through the control object it is given
const ADDR_PROBE: u64 = 0x200;
const PROBE_MAGIC: u32 = 0x5342_524d;
/// largest channel the fake loop fills completely
const FILL_LIMIT: usize = (1 << 20) + 8;
const BIG_CAP: usize = 1 << 20;

#[derive(Clone, Copy, PartialEq, Eq, Debug)]
enum Sub {
    CtrlOpen,
    StrmOpen,
    CtrlClose,
    StrmClose,
    GenApi,
    Enable,
    Disable,
    LockSet(u32),
    AcqStart,
    AcqStop,
    ParamRead,
    /// params access: write of another feature (the one a gated TLParamsLocked refers to)
    GateSet(u32),
    /// read of that feature's register (never performed by the unmodified camera)
    GateRead,
    LoopStart,
    LoopStop,
    /// any other memory access (never expected; makes model and oracle fail loudly)
    Other,
}

#[derive(Clone, Copy, PartialEq, Eq, Debug)]
enum Out {
    Ok,
    Fault,
    NotOpened,
}

fn tok(e: &(Sub, Out)) -> String {
    let k = match e.0 {
        Sub::CtrlOpen => "CO".to_string(),
        Sub::StrmOpen => "SO".into(),
        Sub::CtrlClose => "CC".into(),
        Sub::StrmClose => "SC".into(),
        Sub::GenApi => "GA".into(),
        Sub::Enable => "EN".into(),
        Sub::Disable => "DI".into(),
        Sub::LockSet(v) => format!("L{v}"),
        Sub::AcqStart => "AS".into(),
        Sub::AcqStop => "AT".into(),
        Sub::ParamRead => "PR".into(),
        Sub::GateSet(v) => format!("G{v}"),
        Sub::GateRead => "GR".into(),
        Sub::LoopStart => "LS".into(),
        Sub::LoopStop => "LT".into(),
        Sub::Other => "??".into(),
    };
    let o = match e.1 {
        Out::Ok => "+",
        Out::Fault => "!",
        Out::NotOpened => "-",
    };
    format!("{k}{o}")
}

#[derive(Default)]
struct World {
    faults: Vec<usize>,
    counter: usize,
    trace: Vec<(Sub, Out)>,
    ctrl_open: bool,
    strm_open: bool,
    enabled: bool,
    lock: u32,
    acquiring: bool,
    gain: u32,
    gate: u32,
    /// reads the stream handle made through the control object passed to start_streaming_loop
    probe_reads: usize,
    /// number of live receive loops (a permissive stream handle: it would start a second one)
    loops: u32,
    /// what `is_loop_running` answers
    flag: bool,
    stop_fail_kills: bool,
    /// behave like `u3v::StreamHandle`
    u3v: bool,
    /// bootstrap register image (only when the REAL stream handle is driven)
    boot: Option<Vec<u8>>,
    /// a call on the real handle did not return within the patience of the harness
    blocked: bool,
    /// loop deaths that really killed a loop (environment events)
    deaths: u32,
    xml: String,
    senders: Vec<PayloadSender>,
    /// ids of the tokens the loop pushed through the sender it was given (until the channel was full)
    fwd_tokens: Vec<u64>,
    next_token: u64,
    /// observed payload channel between the live loop and the caller's receiver:
    /// (forward capacity, give-back capacity), `None` components = tokens did not arrive intact
    chan: Option<(Option<usize>, Option<usize>)>,
    /// kind of the injected errors (0 = Io; the others exercise the other variants)
    fault_kind: u8,
}

/// A real `Payload` (chunk payload, 1 byte) whose block id is `id`, built by the real
/// `PayloadBuilder` through the verification hook.
fn token(id: u64) -> Payload {
    let mut leader = vec![];
    leader.extend_from_slice(&0x4C56_3355u32.to_le_bytes());
    leader.extend_from_slice(&0u16.to_le_bytes());
    leader.extend_from_slice(&28u16.to_le_bytes());
    leader.extend_from_slice(&id.to_le_bytes());
    leader.extend_from_slice(&0u16.to_le_bytes());
    leader.extend_from_slice(&0x4000u16.to_le_bytes());
    leader.extend_from_slice(&0u64.to_le_bytes());
    let mut trailer = vec![];
    trailer.extend_from_slice(&0x5456_3355u32.to_le_bytes());
    trailer.extend_from_slice(&0u16.to_le_bytes());
    trailer.extend_from_slice(&32u16.to_le_bytes());
    trailer.extend_from_slice(&id.to_le_bytes());
    trailer.extend_from_slice(&0u16.to_le_bytes());
    trailer.extend_from_slice(&0u16.to_le_bytes());
    trailer.extend_from_slice(&1u64.to_le_bytes());
    trailer.extend_from_slice(&0u32.to_le_bytes());
    verif_build_payload(&leader, &trailer, vec![id as u8], 1).expect("token payload")
}

impl World {
    /// Count one sub-operation; decide its outcome.
    fn step(&mut self, sub: Sub, needs_open: bool) -> Out {
        let idx = self.counter;
        self.counter += 1;
        let out = if self.faults.contains(&idx) {
            Out::Fault
        } else if needs_open && !self.ctrl_open {
            Out::NotOpened
        } else {
            Out::Ok
        };
        self.trace.push((sub, out));
        out
    }
    /// A sub-operation whose outcome is decided by the handle state, not by the fault plan
    /// (it still takes one position of the plan).
    fn step_forced(&mut self, sub: Sub, out: Out) -> Out {
        self.counter += 1;
        self.trace.push((sub, out));
        out
    }
}

const CTRL_KINDS: [&str; 6] = ["Io", "Timeout", "Disconnected", "Busy", "InvalidDevice", "BufferTooSmall"];
const STRM_KINDS: [&str; 6] = ["Io", "Timeout", "Disconnected", "BufferTooSmall", "SendError", "InvalidPayload"];
const STOP_KINDS: [&str; 6] = ["Poisoned", "Timeout", "Disconnected", "BufferTooSmall", "SendError", "InvalidPayload"];

fn ctrl_fault(kind: u8) -> ControlError {
    match kind {
        0 => ControlError::Io(io_fault().into()),
        1 => ControlError::Timeout,
        2 => ControlError::Disconnected,
        3 => ControlError::Busy,
        4 => ControlError::InvalidDevice("injected fault".into()),
        _ => ControlError::BufferTooSmall,
    }
}

fn strm_fault(kind: u8, stop: bool) -> StreamError {
    match kind {
        0 if stop => StreamError::Poisoned("injected fault".into()),
        0 => StreamError::Io(io_fault().into()),
        1 => StreamError::Timeout,
        2 => StreamError::Disconnected,
        3 => StreamError::BufferTooSmall,
        4 => StreamError::SendError("injected fault".into()),
        _ => StreamError::InvalidPayload("injected fault".into()),
    }
}

fn ctrl_res(o: Out, kind: u8) -> ControlResult<()> {
    match o {
        Out::Ok => Ok(()),
        Out::Fault => Err(ctrl_fault(kind)),
        Out::NotOpened => Err(ControlError::NotOpened),
    }
}

/// an `anyhow::Error` without naming the crate (it is not a dependency of the harness)
fn io_fault() -> std::io::Error {
    std::io::Error::new(std::io::ErrorKind::Other, "injected fault")
}

// ---------------------------------------------------------------------------------------
// the REAL `u3v::StreamHandle` (with its loop thread) on a null USB endpoint, wrapped so that its
// calls are recorded like the fake's: ties the model's `HandleKind.u3v` to stream_handle.rs itself

/// Endpoint on which nothing ever arrives: every transfer completes with a timeout after 1 ms.
struct NullUsb {
    next: AtomicU64,
}

impl VerifUsb for NullUsb {
    fn claim_interface(&self, _iface: u8) -> Result<(), LibUsbError> {
        Ok(())
    }
    fn release_interface(&self, _iface: u8) -> Result<(), LibUsbError> {
        Ok(())
    }
    fn read_bulk(&self, _ep: u8, _buf: &mut [u8], _t: Duration) -> Result<usize, LibUsbError> {
        Err(LibUsbError::Timeout)
    }
    fn write_bulk(&self, _ep: u8, buf: &[u8], _t: Duration) -> Result<usize, LibUsbError> {
        Ok(buf.len())
    }
    fn clear_halt(&self, _ep: u8) -> Result<(), LibUsbError> {
        Ok(())
    }
    fn write_control(&self, _rt: u8, _r: u8, _v: u16, _i: u16, _buf: &[u8], _t: Duration) -> Result<usize, LibUsbError> {
        Ok(0)
    }
    fn submit_bulk(&self, _ep: u8, _len: usize) -> Result<u64, LibUsbError> {
        Ok(self.next.fetch_add(1, Ordering::SeqCst))
    }
    fn poll_bulk(&self, _id: u64, _t: Duration) -> VerifPoll {
        std::thread::sleep(Duration::from_millis(1));
        VerifPoll::Completed(Err(LibUsbError::Timeout))
    }
    fn cancel_bulk(&self, _id: u64) {}
}

/// set by the `die` event: the loop thread panics at its next `loop_top` yield point
static KILL_LOOP: AtomicBool = AtomicBool::new(false);
/// a real-handle session blocked: later sessions of the same shape are not attempted (5 s each)
static BLOCKED_ONCE: AtomicBool = AtomicBool::new(false);

fn install_kill_hook() {
    cameleon::u3v::verif::set_yield_hook(Some(Box::new(|name| {
        if name == "loop_top" && KILL_LOOP.swap(false, Ordering::SeqCst) {
            panic!("c16: injected loop death");
        }
    })));
}

const SBRM: usize = 0x1_0000;
const SIRM: usize = 0x2_0000;

/// bootstrap register image `StreamParams::from_control` reads (as in the C12 harness)
fn bootstrap_image() -> Vec<u8> {
    let mut mem = vec![0u8; SIRM + 0x100];
    let mut put = |a: usize, v: &[u8]| mem[a..a + v.len()].copy_from_slice(v);
    put(0x01C4, &0u64.to_le_bytes());
    put(0x01CC, &5u32.to_le_bytes());
    put(0x01D8, &(SBRM as u64).to_le_bytes());
    put(SBRM + 0x04, &1u64.to_le_bytes());
    put(SBRM + 0x20, &(SIRM as u64).to_le_bytes());
    put(SIRM + 0x18, &64u32.to_le_bytes());
    put(SIRM + 0x1C, &64u32.to_le_bytes());
    put(SIRM + 0x20, &1u32.to_le_bytes());
    put(SIRM + 0x24, &0u32.to_le_bytes());
    put(SIRM + 0x28, &0u32.to_le_bytes());
    put(SIRM + 0x2C, &64u32.to_le_bytes());
    mem
}

fn real_stream_handle() -> (Device, StreamHandle) {
    let usb = Arc::new(NullUsb { next: AtomicU64::new(1) });
    let dev = Device::verif_new(
        usb,
        ControlIfaceInfo { iface_number: 0, bulk_in_ep: 0x81, bulk_out_ep: 0x01 },
        None,
        Some(ReceiveIfaceInfo { iface_number: 2, bulk_in_ep: 0x83 }),
        DeviceInfo {
            gencp_version: semver::Version::new(1, 0, 0),
            u3v_version: semver::Version::new(1, 0, 0),
            guid: "guid".into(),
            vendor_name: "v".into(),
            model_name: "m".into(),
            family_name: None,
            device_version: "1".into(),
            manufacturer_info: "i".into(),
            serial_number: "s".into(),
            user_defined_name: None,
            supported_speed: BusSpeed::SuperSpeed,
        },
    );
    let strm = StreamHandle::verif_new(&dev).expect("stream handle").expect("stream iface");
    (dev, strm)
}

/// live loop threads of a real handle: every `StreamingLoop` holds a clone of `inner`
fn real_loops(h: &StreamHandle) -> u32 {
    (Arc::strong_count(&h.inner) - 1) as u32
}

/// wait until the number of live loop threads is `want` (a stopped loop needs a moment to leave)
fn settle(h: &StreamHandle, want: u32) {
    let t0 = Instant::now();
    while real_loops(h) != want && t0.elapsed() < Duration::from_secs(3) {
        std::thread::sleep(Duration::from_millis(1));
    }
}

#[derive(Clone)]
struct FakeCtrl(Rc<RefCell<World>>);
/// The stream handle given to the camera: the recording fake, or (second field) a recording
/// wrapper around the REAL `u3v::StreamHandle`.
struct FakeStrm(Rc<RefCell<World>>, Option<StreamHandle>);

impl DeviceControl for FakeCtrl {
    fn open(&mut self) -> ControlResult<()> {
        let mut w = self.0.borrow_mut();
        let o = w.step(Sub::CtrlOpen, false);
        if o == Out::Ok {
            w.ctrl_open = true;
        }
        ctrl_res(o, w.fault_kind)
    }
    fn close(&mut self) -> ControlResult<()> {
        let mut w = self.0.borrow_mut();
        let o = w.step(Sub::CtrlClose, false);
        if o == Out::Ok {
            w.ctrl_open = false;
        }
        ctrl_res(o, w.fault_kind)
    }
    fn is_opened(&self) -> bool {
        self.0.borrow().ctrl_open
    }
    fn read(&mut self, address: u64, buf: &mut [u8]) -> ControlResult<()> {
        let mut w = self.0.borrow_mut();
        if address == ADDR_PROBE && buf.len() == 4 {
            // the stream handle setting up its parameters through the control object it was
            // given (u3v::StreamHandle reads ABRM/SBRM/SIRM here); part of the loop-start
            // sub-operation, not a sub-operation of its own
            w.probe_reads += 1;
            if !w.ctrl_open {
                return Err(ControlError::NotOpened);
            }
            buf.copy_from_slice(&PROBE_MAGIC.to_le_bytes());
            return Ok(());
        }
        if let Some(img) = &w.boot {
            let a = address as usize;
            if !(0x100..0x114).contains(&a) && !(0x200..0x204).contains(&a) && a + buf.len() <= img.len() {
                // bootstrap registers read by StreamParams::from_control inside the real handle's
                // start_streaming_loop: part of the loop-start sub-operation
                if !w.ctrl_open {
                    return Err(ControlError::NotOpened);
                }
                buf.copy_from_slice(&img[a..a + buf.len()]);
                return Ok(());
            }
        }
        let (sub, v) = match (address, buf.len()) {
            (ADDR_GAIN, 4) => (Sub::ParamRead, w.gain),
            (ADDR_GATE, 4) => (Sub::GateRead, w.gate),
            _ => (Sub::Other, 0),
        };
        let o = w.step(sub, true);
        if o == Out::Ok && buf.len() == 4 {
            buf.copy_from_slice(&v.to_le_bytes());
        }
        ctrl_res(o, w.fault_kind)
    }
    fn write(&mut self, address: u64, data: &[u8]) -> ControlResult<()> {
        let mut w = self.0.borrow_mut();
        let v = if data.len() == 4 { u32::from_le_bytes([data[0], data[1], data[2], data[3]]) } else { u32::MAX };
        let sub = match (address, data.len(), v) {
            (ADDR_LOCK, 4, v) => Sub::LockSet(v),
            (ADDR_GATE, 4, v) => Sub::GateSet(v),
            (ADDR_START, 4, 1) => Sub::AcqStart,
            (ADDR_STOP, 4, 1) => Sub::AcqStop,
            _ => Sub::Other,
        };
        let o = w.step(sub, true);
        if o == Out::Ok {
            match sub {
                Sub::LockSet(v) => w.lock = v,
                Sub::GateSet(v) => w.gate = v,
                Sub::AcqStart => w.acquiring = true,
                Sub::AcqStop => w.acquiring = false,
                _ => {}
            }
        }
        ctrl_res(o, w.fault_kind)
    }
    fn genapi(&mut self) -> ControlResult<String> {
        let mut w = self.0.borrow_mut();
        let o = w.step(Sub::GenApi, true);
        ctrl_res(o, w.fault_kind).map(|_| w.xml.clone())
    }
    fn enable_streaming(&mut self) -> ControlResult<()> {
        let mut w = self.0.borrow_mut();
        let o = w.step(Sub::Enable, true);
        if o == Out::Ok {
            w.enabled = true;
        }
        ctrl_res(o, w.fault_kind)
    }
    fn disable_streaming(&mut self) -> ControlResult<()> {
        let mut w = self.0.borrow_mut();
        let o = w.step(Sub::Disable, true);
        if o == Out::Ok {
            w.enabled = false;
        }
        ctrl_res(o, w.fault_kind)
    }
}

impl PayloadStream for FakeStrm {
    fn open(&mut self) -> StreamResult<()> {
        if let Some(h) = self.1.as_mut() {
            let r = if h.is_loop_running() {
                // `open` while the loop runs must return at once (F-C16-1: it used to wait forever
                // for the receive channel lock the loop holds).  Run it on a helper thread and give
                // up after 5 s; a blocked session is abandoned (the handle is leaked, not reused).
                struct SendPtr(*mut StreamHandle);
                unsafe impl Send for SendPtr {}
                let ptr = SendPtr(h as *mut StreamHandle);
                let (tx, rx) = std::sync::mpsc::channel();
                std::thread::spawn(move || {
                    let p = ptr;
                    let r = unsafe { (*p.0).open() };
                    let _ = tx.send(r);
                });
                match rx.recv_timeout(Duration::from_secs(5)) {
                    Ok(r) => r,
                    Err(_) => {
                        let mut w = self.0.borrow_mut();
                        w.blocked = true;
                        w.step_forced(Sub::StrmOpen, Out::Fault);
                        return Err(StreamError::Timeout);
                    }
                }
            } else {
                h.open()
            };
            let mut w = self.0.borrow_mut();
            w.step_forced(Sub::StrmOpen, if r.is_ok() { Out::Ok } else { Out::Fault });
            if r.is_ok() {
                w.strm_open = true;
            }
            return r;
        }
        if self.0.borrow().u3v && self.0.borrow().flag {
            // u3v::StreamHandle: Ok at once while the loop runs, the fault plan has no say
            let mut w = self.0.borrow_mut();
            w.step_forced(Sub::StrmOpen, Out::Ok);
            w.strm_open = true;
            return Ok(());
        }
        let mut w = self.0.borrow_mut();
        let o = w.step(Sub::StrmOpen, false);
        if o == Out::Ok {
            w.strm_open = true;
            Ok(())
        } else {
            Err(strm_fault(w.fault_kind, false))
        }
    }
    fn close(&mut self) -> StreamResult<()> {
        if let Some(h) = self.1.as_mut() {
            let r = h.close();
            let mut w = self.0.borrow_mut();
            w.step_forced(Sub::StrmClose, if r.is_ok() { Out::Ok } else { Out::Fault });
            if r.is_ok() {
                w.strm_open = false;
            }
            w.flag = h.is_loop_running();
            w.loops = real_loops(h);
            return r;
        }
        let mut w = self.0.borrow_mut();
        let o = w.step(Sub::StrmClose, false);
        if o == Out::Ok {
            w.strm_open = false;
            Ok(())
        } else {
            Err(strm_fault(w.fault_kind, false))
        }
    }
    fn start_streaming_loop(&mut self, sender: PayloadSender, ctrl: &mut dyn DeviceControl) -> StreamResult<()> {
        if let Some(h) = self.1.as_mut() {
            let r = h.start_streaming_loop(sender, ctrl);
            let mut w = self.0.borrow_mut();
            // the fallible part (stream parameters) succeeded unless an Io error came back
            let o = match &r {
                Ok(()) | Err(StreamError::InStreaming) => Out::Ok,
                Err(_) => Out::Fault,
            };
            w.step_forced(Sub::LoopStart, o);
            w.flag = h.is_loop_running();
            w.loops = real_loops(h);
            return r;
        }
        // like the real handle: read the streaming parameters through the control object handed
        // in; it must be the camera's (opened) control handle of THIS device
        let before = self.0.borrow().probe_reads;
        let mut buf = [0u8; 4];
        let probe = ctrl.read(ADDR_PROBE, &mut buf);
        let mut w = self.0.borrow_mut();
        if probe.is_err() || buf != PROBE_MAGIC.to_le_bytes() || w.probe_reads != before + 1 {
            w.trace.push((Sub::Other, Out::Fault));
            return Err(StreamError::Io(io_fault().into()));
        }
        let o = w.step(Sub::LoopStart, false);
        if o == Out::Ok && w.u3v && w.flag {
            // u3v::StreamHandle: `if self.is_loop_running() { return Err(InStreaming) }` after the
            // parameters were read
            return Err(StreamError::InStreaming);
        }
        if o == Out::Ok {
            // the recording fake is permissive on purpose: a second call WOULD create a second loop
            w.loops += 1;
            w.flag = true;
            // the loop's side of the payload channel: push tokens until the channel is full
            w.fwd_tokens.clear();
            let mut last: Option<Payload> = None;
            for i in 0..FILL_LIMIT {
                // distinct tokens for the first 64 slots, copies of the last one beyond
                let (id, p) = if i < 64 || last.is_none() {
                    let id = w.next_token;
                    w.next_token += 1;
                    (id, token(id))
                } else {
                    let p = last.clone().unwrap();
                    (p.id(), p)
                };
                last = Some(p.clone());
                if sender.try_send(Ok(p)).is_err() {
                    break;
                }
                w.fwd_tokens.push(id);
            }
            w.senders.push(sender);
            Ok(())
        } else {
            Err(strm_fault(w.fault_kind, false))
        }
    }
    fn stop_streaming_loop(&mut self) -> StreamResult<()> {
        if let Some(h) = self.1.as_mut() {
            let r = h.stop_streaming_loop();
            if r.is_ok() {
                settle(h, 0); // the loop received the cancellation: wait until the thread has left
            }
            let mut w = self.0.borrow_mut();
            w.step_forced(Sub::LoopStop, if r.is_ok() { Out::Ok } else { Out::Fault });
            w.flag = h.is_loop_running();
            w.loops = real_loops(h);
            w.chan = None;
            return r;
        }
        let mut w = self.0.borrow_mut();
        if w.u3v {
            // u3v::StreamHandle: without a sender nothing happens; otherwise the sender is TAKEN
            // (flag cleared) and the cancellation is sent, which fails exactly when the loop thread
            // is gone - the fault plan has no say
            let dead = w.flag && w.loops == 0;
            let o = w.step_forced(Sub::LoopStop, if dead { Out::Fault } else { Out::Ok });
            if w.flag {
                w.flag = false;
                w.chan = None;
                if o == Out::Ok {
                    w.loops = w.loops.saturating_sub(1);
                    w.senders.pop();
                }
            }
            return if o == Out::Ok { Ok(()) } else { Err(strm_fault(w.fault_kind, true)) };
        }
        let o = w.step(Sub::LoopStop, false);
        if o == Out::Ok {
            w.loops = w.loops.saturating_sub(1);
            w.flag = w.loops > 0;
            w.senders.pop();
            w.chan = None;
            Ok(())
        } else {
            if w.stop_fail_kills {
                // like u3v::StreamHandle: the cancellation sender is taken before the send
                // fails, and the send fails only when the loop thread is already gone
                w.loops = w.loops.saturating_sub(1);
                w.flag = false;
                w.senders.pop();
                w.chan = None;
            }
            Err(strm_fault(w.fault_kind, true))
        }
    }
    fn is_loop_running(&self) -> bool {
        match &self.1 {
            Some(h) => h.is_loop_running(),
            None => self.0.borrow().flag,
        }
    }
}

// ---------------------------------------------------------------------------------------
// GenApi descriptions

#[derive(Clone, Copy, PartialEq, Eq, Debug)]
enum NodeVar {
    Good,
    Missing,
    WrongKind,
}

#[derive(Clone, Copy, PartialEq, Eq, Debug)]
struct XmlVar {
    parse_ok: bool,
    lock: NodeVar,
    start: NodeVar,
    stop: NodeVar,
    /// how the description restricts access to TLParamsLocked (schema-legal, rare)
    gate: GateVar,
}

/// Access restriction on the `TLParamsLocked` feature.  `Camera` writes the node regardless
/// (GenApi `set_value` does not consult the access mode), which is what the property demands.
#[derive(Clone, Copy, PartialEq, Eq, Debug)]
enum GateVar {
    None,
    /// `<pIsLocked>Gate</pIsLocked>`: reported read-only while Gate != 0
    IsLocked,
    /// `<pIsAvailable>Gate</pIsAvailable>`: reported not available while Gate == 0
    IsAvailable,
    /// `<ImposedAccessMode>RO</ImposedAccessMode>`: always reported read-only
    ImposedRo,
}

impl XmlVar {
    const FULL: XmlVar =
        XmlVar { parse_ok: true, lock: NodeVar::Good, start: NodeVar::Good, stop: NodeVar::Good, gate: GateVar::None };
    fn name(&self) -> String {
        let c = |v: NodeVar| match v {
            NodeVar::Good => 'g',
            NodeVar::Missing => 'm',
            NodeVar::WrongKind => 'w',
        };
        let g = match self.gate {
            GateVar::None => "",
            GateVar::IsLocked => "L",
            GateVar::IsAvailable => "A",
            GateVar::ImposedRo => "R",
        };
        format!("{}{}{}{}{}", if self.parse_ok { 'p' } else { 'x' }, c(self.lock), c(self.start), c(self.stop), g)
    }
    fn from_name(s: &str) -> XmlVar {
        let b = s.as_bytes();
        let c = |x: u8| match x {
            b'g' => NodeVar::Good,
            b'm' => NodeVar::Missing,
            _ => NodeVar::WrongKind,
        };
        let gate = match b.get(4) {
            Some(b'L') => GateVar::IsLocked,
            Some(b'A') => GateVar::IsAvailable,
            Some(b'R') => GateVar::ImposedRo,
            _ => GateVar::None,
        };
        XmlVar { parse_ok: b[0] == b'p', lock: c(b[1]), start: c(b[2]), stop: c(b[3]), gate }
    }
    /// what the model is told: parse ok, and per SFNC node "present with the right interface"
    fn bits(&self) -> String {
        let b = |v: bool| if v { '1' } else { '0' };
        format!(
            "{}{}{}{}",
            b(self.parse_ok),
            b(self.lock == NodeVar::Good),
            b(self.start == NodeVar::Good),
            b(self.stop == NodeVar::Good)
        )
    }
    /// complete description (an access restriction on TLParamsLocked does not make it defective)
    fn all_good(&self) -> bool {
        self.parse_ok && self.lock == NodeVar::Good && self.start == NodeVar::Good && self.stop == NodeVar::Good
    }
}

fn int_reg(name: &str, addr: u64) -> String {
    format!(
        r#"<IntReg Name="{name}"><Address>{addr}</Address><Length>4</Length><AccessMode>RW</AccessMode><pPort>Device</pPort><Sign>Unsigned</Sign><Endianess>LittleEndian</Endianess></IntReg>"#
    )
}

fn command(name: &str, reg: &str) -> String {
    format!(r#"<Command Name="{name}"><pValue>{reg}</pValue><CommandValue>1</CommandValue></Command>"#)
}

fn integer(name: &str, reg: &str) -> String {
    format!(r#"<Integer Name="{name}"><pValue>{reg}</pValue></Integer>"#)
}

fn build_xml(v: XmlVar) -> String {
    if !v.parse_ok {
        return "<RegisterDescription><Port Name=\"Device\"></RegisterDescription".into();
    }
    let mut s = String::from(
        r#"<?xml version="1.0" encoding="UTF-8"?>
<RegisterDescription ModelName="FakeCam" VendorName="Verif" StandardNameSpace="None"
SchemaMajorVersion="1" SchemaMinorVersion="1" SchemaSubMinorVersion="0"
MajorVersion="1" MinorVersion="0" SubMinorVersion="0" ToolTip="fake"
ProductGuid="01234567-0123-0123-0123-0123456789ab" VersionGuid="76543210-3210-3210-3210-ba9876543210"
xmlns="http://www.genicam.org/GenApi/Version_1_1"
xmlns:xsi="http://www.w3.org/2001/XMLSchema-instance"
xsi:schemaLocation="http://www.genicam.org/GenApi/Version_1_1 http://www.genicam.org/GenApi/GenApiSchema_Version_1_1.xsd">
<Port Name="Device"></Port>
"#,
    );
    s += &int_reg("TLParamsLockedReg", ADDR_LOCK);
    s += &int_reg("AcquisitionStartReg", ADDR_START);
    s += &int_reg("AcquisitionStopReg", ADDR_STOP);
    s += &int_reg("GainReg", ADDR_GAIN);
    s += &integer("Gain", "GainReg");
    s += &int_reg("GateReg", ADDR_GATE);
    s += &integer("Gate", "GateReg");
    match v.lock {
        NodeVar::Good => {
            let restriction = match v.gate {
                GateVar::None => "",
                GateVar::IsLocked => "<pIsLocked>Gate</pIsLocked>",
                GateVar::IsAvailable => "<pIsAvailable>Gate</pIsAvailable>",
                GateVar::ImposedRo => "<ImposedAccessMode>RO</ImposedAccessMode>",
            };
            s += &format!(r#"<Integer Name="TLParamsLocked">{restriction}<pValue>TLParamsLockedReg</pValue></Integer>"#);
        }
        NodeVar::WrongKind => s += &command("TLParamsLocked", "TLParamsLockedReg"),
        NodeVar::Missing => {}
    }
    match v.start {
        NodeVar::Good => s += &command("AcquisitionStart", "AcquisitionStartReg"),
        NodeVar::WrongKind => s += &integer("AcquisitionStart", "AcquisitionStartReg"),
        NodeVar::Missing => {}
    }
    match v.stop {
        NodeVar::Good => s += &command("AcquisitionStop", "AcquisitionStopReg"),
        NodeVar::WrongKind => s += &integer("AcquisitionStop", "AcquisitionStopReg"),
        NodeVar::Missing => {}
    }
    s += "\n</RegisterDescription>\n";
    s
}

// ---------------------------------------------------------------------------------------
// running one sequence on the real Camera

#[derive(Clone, Copy, PartialEq, Eq, Debug, Hash)]
enum Op {
    Open,
    Load,
    Start(usize),
    Stop,
    Close,
    Param,
    /// params access that WRITES another feature (`Gate`): `node.set_value(v)`
    Gate(u32),
    /// state surgery through the public API, not a call of the property: install a context
    /// built from the device's description (`Camera::new(.., Some(ctxt), ..)` when it is the
    /// first step, `Camera::set_context` otherwise)
    Preload,
    /// state surgery: `camera.ctxt = None` through the public field
    Unload,
    /// environment event: the receive loop thread dies on its own (u3v-like handle only)
    Die,
}

impl Op {
    fn name(&self) -> String {
        match self {
            Op::Open => "open".into(),
            Op::Load => "load".into(),
            Op::Start(c) => format!("start{c}"),
            Op::Stop => "stop".into(),
            Op::Close => "close".into(),
            Op::Param => "param".into(),
            Op::Gate(v) => format!("gate{v}"),
            Op::Preload => "preload".into(),
            Op::Unload => "unload".into(),
            Op::Die => "die".into(),
        }
    }
    fn from_name(s: &str) -> Op {
        match s {
            "open" => Op::Open,
            "load" => Op::Load,
            "stop" => Op::Stop,
            "close" => Op::Close,
            "param" => Op::Param,
            "preload" => Op::Preload,
            "unload" => Op::Unload,
            "die" => Op::Die,
            g if g.starts_with("gate") => Op::Gate(g[4..].parse().unwrap()),
            _ => Op::Start(s.trim_start_matches("start").parse().unwrap()),
        }
    }
}

fn err_class(e: &CameleonError) -> String {
    match e {
        CameleonError::ControlError(c) => format!(
            "Control.{}",
            match c {
                ControlError::Busy => "Busy",
                ControlError::Disconnected => "Disconnected",
                ControlError::Io(_) => "Io",
                ControlError::Timeout => "Timeout",
                ControlError::NotOpened => "NotOpened",
                ControlError::InvalidDevice(_) => "InvalidDevice",
                ControlError::BufferTooSmall => "BufferTooSmall",
                ControlError::InvalidData(_) => "InvalidData",
            }
        ),
        CameleonError::StreamError(s) => format!(
            "Stream.{}",
            match s {
                StreamError::InStreaming => "InStreaming",
                StreamError::Io(_) => "Io",
                StreamError::Poisoned(_) => "Poisoned",
                StreamError::ReceiveError(_) => "ReceiveError",
                StreamError::SendError(_) => "SendError",
                StreamError::InvalidPayload(_) => "InvalidPayload",
                StreamError::Disconnected => "Disconnected",
                StreamError::Timeout => "Timeout",
                StreamError::BufferTooSmall => "BufferTooSmall",
            }
        ),
        CameleonError::GenApiContextMissing => "CtxtMissing".into(),
        CameleonError::InvalidGenApiXml(_) => "InvalidXml".into(),
        CameleonError::GenApiError(g) => format!(
            "GenApi.{}",
            match g {
                GenApiError::Device(_) => "Device",
                GenApiError::NotWritable => "NotWritable",
                GenApiError::InvalidNode(_) => "InvalidNode",
                GenApiError::InvalidData(_) => "InvalidData",
                GenApiError::ChunkDataMissing => "ChunkDataMissing",
                GenApiError::InvalidBuffer(_) => "InvalidBuffer",
            }
        ),
    }
}

/// Device + camera state observed after one call.
#[derive(Clone, PartialEq, Eq, Debug, Default)]
struct Snap {
    flag: bool,
    loops: u32,
    enabled: bool,
    lock: u32,
    acquiring: bool,
    ctrl_open: bool,
    strm_open: bool,
    ctxt: bool,
    /// cache entries of (TLParamsLockedReg, AcquisitionStartReg, AcquisitionStopReg, GainReg)
    cache: [bool; 5],
    gate: u32,
    chan: Option<(Option<usize>, Option<usize>)>,
    /// the real stream handle's loop owns the sender: the channel cannot be probed
    hide_chan: bool,
}

impl Snap {
    fn show(&self) -> String {
        let b = |v: bool| if v { 1 } else { 0 };
        format!(
            "R{}N{}E{}L{}A{}C{}S{}X{}K{}{}{}{}{}G{}{}",
            b(self.flag),
            self.loops,
            b(self.enabled),
            self.lock,
            b(self.acquiring),
            b(self.ctrl_open),
            b(self.strm_open),
            b(self.ctxt),
            b(self.cache[0]),
            b(self.cache[1]),
            b(self.cache[2]),
            b(self.cache[3]),
            b(self.cache[4]),
            self.gate,
            match self.chan {
                _ if self.hide_chan => "H?".to_string(),
                None => "H-".to_string(),
                Some((f, k)) => format!(
                    "H{}.{}",
                    f.map_or("X".to_string(), |n| n.to_string()),
                    k.map_or("X".to_string(), |n| n.to_string())
                ),
            }
        )
    }
    fn cache_empty(&self) -> bool {
        self.cache.iter().all(|c| !c)
    }
}

type Cam = Camera<FakeCtrl, FakeStrm, DefaultGenApiCtxt>;

fn snapshot(cam: &mut Cam, w: &Rc<RefCell<World>>) -> Snap {
    let mut cache = [false; 5];
    let ctxt = cam.ctxt.is_some();
    if let Some(c) = cam.ctxt.as_mut() {
        for (i, (name, addr)) in [
            ("TLParamsLockedReg", ADDR_LOCK),
            ("AcquisitionStartReg", ADDR_START),
            ("AcquisitionStopReg", ADDR_STOP),
            ("GainReg", ADDR_GAIN),
            ("GateReg", ADDR_GATE),
        ]
        .iter()
        .enumerate()
        {
            if let Some(nid) = c.node_store.id_by_name(name) {
                cache[i] = c.value_ctxt.get_cache(nid, *addr as i64, 4).is_some();
            }
        }
    }
    let flag = cam.strm.is_loop_running();
    if let Some(h) = cam.strm.1.as_ref() {
        let mut wm = w.borrow_mut();
        wm.flag = flag;
        wm.loops = real_loops(h);
    }
    let hide_chan = cam.strm.1.is_some();
    let w = w.borrow();
    Snap {
        hide_chan,
        flag,
        loops: w.loops,
        enabled: w.enabled,
        lock: w.lock,
        acquiring: w.acquiring,
        ctrl_open: w.ctrl_open,
        strm_open: w.strm_open,
        ctxt,
        cache,
        gate: w.gate,
        chan: w.chan,
    }
}

/// The caller's side of the payload channel, right after `start_streaming` returned `receiver`:
/// every token the loop pushed must arrive, in order, and nothing else (identity + forward
/// capacity); payloads given back must reach the loop's sender, in order (identity + give-back
/// capacity).
fn observe_channel(receiver: &PayloadReceiver, w: &Rc<RefCell<World>>) {
    let mut got = vec![];
    while let Ok(p) = receiver.try_recv() {
        got.push(p.id());
        if got.len() > FILL_LIMIT {
            break;
        }
    }
    let mut w = w.borrow_mut();
    let fwd = if got == w.fwd_tokens { Some(got.len()) } else { None };
    let base = w.next_token;
    for j in 0..16 {
        receiver.send_back(token(base + j));
    }
    w.next_token += 16;
    let mut back = vec![];
    if let Some(sender) = w.senders.last() {
        while let Ok(p) = sender.try_recv() {
            back.push(p.id());
            if back.len() > 100 {
                break;
            }
        }
    }
    let intact = back.iter().enumerate().all(|(j, id)| *id == base + j as u64);
    w.chan = Some((fwd, if intact { Some(back.len()) } else { None }));
}

struct CallOut {
    op: Op,
    /// "ok" | "err:<class>" | "panic"
    res: String,
    seg: Vec<(Sub, Out)>,
    before: Snap,
    after: Snap,
}

/// Order of the two independent handle operations in `Camera::open` / `Camera::close`, read off
/// the implementation's own trace once per run ("cc" = control handle first in both).  The
/// property does not order them; the model takes the order as a parameter.
static ORDER: std::sync::OnceLock<String> = std::sync::OnceLock::new();

fn discover_order(xml_text: &str) -> String {
    let case = Case { xml: XmlVar::FULL, stop_fail_kills: false, u3v: false, real: false, faults: vec![], ops: vec![Op::Open, Op::Close], kind: 0 };
    let outs = run_impl(&case, xml_text);
    let first = |seg: &[(Sub, Out)], c: Sub, s: Sub| match seg.first() {
        Some(e) if e.0 == s && seg.len() == 2 && seg[1].0 == c => 's',
        Some(e) if e.0 == c && seg.len() == 2 && seg[1].0 == s => 'c',
        _ => 'c', // anything else: keep the default, the differential will show the difference
    };
    format!("{}{}", first(&outs[0].seg, Sub::CtrlOpen, Sub::StrmOpen), first(&outs[1].seg, Sub::CtrlClose, Sub::StrmClose))
}

#[derive(Clone, Debug)]
struct Case {
    xml: XmlVar,
    stop_fail_kills: bool,
    /// the stream handle behaves like `u3v::StreamHandle` (see the Lean model's `HandleKind.u3v`)
    u3v: bool,
    /// drive the REAL `u3v::StreamHandle` (implies the u3v model instance; no injected faults)
    real: bool,
    faults: Vec<usize>,
    ops: Vec<Op>,
    /// variant of the injected errors (index into CTRL_KINDS / STRM_KINDS)
    kind: u8,
}

impl Case {
    fn request(&self) -> String {
        let f = if self.faults.is_empty() {
            "-".to_string()
        } else {
            self.faults.iter().map(|k| k.to_string()).collect::<Vec<_>>().join(",")
        };
        let ops = self.ops.iter().map(|o| o.name()).collect::<Vec<_>>().join(" ");
        let order = ORDER.get().map(|s| s.as_str()).unwrap_or("cc");
        format!("c16 run {} {} {} {} {} {}", self.xml.bits(), if self.real { "u3vr" } else if self.u3v { "u3v" } else if self.stop_fail_kills { "kill" } else { "keep" }, self.kind, order, f, ops)
    }
    fn replay(&self) -> Value {
        json!({"xml": self.xml.name(), "stop_fail_kills": self.stop_fail_kills, "u3v": self.u3v, "real": self.real, "faults": self.faults, "kind": self.kind,
               "ops": self.ops.iter().map(|o| o.name()).collect::<Vec<_>>()})
    }
    fn from_replay(r: &Value) -> Case {
        Case {
            xml: XmlVar::from_name(r["xml"].as_str().unwrap()),
            stop_fail_kills: r["stop_fail_kills"].as_bool().unwrap(),
            u3v: r["u3v"].as_bool().unwrap_or(false),
            real: r["real"].as_bool().unwrap_or(false),
            faults: r["faults"].as_array().unwrap().iter().map(|v| v.as_u64().unwrap() as usize).collect(),
            ops: r["ops"].as_array().unwrap().iter().map(|v| Op::from_name(v.as_str().unwrap())).collect(),
            kind: r["kind"].as_u64().unwrap_or(0) as u8,
        }
    }
}

fn run_impl(case: &Case, xml_text: &str) -> Vec<CallOut> {
    let world = Rc::new(RefCell::new(World {
        faults: case.faults.clone(),
        stop_fail_kills: case.stop_fail_kills,
        u3v: case.u3v || case.real,
        boot: if case.real { Some(bootstrap_image()) } else { None },
        xml: xml_text.to_string(),
        gain: 7,
        fault_kind: case.kind,
        ..World::default()
    }));
    let info = CameraInfo { vendor_name: "v".into(), model_name: "m".into(), serial_number: "s".into() };
    use cameleon::genapi::FromXml;
    let first_preload = case.ops.first() == Some(&Op::Preload);
    let ctxt0 = if first_preload { DefaultGenApiCtxt::from_xml(&xml_text).ok() } else { None };
    let (_real_dev, real_handle) = if case.real {
        install_kill_hook();
        KILL_LOOP.store(false, Ordering::SeqCst);
        let (d, h) = real_stream_handle();
        (Some(d), Some(h))
    } else {
        (None, None)
    };
    let mut cam_opt: Option<Cam> =
        Some(Camera::new(FakeCtrl(world.clone()), FakeStrm(world.clone(), real_handle), ctxt0, info));
    let mut outs = vec![];
    for (i, op) in case.ops.iter().enumerate() {
        let before = snapshot(cam_opt.as_mut().unwrap(), &world);
        let t0 = world.borrow().trace.len();
        let r: Result<Result<(), CameleonError>, ()> = match op {
            Op::Preload => match DefaultGenApiCtxt::from_xml(&xml_text) {
                Ok(ctxt) => {
                    if !(i == 0 && first_preload) {
                        let c = cam_opt.take().unwrap();
                        cam_opt = Some(c.set_context(ctxt));
                    }
                    Ok(Ok(()))
                }
                Err(e) => Ok(Err(e.into())),
            },
            Op::Unload => {
                cam_opt.as_mut().unwrap().ctxt = None;
                Ok(Ok(()))
            }
            Op::Die if case.real => {
                let cam = cam_opt.as_mut().unwrap();
                let h = cam.strm.1.as_ref().unwrap();
                if real_loops(h) > 0 {
                    // the loop thread panics at its next loop_top yield point
                    KILL_LOOP.store(true, Ordering::SeqCst);
                    settle(h, 0);
                    KILL_LOOP.store(false, Ordering::SeqCst);
                    let mut w = world.borrow_mut();
                    w.deaths += 1;
                    w.loops = real_loops(h);
                    w.chan = None;
                }
                Ok(Ok(()))
            }
            Op::Die => {
                let mut w = world.borrow_mut();
                if w.u3v && w.loops > 0 {
                    w.loops -= 1;
                    w.deaths += 1;
                    w.chan = None;
                    w.senders.pop(); // the thread owned the sender: the caller's receiver sees a closed channel
                }
                Ok(Ok(()))
            }
            _ => {
                let cam = cam_opt.as_mut().unwrap();
                catch(|| match op {
                    Op::Open => cam.open(),
                    Op::Load => cam.load_context().map(|_| ()),
                    Op::Start(cap) => cam.start_streaming(*cap).map(|rx| {
                        observe_channel(&rx, &world);
                    }),
                    Op::Stop => cam.stop_streaming(),
                    Op::Close => cam.close(),
                    Op::Param => {
                        let mut ctxt = cam.params_ctxt()?;
                        let node = ctxt.node("Gain").unwrap().as_integer(&ctxt).unwrap();
                        let v = node.value(&mut ctxt)?;
                        assert_eq!(v, 7);
                        Ok(())
                    }
                    Op::Gate(v) => {
                        let mut ctxt = cam.params_ctxt()?;
                        let node = ctxt.node("Gate").unwrap().as_integer(&ctxt).unwrap();
                        node.set_value(&mut ctxt, *v as i64)?;
                        Ok(())
                    }
                    Op::Preload | Op::Unload | Op::Die => unreachable!(),
                })
            }
        };
        let res = match &r {
            Err(()) => "panic".to_string(),
            Ok(Ok(())) => "ok".to_string(),
            Ok(Err(e)) => format!("err:{}", err_class(e)),
        };
        if world.borrow().blocked {
            // the helper thread still sits in the handle: abandon the session, leak the camera
            let seg = world.borrow().trace[t0..].to_vec();
            outs.push(CallOut { op: *op, res: "blocked".into(), seg, before: before.clone(), after: before });
            std::mem::forget(cam_opt.take());
            std::mem::forget(_real_dev);
            BLOCKED_ONCE.store(true, Ordering::SeqCst);
            return outs;
        }
        let seg = world.borrow().trace[t0..].to_vec();
        let after = snapshot(cam_opt.as_mut().unwrap(), &world);
        outs.push(CallOut { op: *op, res, seg, before, after });
    }
    // break the Rc cycle-free world explicitly (senders hold channels only)
    world.borrow_mut().senders.clear();
    outs
}

fn answer(outs: &[CallOut]) -> String {
    let mut s = String::new();
    for o in outs {
        s += &format!("{}[{}] ", o.res, o.after.show());
    }
    s += "|";
    for o in outs {
        for e in &o.seg {
            s += " ";
            s += &tok(e);
        }
        s += " ;";
    }
    s
}

// ---------------------------------------------------------------------------------------
// property oracle, evaluated on the implementation's own trace / state

fn is_fail(e: &(Sub, Out)) -> bool {
    e.1 != Out::Ok
}

/// position of the first entry of kind `k` in `seg`
fn pos(seg: &[(Sub, Out)], k: impl Fn(Sub) -> bool) -> Option<usize> {
    seg.iter().position(|e| k(e.0))
}

fn expected_err(e: &(Sub, Out), kind: u8) -> String {
    let k = kind.min(5) as usize;
    match (e.0, e.1) {
        (Sub::StrmOpen | Sub::StrmClose | Sub::LoopStart, _) => format!("err:Stream.{}", STRM_KINDS[k]),
        (Sub::LoopStop, _) => format!("err:Stream.{}", STOP_KINDS[k]),
        (Sub::LockSet(_) | Sub::AcqStart | Sub::AcqStop | Sub::ParamRead | Sub::GateSet(_) | Sub::GateRead | Sub::Other, _) => {
            "err:GenApi.Device".into()
        }
        (_, Out::NotOpened) => "err:Control.NotOpened".into(),
        (_, _) => format!("err:Control.{}", CTRL_KINDS[k]),
    }
}

/// `Good` of the Lean spec on a snapshot: acquisition state consistent with the loop flag, and
/// the loaded description (always the case's) complete.
fn good(s: &Snap, xml: XmlVar) -> bool {
    s.loops <= 1
        && s.flag == (s.loops == 1)
        && s.enabled == s.flag
        && s.lock == s.flag as u32
        && s.acquiring == s.flag
        && (!s.flag || s.ctxt)
        && (!s.ctxt || xml.all_good())
}

/// a sub-operation that is not a step of the start/stop protocol
fn non_protocol(k: Sub) -> bool {
    matches!(
        k,
        Sub::CtrlOpen | Sub::StrmOpen | Sub::CtrlClose | Sub::StrmClose | Sub::GenApi | Sub::ParamRead | Sub::GateSet(_) | Sub::GateRead
    )
}

/// Returns (kind, description) of every property clause the run violates.
fn oracle(case: &Case, outs: &[CallOut]) -> Vec<(&'static str, String)> {
    let mut bad: Vec<(&'static str, String)> = vec![];
    // a loop thread died on its own earlier in this history (u3v-like handle only)
    let mut died = false;
    for (i, o) in outs.iter().enumerate() {
        let seg = &o.seg;
        let at = format!("call #{i} {}", o.op.name());
        if o.op == Op::Die && o.after.loops < o.before.loops {
            died = true;
        }
        if o.res == "blocked" {
            bad.push(("open_while_streaming_blocks", format!("{at}: the call on the real u3v::StreamHandle did not return within 5 s (the loop thread holds the receive channel lock)")));
            break;
        }
        if matches!(o.op, Op::Preload | Op::Unload | Op::Die) {
            if !seg.is_empty() {
                bad.push(("fault_stops_call", format!("{at}: state surgery touched the device")));
            }
            continue;
        }
        // ---- fault_stops_call: a failing sub-operation is the last effect of its call and
        //      its error is what the call returns
        if let Some(p) = seg.iter().position(is_fail) {
            if p + 1 != seg.len() {
                bad.push(("fault_stops_call", format!("{at}: effects after the failing step {}", tok(&seg[p]))));
            }
            if o.res != expected_err(&seg[p], case.kind) {
                bad.push(("fault_stops_call", format!("{at}: step {} failed but the call returned {}", tok(&seg[p]), o.res)));
            }
        } else if o.res.starts_with("err:")
            && !matches!(o.res.as_str(), "err:Stream.InStreaming" | "err:CtxtMissing" | "err:InvalidXml" | "err:Control.InvalidData")
        {
            bad.push(("fault_stops_call", format!("{at}: {} without a failing step", o.res)));
        }
        // ---- start ordering (every start call, successful or not)
        if let Op::Start(_) = o.op {
            let en = pos(seg, |k| k == Sub::Enable);
            let l1 = pos(seg, |k| k == Sub::LockSet(1));
            let as_ = pos(seg, |k| k == Sub::AcqStart);
            let ls = pos(seg, |k| k == Sub::LoopStart);
            let okat = |p: Option<usize>| p.map_or(false, |p| seg[p].1 == Out::Ok);
            if as_.is_some() && !(okat(en) && okat(l1) && en < l1 && l1 < as_) {
                bad.push(("start_order", format!("{at}: AcquisitionStart not preceded by enable_streaming ok, TLParamsLocked:=1 ok")));
            }
            if ls.is_some() && !(okat(en) && okat(l1) && okat(as_) && en < l1 && l1 < as_ && as_ < ls) {
                bad.push(("start_order", format!("{at}: loop start not preceded by enable, TLParamsLocked:=1, AcquisitionStart (all ok)")));
            }
            if l1.is_some() && !(okat(en) && en < l1) {
                bad.push(("start_order", format!("{at}: TLParamsLocked:=1 before streaming was enabled")));
            }
            if o.res == "ok" {
                let want = [(Sub::Enable, Out::Ok), (Sub::LockSet(1), Out::Ok), (Sub::AcqStart, Out::Ok), (Sub::LoopStart, Out::Ok)];
                if seg.as_slice() != want {
                    bad.push(("start_order", format!("{at}: successful start has effects {:?}", seg.iter().map(tok).collect::<Vec<_>>())));
                }
                if !(o.after.flag && o.after.enabled && o.after.lock == 1 && o.after.acquiring) {
                    bad.push(("start_order", format!("{at}: successful start leaves {}", o.after.show())));
                }
                // the receiver handed to the caller is the peer of the sender handed to the loop,
                // with payload capacity `cap` (and the documented give-back capacity 5)
                if let Op::Start(cap) = o.op {
                    if !case.real && o.after.chan != Some((Some(cap), Some(5))) {
                        bad.push(("payload_channel", format!("{at}: channel between the loop and the returned receiver is {:?}, expected capacity {cap} / give-back 5", o.after.chan)));
                    }
                }
            }
            // ---- no_second_loop
            if o.before.flag {
                if o.res != "err:Stream.InStreaming" || !seg.is_empty() {
                    bad.push(("no_second_loop", format!("{at}: start while streaming returned {} with {} effect(s)", o.res, seg.len())));
                }
            }
            if !o.before.ctxt {
                if o.res == "ok" || ls.is_some() {
                    bad.push(("no_second_loop", format!("{at}: start without a description returned {} / started a loop", o.res)));
                }
            }
            if seg.iter().any(|e| matches!(e.0, Sub::LoopStop | Sub::AcqStop | Sub::Disable | Sub::LockSet(0))) {
                bad.push(("start_order", format!("{at}: start performs a stop effect")));
            }
        }
        // ---- stop ordering (stop and close)
        if matches!(o.op, Op::Stop | Op::Close) {
            let lt = pos(seg, |k| k == Sub::LoopStop);
            let at_ = pos(seg, |k| k == Sub::AcqStop);
            let l0 = pos(seg, |k| k == Sub::LockSet(0));
            let di = pos(seg, |k| k == Sub::Disable);
            let okat = |p: Option<usize>| p.map_or(false, |p| seg[p].1 == Out::Ok);
            if at_.is_some() && !(okat(lt) && lt < at_) {
                bad.push(("stop_order", format!("{at}: AcquisitionStop not preceded by a successful loop stop")));
            }
            if l0.is_some() && !(okat(lt) && okat(at_) && lt < at_ && at_ < l0) {
                bad.push(("stop_order", format!("{at}: TLParamsLocked:=0 not preceded by loop stop, AcquisitionStop")));
            }
            if di.is_some() && !(okat(lt) && okat(at_) && okat(l0) && lt < at_ && at_ < l0 && l0 < di) {
                bad.push(("stop_order", format!("{at}: disable_streaming not preceded by loop stop, AcquisitionStop, TLParamsLocked:=0")));
            }
            if o.before.flag != lt.is_some() {
                bad.push(("stop_order", format!("{at}: loop running before = {}, loop stop attempted = {}", o.before.flag, lt.is_some())));
            }
            if o.op == Op::Stop && o.res == "ok" {
                let want: Vec<(Sub, Out)> = if o.before.flag {
                    vec![(Sub::LoopStop, Out::Ok), (Sub::AcqStop, Out::Ok), (Sub::LockSet(0), Out::Ok), (Sub::Disable, Out::Ok)]
                } else {
                    vec![]
                };
                if *seg != want {
                    bad.push(("stop_order", format!("{at}: successful stop has effects {:?}", seg.iter().map(tok).collect::<Vec<_>>())));
                }
            }
            if seg.iter().any(|e| matches!(e.0, Sub::LoopStart | Sub::AcqStart | Sub::Enable | Sub::LockSet(1))) {
                bad.push(("stop_order", format!("{at}: stop/close performs a start effect")));
            }
        }
        // ---- flag_tracks_loop, at most one loop — in every reached state
        if o.after.loops > 1 {
            bad.push(("no_second_loop", format!("{at}: {} live loops", o.after.loops)));
        }
        if !died && o.after.flag != (o.after.loops == 1) {
            bad.push(("flag_tracks_loop", format!("{at}: is_loop_running = {} but {} live loop(s)", o.after.flag, o.after.loops)));
        }
        // after a spontaneous loop death the handle may still report a loop (u3v_live_loop_is_reported:
        // only the direction "a live loop is reported" survives)
        if died && o.after.loops == 1 && !o.after.flag {
            bad.push(("flag_tracks_loop", format!("{at}: a live loop is not reported by is_loop_running")));
        }
        // ---- a panicking call (start_streaming(0): documented) must not have touched the device
        if o.res == "panic" && !seg.is_empty() {
            bad.push(("panic_no_effect", format!("{at}: panicked after the effects {:?}", seg.iter().map(tok).collect::<Vec<_>>())));
        }
        // ---- consistent_unless_protocol_step_fails: from a consistent state, a call whose
        //      failing effects (if any) are not protocol steps leaves a consistent state
        let before_good = good(&o.before, case.xml);
        if case.xml.all_good() && before_good && seg.iter().all(|e| e.1 == Out::Ok || non_protocol(e.0)) && !good(&o.after, case.xml) {
            bad.push(("consistent_step", format!("{at}: consistent before ({}), no protocol step failed, but left {}", o.before.show(), o.after.show())));
        }
        // ---- close_clean (per state): consistent before close and no failing effect during it
        if o.op == Op::Close && before_good && !seg.iter().any(is_fail) {
            let a = &o.after;
            let clean = o.res == "ok" && !a.flag && a.loops == 0 && a.lock == 0 && !a.enabled && !a.acquiring && !a.ctrl_open && !a.strm_open && a.cache_empty() && a.chan.is_none();
            if !clean {
                bad.push(("close_clean", format!("{at}: consistent before ({}), nothing failed during close, but close returned {} and left {}", o.before.show(), o.res, a.show())));
            }
        }
    }
    // ---- whole-trace protocol order (independent restatement, cf. `requiredBefore` in the
    //      Lean spec): every attempt of a protocol step comes DIRECTLY after its successful
    //      predecessors, across call boundaries too
    let whole: Vec<(Sub, Out)> = outs.iter().flat_map(|o| o.seg.iter().copied()).collect();
    for (i, e) in whole.iter().enumerate() {
        let ok = |s: Sub| (s, Out::Ok);
        let req: Vec<(Sub, Out)> = match e.0 {
            Sub::LockSet(1) => vec![ok(Sub::Enable)],
            Sub::AcqStart => vec![ok(Sub::Enable), ok(Sub::LockSet(1))],
            Sub::LoopStart => vec![ok(Sub::Enable), ok(Sub::LockSet(1)), ok(Sub::AcqStart)],
            Sub::AcqStop => vec![ok(Sub::LoopStop)],
            Sub::LockSet(0) => vec![ok(Sub::LoopStop), ok(Sub::AcqStop)],
            Sub::Disable => vec![ok(Sub::LoopStop), ok(Sub::AcqStop), ok(Sub::LockSet(0))],
            Sub::LockSet(_) | Sub::Other => {
                bad.push(("global_order", format!("unexpected device access #{i} {}", tok(e))));
                vec![]
            }
            _ => vec![],
        };
        if i < req.len() || whole[i - req.len()..i] != req[..] {
            let clause = if matches!(e.0, Sub::LockSet(1) | Sub::AcqStart | Sub::LoopStart) { "start_order" } else { "stop_order" };
            bad.push((clause, format!("effect #{i} {} is not directly preceded by {:?}", tok(e), req.iter().map(tok).collect::<Vec<_>>())));
        }
    }
    // ---- the device-visible state is the replay of the trace (sanity of the fakes themselves)
    if let Some(last) = outs.last() {
        let (mut en, mut lock, mut acq, mut co, mut so, mut loops) = (false, 0u32, false, false, false, 0i64);
        for e in whole.iter().filter(|e| e.1 == Out::Ok) {
            match e.0 {
                Sub::Enable => en = true,
                Sub::Disable => en = false,
                Sub::LockSet(v) => lock = v,
                Sub::AcqStart => acq = true,
                Sub::AcqStop => acq = false,
                Sub::CtrlOpen => co = true,
                Sub::CtrlClose => co = false,
                Sub::StrmOpen => so = true,
                Sub::StrmClose => so = false,
                Sub::LoopStart => loops += 1,
                Sub::LoopStop => loops -= 1,
                _ => {}
            }
        }
        if case.stop_fail_kills && !case.u3v {
            loops -= whole.iter().filter(|e| *e == &(Sub::LoopStop, Out::Fault)).count() as i64;
        }
        // spontaneous loop deaths are not effects of the trace
        loops -= outs.iter().filter(|o| o.op == Op::Die && o.after.loops < o.before.loops).count() as i64;
        let a = &last.after;
        if (a.enabled, a.lock, a.acquiring, a.ctrl_open, a.strm_open, a.loops as i64) != (en, lock, acq, co, so, loops) {
            bad.push(("trace_replay", format!("final state {} is not the replay of the trace", a.show())));
        }
    }
    bad
}

// ---------------------------------------------------------------------------------------

struct Ctx {
    rep: Report,
    xmls: std::collections::HashMap<String, String>,
    camdrv: String,
}

impl Ctx {
    fn xml_text(&mut self, v: XmlVar) -> String {
        self.xmls.entry(v.name()).or_insert_with(|| build_xml(v)).clone()
    }

    /// run one case on the implementation, evaluate the oracle, queue for the model;
    /// returns the number of sub-operations performed
    fn one(&mut self, case: &Case, src: &str) -> usize {
        let xml = self.xml_text(case.xml);
        let outs = run_impl(case, &xml);
        let n_sub: usize = outs.iter().map(|o| o.seg.len()).sum();
        let ans = answer(&outs);
        let req = case.request();
        let any_start_ok = outs.iter().any(|o| matches!(o.op, Op::Start(_)) && o.res == "ok");
        self.rep.case(&req, any_start_ok);
        self.rep.count(&format!("src/{src}"));
        self.rep.count(&format!("faults/{}", case.faults.len()));
        self.rep.count(&format!("depth/{}", case.ops.len()));
        for o in &outs {
            self.rep.count(&format!("call/{}:{}", o.op.name(), o.res));
        }
        let mut seen = std::collections::HashSet::new();
        for (kind, what) in oracle(case, &outs) {
            if seen.insert(kind) {
                // signature: the violated clause + the shape of the call that exhibits it
                let first = what.split(':').next().unwrap_or("").split(' ').last().unwrap_or("").to_string();
                self.rep.violation(
                    json!({"clause": kind, "call": first, "faults": case.faults.len(), "xml": case.xml.name()}),
                    &format!("{kind}: {what}  [{}]", req),
                    case.replay(),
                );
            }
        }
        if self.rep.evaluations % 20011 == 1 || (any_start_ok && self.rep.samples.len() < 3) {
            self.rep.sample(json!({"request": req, "impl": ans}));
        }
        self.rep.expect(req, ans);
        if self.rep.evaluations % 100_000 == 0 {
            let drv = self.camdrv.clone();
            self.rep.flush_model(&drv);
        }
        n_sub
    }

    /// no-fault run, then a single fault at every sub-operation index (and optionally pairs)
    fn with_faults(&mut self, base: &Case, pairs: bool, src: &str) {
        let n = self.one(base, src);
        for k in 0..n {
            let mut c = base.clone();
            c.faults = vec![k];
            let n1 = self.one(&c, src);
            if pairs {
                // second fault strictly after the first; the run may be longer/shorter after fault k
                for k2 in (k + 1)..n1.max(k + 1) {
                    let mut c2 = base.clone();
                    c2.faults = vec![k, k2];
                    self.one(&c2, src);
                }
            }
        }
    }
}

fn sequences(alphabet: &[Op], depth: usize, f: &mut impl FnMut(&[Op])) {
    fn rec(alphabet: &[Op], depth: usize, cur: &mut Vec<Op>, f: &mut impl FnMut(&[Op])) {
        f(cur);
        if cur.len() == depth {
            return;
        }
        for o in alphabet {
            cur.push(*o);
            rec(alphabet, depth, cur, f);
            cur.pop();
        }
    }
    rec(alphabet, depth, &mut vec![], f);
}

fn main() {
    let args = parse_args();
    let rep = Report::new(
        "C16",
        "exhaustive: every call sequence over {open, load, start(1), stop, close, param} up to the depth bound x (no fault + a fault at every sub-operation index), for the complete description; shallower exhaustive sweeps with start(0)/start(3), fault pairs, defective descriptions (node missing / wrong interface / unparsable), the loop-dies-on-failed-stop stream behaviour, contexts installed/removed behind the camera's back (Camera::new(Some)/set_context/public field), five further error variants; plus seeded random deep sequences. Every successful start pushes real payload tokens both ways through the channel (caps 1, 3, 2..4 random, 2^16 and 2^20) and reads through the control object it was given. NOTE on effective coverage: the sweeps are exhaustive over call sequences, so most cases consist largely of refused calls (load -> NotOpened before open, start -> GenApiContextMissing before load); only ~4 % of the cases contain a successful start (that is the 'non-trivial' count), the others exercise the refusal/abort clauses. A case is non-trivial when at least one start_streaming call succeeds; distinct by the full request line",
    );
    let mut cx = Ctx { rep, xmls: Default::default(), camdrv: args.camdrv.clone() };
    let full_text = cx.xml_text(XmlVar::FULL);
    let order = discover_order(&full_text);
    ORDER.set(order.clone()).ok();
    cx.rep.extra.insert("handle_order_discovered".into(), json!({"open_first": &order[0..1], "close_first": &order[1..2], "legend": "c = control handle, s = stream handle"}));

    if let Some(path) = &args.replay {
        let v: Value = serde_json::from_str(&std::fs::read_to_string(path).unwrap()).unwrap();
        let case = Case::from_replay(&v["replay"]);
        cx.one(&case, "replay");
        let xml = cx.xml_text(case.xml);
        eprintln!("{}\n{}", case.request(), answer(&run_impl(&case, &xml)));
        cx.rep.write(&args);
        return;
    }
    if std::env::args().any(|a| a == "--probe") {
        for ops in [
            vec![Op::Open, Op::Load, Op::Param, Op::Start(1), Op::Start(1), Op::Stop, Op::Param, Op::Close],
            vec![Op::Open, Op::Start(1), Op::Close],
            vec![Op::Open, Op::Load, Op::Gate(1), Op::Start(1), Op::Gate(0), Op::Stop, Op::Start(1), Op::Gate(2), Op::Close],
            vec![Op::Open, Op::Load, Op::Start(0), Op::Close],
            vec![Op::Load, Op::Open, Op::Load, Op::Start(1), Op::Load, Op::Close, Op::Param],
        ] {
            for g in [GateVar::None, GateVar::IsLocked, GateVar::IsAvailable, GateVar::ImposedRo] {
                if g != GateVar::None && !ops.iter().any(|o| matches!(o, Op::Gate(_))) {
                    continue;
                }
                let case = Case { xml: XmlVar { gate: g, ..XmlVar::FULL }, stop_fail_kills: false, u3v: false, real: false, faults: vec![], ops: ops.clone(), kind: 0 };
                let xml = cx.xml_text(case.xml);
                let outs = run_impl(&case, &xml);
                println!("{} [{}]\n  {}", case.request(), case.xml.name(), answer(&outs));
                for (k, w) in oracle(&case, &outs) {
                    println!("  ORACLE {k}: {w}");
                }
            }
        }
        return;
    }

    // (0) corpus: minimised past failures first
    let mut corpus: Vec<_> = std::fs::read_dir("/verif/corpus/C16")
        .map(|d| d.filter_map(|e| e.ok()).map(|e| e.path()).collect())
        .unwrap_or_default();
    corpus.sort();
    for path in corpus {
        if path.extension().map_or(false, |e| e == "json") {
            let v: Value = serde_json::from_str(&std::fs::read_to_string(&path).unwrap()).unwrap();
            let case = Case::from_replay(&v["replay"]);
            cx.one(&case, "corpus");
        }
    }

    let thorough = args.thorough();
    let base6 = [Op::Open, Op::Load, Op::Start(1), Op::Stop, Op::Close, Op::Param];
    let base7 = [Op::Open, Op::Load, Op::Start(1), Op::Start(0), Op::Stop, Op::Close, Op::Param];
    let base5 = [Op::Open, Op::Load, Op::Start(3), Op::Stop, Op::Close];

    // (1) main exhaustive sweep: complete description, single faults
    let d_main = if thorough { 7 } else { 5 };
    let mut seqs: Vec<Vec<Op>> = vec![];
    sequences(&base6, d_main, &mut |s| seqs.push(s.to_vec()));
    for s in &seqs {
        let c = Case { xml: XmlVar::FULL, stop_fail_kills: false, u3v: false, real: false, faults: vec![], ops: s.clone(), kind: 0 };
        cx.with_faults(&c, false, "exhaustive-main");
    }
    cx.rep.extra.insert(
        "exhaustive_main".into(),
        json!({"alphabet": base6.iter().map(|o| o.name()).collect::<Vec<_>>(), "depth": d_main, "sequences": seqs.len(), "faults": "none + every single index"}),
    );

    // (2) with start(0) (documented panic) in the alphabet, and fault pairs
    let d2 = if thorough { 5 } else { 4 };
    let mut seqs2: Vec<Vec<Op>> = vec![];
    sequences(&base7, d2, &mut |s| seqs2.push(s.to_vec()));
    for s in &seqs2 {
        if !s.contains(&Op::Start(0)) {
            continue;
        }
        let c = Case { xml: XmlVar::FULL, stop_fail_kills: false, u3v: false, real: false, faults: vec![], ops: s.clone(), kind: 0 };
        cx.with_faults(&c, false, "exhaustive-cap0");
    }
    let d3 = if thorough { 5 } else { 4 };
    let mut seqs3: Vec<Vec<Op>> = vec![];
    sequences(&base5, d3, &mut |s| seqs3.push(s.to_vec()));
    for s in &seqs3 {
        let c = Case { xml: XmlVar::FULL, stop_fail_kills: false, u3v: false, real: false, faults: vec![], ops: s.clone(), kind: 0 };
        cx.with_faults(&c, true, "exhaustive-fault-pairs");
    }

    // (3) stream handle whose failed stop kills the loop (u3v::StreamHandle behaviour)
    let d4 = if thorough { 5 } else { 4 };
    let mut seqs4: Vec<Vec<Op>> = vec![];
    sequences(&base6, d4, &mut |s| seqs4.push(s.to_vec()));
    for s in &seqs4 {
        if !s.iter().any(|o| matches!(o, Op::Stop | Op::Close)) {
            continue;
        }
        let c = Case { xml: XmlVar::FULL, stop_fail_kills: true, u3v: false, real: false, faults: vec![], ops: s.clone(), kind: 0 };
        cx.with_faults(&c, false, "exhaustive-stopfail-kills");
    }

    // (4) defective descriptions
    let mut vars = vec![XmlVar { parse_ok: false, ..XmlVar::FULL }];
    for v in [NodeVar::Missing, NodeVar::WrongKind] {
        vars.push(XmlVar { lock: v, ..XmlVar::FULL });
        vars.push(XmlVar { start: v, ..XmlVar::FULL });
        vars.push(XmlVar { stop: v, ..XmlVar::FULL });
    }
    vars.push(XmlVar { lock: NodeVar::Missing, start: NodeVar::WrongKind, stop: NodeVar::Missing, ..XmlVar::FULL });
    let d5 = if thorough { 5 } else { 4 };
    let mut seqs5: Vec<Vec<Op>> = vec![];
    sequences(&base5, d5, &mut |s| seqs5.push(s.to_vec()));
    for v in &vars {
        for s in &seqs5 {
            if !s.contains(&Op::Load) {
                continue;
            }
            let c = Case { xml: *v, stop_fail_kills: false, u3v: false, real: false, faults: vec![], ops: s.clone(), kind: 0 };
            cx.with_faults(&c, false, "exhaustive-defective-xml");
        }
    }

    // (5a) states outside the reachable set of the five calls: a context installed through
    //      Camera::new(.., Some(ctxt)) / set_context, or removed through the public field
    let surg = [Op::Open, Op::Load, Op::Preload, Op::Unload, Op::Start(1), Op::Stop, Op::Close];
    let d6 = if thorough { 5 } else { 4 };
    let mut seqs6: Vec<Vec<Op>> = vec![];
    sequences(&surg, d6, &mut |s| seqs6.push(s.to_vec()));
    for v in [XmlVar::FULL, XmlVar { start: NodeVar::Missing, ..XmlVar::FULL }, XmlVar { parse_ok: false, ..XmlVar::FULL }] {
        for s in &seqs6 {
            if !s.iter().any(|o| matches!(o, Op::Preload | Op::Unload)) {
                continue;
            }
            if v != XmlVar::FULL && !s.contains(&Op::Preload) {
                continue;
            }
            let c = Case { xml: v, stop_fail_kills: false, u3v: false, real: false, faults: vec![], ops: s.clone(), kind: 0 };
            cx.with_faults(&c, false, "exhaustive-preload-unload");
        }
    }

    // (5c) descriptions that restrict access to TLParamsLocked (pIsLocked / pIsAvailable referring
    //      to a feature the application can set, ImposedAccessMode RO) + params access that sets
    //      / clears that feature before start and while streaming.  The camera must write
    //      TLParamsLocked regardless.
    let gated = [Op::Gate(1), Op::Gate(0), Op::Start(1), Op::Stop, Op::Close];
    let d8 = if thorough { 5 } else { 4 };
    let mut seqs8: Vec<Vec<Op>> = vec![];
    sequences(&gated, d8, &mut |s| seqs8.push(s.to_vec()));
    for g in [GateVar::IsLocked, GateVar::IsAvailable, GateVar::ImposedRo, GateVar::None] {
        for s in &seqs8 {
            if !s.contains(&Op::Start(1)) {
                continue;
            }
            let mut ops = vec![Op::Open, Op::Load];
            ops.extend_from_slice(s);
            let c = Case { xml: XmlVar { gate: g, ..XmlVar::FULL }, stop_fail_kills: false, u3v: false, real: false, faults: vec![], ops, kind: 0 };
            cx.with_faults(&c, false, "exhaustive-gated-TLParamsLocked");
        }
    }

    // (5e) the stream handle that behaves like u3v::StreamHandle (own InStreaming check, stop takes
    //      the sender and fails exactly on a dead loop) with spontaneous loop deaths as events
    let u3v_alpha = [Op::Open, Op::Load, Op::Start(1), Op::Stop, Op::Close, Op::Die];
    let d9 = if thorough { 6 } else { 5 };
    let mut seqs9: Vec<Vec<Op>> = vec![];
    sequences(&u3v_alpha, d9, &mut |s| seqs9.push(s.to_vec()));
    for s in &seqs9 {
        let c = Case { xml: XmlVar::FULL, stop_fail_kills: false, u3v: true, real: false, faults: vec![], ops: s.clone(), kind: 0 };
        cx.with_faults(&c, false, "exhaustive-u3v-handle");
    }

    // (5f) the REAL u3v::StreamHandle with its loop thread on a null endpoint, recorded by a wrapper:
    //      ties the model's u3v handle instance to stream_handle.rs itself.  No fault injection
    //      (the handle decides); a loop death (panic injected at the loop_top yield point) is
    //      followed only by calls that do not touch the poisoned receive-channel mutex again.
    let real_alpha = [Op::Open, Op::Load, Op::Start(1), Op::Stop, Op::Close];
    let d10 = if thorough { 4 } else { 3 };
    let mut real_seqs: Vec<Vec<Op>> = vec![];
    sequences(&real_alpha, d10, &mut |s| {
        let mut ops = vec![Op::Open, Op::Load];
        ops.extend_from_slice(s);
        real_seqs.push(ops);
    });
    for tail in [
        vec![Op::Start(1), Op::Die, Op::Stop],
        vec![Op::Start(1), Op::Die, Op::Start(1), Op::Stop],
        vec![Op::Die, Op::Start(1), Op::Die, Op::Stop, Op::Stop],
        vec![Op::Start(1), Op::Stop, Op::Start(2), Op::Die, Op::Param, Op::Stop],
        vec![Op::Start(1), Op::Close, Op::Open, Op::Start(3), Op::Die, Op::Load, Op::Stop],
    ] {
        let mut ops = vec![Op::Open, Op::Load];
        ops.extend(tail);
        real_seqs.push(ops);
    }
    real_seqs.push(vec![Op::Load, Op::Start(1), Op::Open, Op::Start(1), Op::Load, Op::Start(1), Op::Start(1), Op::Close, Op::Close]);
    // F-C16-1 (fixed in /repo): the loop thread holds the receive-channel mutex for its whole life, so
    // `StreamHandle::open()` - i.e. `Camera::open()` - while a loop ran blocked forever.  The
    // deterministic sessions below (the `load` gives the thread time to take the lock) come first;
    // a blocked call is detected after 5 s (helper thread), a watchdog aborts a session that stalls
    // otherwise.
    let mut first: Vec<Vec<Op>> = vec![
        vec![Op::Open, Op::Load, Op::Start(1), Op::Load, Op::Open],
        vec![Op::Open, Op::Load, Op::Start(1), Op::Load, Op::Open, Op::Open],
        vec![Op::Open, Op::Load, Op::Start(1), Op::Load, Op::Open, Op::Stop],
        vec![Op::Open, Op::Load, Op::Start(1), Op::Load, Op::Open, Op::Stop, Op::Close],
        vec![Op::Open, Op::Load, Op::Start(1), Op::Param, Op::Open, Op::Close, Op::Open, Op::Start(2), Op::Load, Op::Open, Op::Stop],
    ];
    first.append(&mut real_seqs);
    let real_seqs = first;
    let progress = Arc::new(AtomicU64::new(0));
    {
        let progress = progress.clone();
        std::thread::spawn(move || {
            let mut last = (0u64, Instant::now());
            loop {
                std::thread::sleep(Duration::from_millis(500));
                let p = progress.load(Ordering::SeqCst);
                if p == u64::MAX {
                    return;
                }
                if p != last.0 {
                    last = (p, Instant::now());
                } else if last.1.elapsed() > Duration::from_secs(30) {
                    eprintln!("c16: a session on the real u3v::StreamHandle stalled for 30 s (session #{p}); aborting");
                    std::process::exit(3);
                }
            }
        });
    }
    for ops in &real_seqs {
        progress.fetch_add(1, Ordering::SeqCst);
        if BLOCKED_ONCE.load(Ordering::SeqCst) {
            // one blocked open is enough: do not spend 5 s on every further open-while-streaming
            let mut running = false;
            let mut risky = false;
            for o in ops {
                match o {
                    Op::Start(_) => running = true,
                    Op::Stop | Op::Close | Op::Die => running = false,
                    Op::Open if running => risky = true,
                    _ => {}
                }
            }
            if risky {
                continue;
            }
        }
        let c = Case { xml: XmlVar::FULL, stop_fail_kills: false, u3v: true, real: true, faults: vec![], ops: ops.clone(), kind: 0 };
        if std::env::var("C16_TRACE").is_ok() {
            eprintln!("real: {}", c.request());
        }
        cx.one(&c, "real-u3v-StreamHandle");
    }
    progress.store(u64::MAX, Ordering::SeqCst);

    // (5d) large capacities: the channel must really have `cap` slots (a clamp would show), and
    //      the give-back capacity stays 5
    for ops in [
        vec![Op::Open, Op::Load, Op::Start(BIG_CAP), Op::Close],
        vec![Op::Open, Op::Load, Op::Start(1 << 16), Op::Stop, Op::Start(1 << 16), Op::Close],
        vec![Op::Open, Op::Load, Op::Start(1 << 16), Op::Start(BIG_CAP), Op::Stop],
        vec![Op::Open, Op::Load, Op::Start(1025), Op::Close],
    ] {
        let c = Case { xml: XmlVar::FULL, stop_fail_kills: false, u3v: false, real: false, faults: vec![], ops: ops.clone(), kind: 0 };
        cx.one(&c, "large-cap");
        if !ops.contains(&Op::Start(BIG_CAP)) {
            cx.with_faults(&c, false, "large-cap");
        }
    }

    // (5b) the other error variants a handle may return (propagated unchanged)
    let d7 = if thorough { 5 } else { 4 };
    let mut seqs7: Vec<Vec<Op>> = vec![];
    sequences(&base5, d7, &mut |s| seqs7.push(s.to_vec()));
    for kind in 1..6u8 {
        for s in &seqs7 {
            let c = Case { xml: XmlVar::FULL, stop_fail_kills: kind % 2 == 0, u3v: false, real: false, faults: vec![], ops: s.clone(), kind };
            cx.with_faults(&c, false, "exhaustive-error-kinds");
        }
    }

    // (5) seeded random deep sequences with random fault sets
    let mut rng = Rng::new(args.seed);
    let rounds = if thorough { 60_000 } else { 8_000 };
    for _ in 0..rounds {
        let len = rng.range(7, 14) as usize;
        let ops: Vec<Op> = (0..len)
            .map(|_| match rng.below(16) {
                0..=2 => Op::Open,
                3..=5 => Op::Load,
                6..=8 => Op::Start(rng.range(1, 4) as usize),
                9 => Op::Start(0),
                10..=11 => Op::Stop,
                12..=13 => Op::Close,
                14 => match rng.below(5) {
                    0 => Op::Preload,
                    1 => Op::Unload,
                    2 => Op::Die,
                    _ => Op::Gate(rng.below(3) as u32),
                },
                _ => Op::Param,
            })
            .collect();
        let nf = rng.below(4) as usize;
        let mut faults: Vec<usize> = (0..nf).map(|_| rng.below(30) as usize).collect();
        faults.sort();
        faults.dedup();
        let mut xml = if rng.chance(1, 6) { *rng.pick(&vars) } else { XmlVar::FULL };
        xml.gate = *rng.pick(&[GateVar::None, GateVar::None, GateVar::IsLocked, GateVar::IsAvailable, GateVar::ImposedRo]);
        let c = Case { xml, stop_fail_kills: rng.bool(), u3v: rng.chance(1, 3), real: false, faults, ops, kind: rng.below(6) as u8 };
        cx.one(&c, "random-deep");
    }

    cx.rep.write(&args);
}
