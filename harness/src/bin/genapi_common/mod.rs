//! Shared by `c03.rs` and `c18.rs`: an ABSTRACT description of GenApi node graphs, a
//! generator of well-formed (acyclic, ≤ 12 nodes + entries) and slightly malformed graphs,
//! two renderings (GenApi XML for the real `GenApiBuilder`; the line protocol of
//! `lean/Driver/GenApi.lean` for the model — produced from the abstract description, never
//! from the XML), a recording in-memory `Device`, the executor of operation sequences on
//! the real nodes, and the property oracles evaluated on the implementation's own answers.
#![allow(dead_code)]

pub mod corpus;

use camharness::*;
use cameleon_genapi::builder::GenApiBuilder;
use cameleon_genapi::prelude::*;
use cameleon_genapi::store::{CacheSink, DefaultCacheStore, DefaultNodeStore, DefaultValueStore};
use cameleon_genapi::{Device, GenApiError, GenApiResult, NodeId, NodeStore, ValueCtxt};
use std::collections::HashMap;


// ───────────────────────────── panic discipline ─────────────────────────────
//
// Calls into the implementation may panic (that is an answer: `Ans::Panic`), and they run under
// `catch`.  A panic anywhere else is a bug of this harness: the hook prints file:line for it
// (the shared `camharness::catch` installs a silent hook, which would hide it), and the oracle
// code additionally runs under `guarded`, which turns such a panic into a distinctly reported
// harness bug instead of a crash without a result file.

thread_local! {
    static CATCH_DEPTH: std::cell::Cell<u32> = const { std::cell::Cell::new(0) };
    static LAST_PANIC: std::cell::RefCell<Option<String>> = const { std::cell::RefCell::new(None) };
}

pub fn install_panic_hook() {
    // let the shared helper install its silent hook first (it does so once), then replace it
    let _ = camharness::catch(|| ());
    std::panic::set_hook(Box::new(|info| {
        let loc = info.location().map_or("?".to_string(), |l| format!("{}:{}", l.file(), l.line()));
        let msg = if let Some(s) = info.payload().downcast_ref::<&str>() {
            s.to_string()
        } else if let Some(s) = info.payload().downcast_ref::<String>() {
            s.clone()
        } else {
            "<non-string panic payload>".to_string()
        };
        LAST_PANIC.with(|l| *l.borrow_mut() = Some(format!("{loc}: {msg}")));
        if CATCH_DEPTH.with(|d| d.get()) == 0 {
            eprintln!("HARNESS PANIC outside catch at {loc}: {msg}");
        }
    }));
}

/// run `f`; a panic becomes `Err(())` (shadows `camharness::catch`: same contract, but tells the
/// hook that the panic is expected)
pub fn catch<T>(f: impl FnOnce() -> T) -> Result<T, ()> {
    CATCH_DEPTH.with(|d| d.set(d.get() + 1));
    let r = std::panic::catch_unwind(std::panic::AssertUnwindSafe(f));
    CATCH_DEPTH.with(|d| d.set(d.get() - 1));
    r.map_err(|_| ())
}

/// run harness-side code (oracles, predicate evaluation); a panic in it is a HARNESS BUG and is
/// returned as `Err(file:line: message)`
pub fn guarded<T>(f: impl FnOnce() -> T) -> Result<T, String> {
    LAST_PANIC.with(|l| *l.borrow_mut() = None);
    match catch(f) {
        Ok(x) => Ok(x),
        Err(()) => Err(LAST_PANIC.with(|l| l.borrow_mut().take()).unwrap_or_else(|| "?".into())),
    }
}

// ───────────────────────────── abstract description ─────────────────────────────

#[derive(Clone, Copy, Debug, PartialEq, Eq)]
pub enum AM {
    RO,
    WO,
    RW,
}
impl AM {
    fn s(self) -> &'static str {
        match self {
            AM::RO => "RO",
            AM::WO => "WO",
            AM::RW => "RW",
        }
    }
}

#[derive(Clone, Debug, Default)]
pub struct Base {
    pub imp: Option<usize>,
    pub avail: Option<usize>,
    pub locked: Option<usize>,
    pub iam: Option<AM>, // None = element absent (defaults to RW)
}
impl Base {
    fn iam(&self) -> AM {
        self.iam.unwrap_or(AM::RW)
    }
}

/// `ImmOrPNode<i64>`: a true immediate or a node reference
#[derive(Clone, Debug)]
pub enum Ion {
    Imm(i64),
    Node(usize),
}
#[derive(Clone, Debug)]
pub enum IonF {
    Imm(f64),
    Node(usize),
}
/// `ImmOrPNode<IntegerId|FloatId|StringId>`: a value-store slot or a node reference
#[derive(Clone, Debug)]
pub enum Son {
    Slot(usize),
    Node(usize),
}

#[derive(Clone, Debug)]
pub enum VK {
    Value(usize),
    PValue { p: usize, before: Vec<usize>, after: Vec<usize> },
    PIndex { sel: usize, entries: Vec<(i64, Son)>, dflt: Son },
}
impl VK {
    fn copies(&self) -> Vec<usize> {
        match self {
            VK::PValue { before, after, .. } => before.iter().chain(after.iter()).cloned().collect(),
            _ => vec![],
        }
    }
}

#[derive(Clone, Debug)]
pub enum AddrKind {
    Addr(Ion),
    Isk(usize),
    PIndex { sel: usize, offset: Option<Ion> },
}

#[derive(Clone, Debug)]
pub struct RegBase {
    pub base: Base,
    pub addrs: Vec<AddrKind>,
    pub length: Ion,
    pub am: Option<AM>, // None = absent (defaults to RO)
    pub port: usize,
}
impl RegBase {
    fn am(&self) -> AM {
        self.am.unwrap_or(AM::RO)
    }
}

#[derive(Clone, Debug)]
pub enum Mask {
    Bit(u64),
    Range(u64, u64),
}

#[derive(Clone, Debug)]
pub enum Lit {
    I(i64),
    F(f64),
}

#[derive(Clone, Debug, Default)]
pub struct Fm {
    pub vars: Vec<(String, usize)>,
    pub consts: Vec<(String, Lit)>,
    pub exprs: Vec<(String, String)>,
}

#[derive(Clone, Debug)]
pub enum Kind {
    Integer { b: Base, vk: VK, min: Option<Son>, max: Option<Son>, inc: Option<Ion>, min_slot: usize, max_slot: usize },
    IntReg { r: RegBase, signed: bool, be: bool },
    MaskedIntReg { r: RegBase, mask: Mask, signed: bool, be: bool },
    Boolean { b: Base, value: Son, on: i64, off: i64, init: bool },
    Command { b: Base, value: Son, cmd: Son },
    Enumeration { b: Base, entries: Vec<usize>, value: Son },
    EnumEntry { b: Base, value: i64, numeric: Option<f64>, symbolic: String },
    Float { b: Base, vk: VK, min: Option<Son>, max: Option<Son>, inc: Option<IonF>, min_slot: usize, max_slot: usize },
    FloatReg { r: RegBase, be: bool },
    Str { b: Base, value: Son },
    StringReg { r: RegBase },
    Register { r: RegBase },
    Converter { b: Base, fm: Fm, to: String, from: String, pvalue: usize, int: bool },
    SwissKnife { b: Base, fm: Fm, formula: String, int: bool, embedded: bool },
    Port { b: Base, chunk: bool },
    Category { b: Base, features: Vec<usize> },
    Node { b: Base },
}

#[derive(Clone, Debug)]
pub enum SlotInit {
    I(i64),
    F(f64),
    S(String),
}

#[derive(Clone, Debug)]
pub struct Graph {
    pub nodes: Vec<Kind>,
    pub slots: Vec<SlotInit>,
    pub mem: Vec<u8>,
    pub ro: (usize, usize),
    /// ids referenced by name but never defined
    pub ghosts: Vec<usize>,
    /// render registers with `<Cachable>` + `<pInvalidator>port` (the cached twin of C18)
    pub cached_xml: std::cell::Cell<bool>,
}

pub fn name(id: usize) -> String {
    format!("N{id}")
}

impl Kind {
    pub fn base(&self) -> &Base {
        match self {
            Kind::Integer { b, .. } | Kind::Boolean { b, .. } | Kind::Command { b, .. } | Kind::Enumeration { b, .. }
            | Kind::EnumEntry { b, .. } | Kind::Float { b, .. } | Kind::Str { b, .. } | Kind::Converter { b, .. }
            | Kind::SwissKnife { b, .. } | Kind::Port { b, .. } | Kind::Category { b, .. } | Kind::Node { b } => b,
            Kind::IntReg { r, .. } | Kind::MaskedIntReg { r, .. } | Kind::FloatReg { r, .. } | Kind::StringReg { r }
            | Kind::Register { r } => &r.base,
        }
    }
    pub fn base_mut(&mut self) -> &mut Base {
        match self {
            Kind::Integer { b, .. } | Kind::Boolean { b, .. } | Kind::Command { b, .. } | Kind::Enumeration { b, .. }
            | Kind::EnumEntry { b, .. } | Kind::Float { b, .. } | Kind::Str { b, .. } | Kind::Converter { b, .. }
            | Kind::SwissKnife { b, .. } | Kind::Port { b, .. } | Kind::Category { b, .. } | Kind::Node { b } => b,
            Kind::IntReg { r, .. } | Kind::MaskedIntReg { r, .. } | Kind::FloatReg { r, .. } | Kind::StringReg { r }
            | Kind::Register { r } => &mut r.base,
        }
    }
    pub fn reg(&self) -> Option<&RegBase> {
        match self {
            Kind::IntReg { r, .. } | Kind::MaskedIntReg { r, .. } | Kind::FloatReg { r, .. } | Kind::StringReg { r }
            | Kind::Register { r } => Some(r),
            _ => None,
        }
    }
    pub fn tag(&self) -> &'static str {
        match self {
            Kind::Integer { .. } => "Integer",
            Kind::IntReg { .. } => "IntReg",
            Kind::MaskedIntReg { .. } => "MaskedIntReg",
            Kind::Boolean { .. } => "Boolean",
            Kind::Command { .. } => "Command",
            Kind::Enumeration { .. } => "Enumeration",
            Kind::EnumEntry { .. } => "EnumEntry",
            Kind::Float { .. } => "Float",
            Kind::FloatReg { .. } => "FloatReg",
            Kind::Str { .. } => "String",
            Kind::StringReg { .. } => "StringReg",
            Kind::Register { .. } => "Register",
            Kind::Converter { int: false, .. } => "Converter",
            Kind::Converter { int: true, .. } => "IntConverter",
            Kind::SwissKnife { int: false, .. } => "SwissKnife",
            Kind::SwissKnife { int: true, .. } => "IntSwissKnife",
            Kind::Port { .. } => "Port",
            Kind::Category { .. } => "Category",
            Kind::Node { .. } => "Node",
        }
    }
    pub fn is_int(&self) -> bool {
        matches!(self, Kind::Integer { .. } | Kind::IntReg { .. } | Kind::MaskedIntReg { .. } | Kind::Converter { int: true, .. } | Kind::SwissKnife { int: true, .. })
    }
    pub fn is_float(&self) -> bool {
        matches!(self, Kind::Float { .. } | Kind::FloatReg { .. } | Kind::Converter { int: false, .. } | Kind::SwissKnife { int: false, .. })
    }
    pub fn is_str(&self) -> bool {
        matches!(self, Kind::Str { .. } | Kind::StringReg { .. })
    }
    pub fn is_bool(&self) -> bool {
        matches!(self, Kind::Boolean { .. })
    }
    pub fn is_enum(&self) -> bool {
        matches!(self, Kind::Enumeration { .. })
    }
}

impl Graph {
    pub fn kind(&self, id: usize) -> Option<&Kind> {
        self.nodes.get(id)
    }
    fn is_int(&self, id: usize) -> bool {
        self.kind(id).map_or(false, |k| k.is_int())
    }
    fn is_float(&self, id: usize) -> bool {
        self.kind(id).map_or(false, |k| k.is_float())
    }
    fn is_str(&self, id: usize) -> bool {
        self.kind(id).map_or(false, |k| k.is_str())
    }
    fn is_bool(&self, id: usize) -> bool {
        self.kind(id).map_or(false, |k| k.is_bool())
    }
    fn is_enum(&self, id: usize) -> bool {
        self.kind(id).map_or(false, |k| k.is_enum())
    }
}

// ───────────────────────────── XML rendering ─────────────────────────────

fn esc(s: &str) -> String {
    s.replace('&', "&amp;").replace('<', "&lt;").replace('>', "&gt;").replace('"', "&quot;")
}

fn f64_xml(f: f64) -> String {
    if f == f64::INFINITY {
        "INF".into()
    } else if f == f64::NEG_INFINITY {
        "-INF".into()
    } else {
        format!("{:?}", f)
    }
}

fn base_xml(b: &Base, out: &mut String) {
    if let Some(n) = b.imp {
        out.push_str(&format!("<pIsImplemented>{}</pIsImplemented>", name(n)));
    }
    if let Some(n) = b.avail {
        out.push_str(&format!("<pIsAvailable>{}</pIsAvailable>", name(n)));
    }
    if let Some(n) = b.locked {
        out.push_str(&format!("<pIsLocked>{}</pIsLocked>", name(n)));
    }
    if let Some(m) = b.iam {
        out.push_str(&format!("<ImposedAccessMode>{}</ImposedAccessMode>", m.s()));
    }
}

impl Graph {
    fn slot_text(&self, s: usize) -> String {
        match &self.slots[s] {
            SlotInit::I(i) => i.to_string(),
            SlotInit::F(f) => f64_xml(*f),
            SlotInit::S(s) => esc(s),
        }
    }
    fn son_xml(&self, tag: &str, v: &Son, attrs: &str, out: &mut String) {
        match v {
            Son::Slot(s) => out.push_str(&format!("<{tag}{attrs}>{}</{tag}>", self.slot_text(*s))),
            Son::Node(n) => out.push_str(&format!("<p{tag}{attrs}>{}</p{tag}>", name(*n))),
        }
    }
    fn ion_xml(tag: &str, v: &Ion, out: &mut String) {
        match v {
            Ion::Imm(i) => out.push_str(&format!("<{tag}>{i}</{tag}>")),
            Ion::Node(n) => out.push_str(&format!("<p{tag}>{}</p{tag}>", name(*n))),
        }
    }
    fn vk_xml(&self, vk: &VK, out: &mut String) {
        match vk {
            VK::Value(s) => out.push_str(&format!("<Value>{}</Value>", self.slot_text(*s))),
            VK::PValue { p, before, after } => {
                for c in before {
                    out.push_str(&format!("<pValueCopy>{}</pValueCopy>", name(*c)));
                }
                out.push_str(&format!("<pValue>{}</pValue>", name(*p)));
                for c in after {
                    out.push_str(&format!("<pValueCopy>{}</pValueCopy>", name(*c)));
                }
            }
            VK::PIndex { sel, entries, dflt } => {
                out.push_str(&format!("<pIndex>{}</pIndex>", name(*sel)));
                for (i, v) in entries {
                    self.son_xml("ValueIndexed", v, &format!(" Index=\"{i}\""), out);
                }
                self.son_xml("ValueDefault", dflt, "", out);
            }
        }
    }
    fn fm_xml(&self, fm: &Fm, int: bool, out: &mut String) {
        for (n, id) in &fm.vars {
            out.push_str(&format!("<pVariable Name=\"{}\">{}</pVariable>", esc(n), name(*id)));
        }
        for (n, c) in &fm.consts {
            let t = match c {
                Lit::I(i) => {
                    if int {
                        i.to_string()
                    } else {
                        f64_xml(*i as f64)
                    }
                }
                Lit::F(f) => f64_xml(*f),
            };
            out.push_str(&format!("<Constant Name=\"{}\">{}</Constant>", esc(n), t));
        }
        for (n, e) in &fm.exprs {
            out.push_str(&format!("<Expression Name=\"{}\">{}</Expression>", esc(n), esc(e)));
        }
    }
    fn reg_xml(&self, r: &RegBase, out: &mut String) {
        base_xml(&r.base, out);
        for a in &r.addrs {
            match a {
                AddrKind::Addr(i) => Self::ion_xml("Address", i, out),
                AddrKind::Isk(n) => self.node_xml(*n, out),
                AddrKind::PIndex { sel, offset } => {
                    let attr = match offset {
                        None => String::new(),
                        Some(Ion::Imm(i)) => format!(" Offset=\"{i}\""),
                        Some(Ion::Node(n)) => format!(" pOffset=\"{}\"", name(*n)),
                    };
                    out.push_str(&format!("<pIndex{attr}>{}</pIndex>", name(*sel)));
                }
            }
        }
        Self::ion_xml("Length", &r.length, out);
        if let Some(m) = r.am {
            out.push_str(&format!("<AccessMode>{}</AccessMode>", m.s()));
        }
        out.push_str(&format!("<pPort>{}</pPort>", name(r.port)));
        if self.cached_xml.get() {
            let mode = ["WriteThrough", "WriteAround", "NoCache", "WriteThrough"][(r.port + r.addrs.len() + r.base.iam.map_or(0, |m| m as usize)) % 4];
            out.push_str(&format!("<Cachable>{mode}</Cachable>"));
            for (id, k) in self.nodes.iter().enumerate() {
                if matches!(k, Kind::Port { .. }) {
                    out.push_str(&format!("<pInvalidator>{}</pInvalidator>", name(id)));
                }
            }
        }
    }

    fn node_xml(&self, id: usize, out: &mut String) {
        let k = &self.nodes[id];
        let tag = k.tag();
        out.push_str(&format!("<{tag} Name=\"{}\">", name(id)));
        match k {
            Kind::Integer { b, vk, min, max, inc, .. } => {
                base_xml(b, out);
                self.vk_xml(vk, out);
                if let Some(m) = min {
                    self.son_xml("Min", m, "", out);
                }
                if let Some(m) = max {
                    self.son_xml("Max", m, "", out);
                }
                if let Some(i) = inc {
                    Self::ion_xml("Inc", i, out);
                }
            }
            Kind::IntReg { r, signed, be } => {
                self.reg_xml(r, out);
                out.push_str(if *signed { "<Sign>Signed</Sign>" } else { "<Sign>Unsigned</Sign>" });
                out.push_str(if *be { "<Endianess>BigEndian</Endianess>" } else { "<Endianess>LittleEndian</Endianess>" });
            }
            Kind::MaskedIntReg { r, mask, signed, be } => {
                self.reg_xml(r, out);
                match mask {
                    Mask::Bit(b) => out.push_str(&format!("<Bit>{b}</Bit>")),
                    Mask::Range(l, h) => out.push_str(&format!("<LSB>{l}</LSB><MSB>{h}</MSB>")),
                }
                out.push_str(if *signed { "<Sign>Signed</Sign>" } else { "<Sign>Unsigned</Sign>" });
                out.push_str(if *be { "<Endianess>BigEndian</Endianess>" } else { "<Endianess>LittleEndian</Endianess>" });
            }
            Kind::Boolean { b, value, on, off, init } => {
                base_xml(b, out);
                match value {
                    Son::Slot(_) => out.push_str(&format!("<Value>{}</Value>", if *init { "true" } else { "false" })),
                    Son::Node(n) => out.push_str(&format!("<pValue>{}</pValue>", name(*n))),
                }
                out.push_str(&format!("<OnValue>{on}</OnValue><OffValue>{off}</OffValue>"));
            }
            Kind::Command { b, value, cmd } => {
                base_xml(b, out);
                self.son_xml("Value", value, "", out);
                self.son_xml("CommandValue", cmd, "", out);
            }
            Kind::Enumeration { b, entries, value } => {
                base_xml(b, out);
                for e in entries {
                    if let Kind::EnumEntry { b, value, numeric, symbolic } = &self.nodes[*e] {
                        out.push_str(&format!("<EnumEntry Name=\"{}\">", esc(symbolic)));
                        base_xml(b, out);
                        out.push_str(&format!("<Value>{value}</Value>"));
                        if let Some(f) = numeric {
                            out.push_str(&format!("<NumericValue>{}</NumericValue>", f64_xml(*f)));
                        }
                        out.push_str("</EnumEntry>");
                    }
                }
                self.son_xml("Value", value, "", out);
            }
            Kind::EnumEntry { .. } => unreachable!(),
            Kind::Float { b, vk, min, max, inc, .. } => {
                base_xml(b, out);
                self.vk_xml(vk, out);
                if let Some(m) = min {
                    self.son_xml("Min", m, "", out);
                }
                if let Some(m) = max {
                    self.son_xml("Max", m, "", out);
                }
                match inc {
                    Some(IonF::Imm(f)) => out.push_str(&format!("<Inc>{}</Inc>", f64_xml(*f))),
                    Some(IonF::Node(n)) => out.push_str(&format!("<pInc>{}</pInc>", name(*n))),
                    None => {}
                }
            }
            Kind::FloatReg { r, be } => {
                self.reg_xml(r, out);
                out.push_str(if *be { "<Endianess>BigEndian</Endianess>" } else { "<Endianess>LittleEndian</Endianess>" });
            }
            Kind::Str { b, value } => {
                base_xml(b, out);
                self.son_xml("Value", value, "", out);
            }
            Kind::StringReg { r } | Kind::Register { r } => self.reg_xml(r, out),
            Kind::Converter { b, fm, to, from, pvalue, int } => {
                base_xml(b, out);
                self.fm_xml(fm, *int, out);
                out.push_str(&format!("<FormulaTo>{}</FormulaTo><FormulaFrom>{}</FormulaFrom><pValue>{}</pValue>", esc(to), esc(from), name(*pvalue)));
                out.push_str("<Slope>Varying</Slope>");
            }
            Kind::SwissKnife { b, fm, formula, int, .. } => {
                base_xml(b, out);
                self.fm_xml(fm, *int, out);
                out.push_str(&format!("<Formula>{}</Formula>", esc(formula)));
            }
            Kind::Port { b, chunk } => {
                base_xml(b, out);
                if *chunk {
                    out.push_str("<ChunkID>ab12</ChunkID>");
                }
            }
            Kind::Category { b, features } => {
                base_xml(b, out);
                for f in features {
                    out.push_str(&format!("<pFeature>{}</pFeature>", name(*f)));
                }
            }
            Kind::Node { b } => base_xml(b, out),
        }
        out.push_str(&format!("</{tag}>\n"));
    }

    pub fn xml(&self) -> String {
        let mut out = String::from(
            "<RegisterDescription ModelName=\"M\" VendorName=\"V\" StandardNameSpace=\"None\" SchemaMajorVersion=\"1\" SchemaMinorVersion=\"1\" SchemaSubMinorVersion=\"0\" MajorVersion=\"1\" MinorVersion=\"0\" SubMinorVersion=\"0\" ProductGuid=\"a\" VersionGuid=\"b\">\n",
        );
        for (id, k) in self.nodes.iter().enumerate() {
            match k {
                Kind::EnumEntry { .. } => {}
                Kind::SwissKnife { embedded: true, .. } => {}
                _ => self.node_xml(id, &mut out),
            }
        }
        out.push_str("</RegisterDescription>");
        out
    }
}

// ───────────────────────────── line protocol rendering ─────────────────────────────

fn opt(n: &Option<usize>) -> String {
    n.map_or("-".into(), |n| n.to_string())
}
fn base_p(b: &Base) -> String {
    format!("{} {} {} {}", opt(&b.imp), opt(&b.avail), opt(&b.locked), b.iam().s())
}
fn ion_p(i: &Ion) -> String {
    match i {
        Ion::Imm(i) => format!("i{i}"),
        Ion::Node(n) => format!("n{n}"),
    }
}
fn son_p(s: &Son) -> String {
    match s {
        Son::Slot(s) => format!("s{s}"),
        Son::Node(n) => format!("n{n}"),
    }
}
fn list_p(xs: &[usize]) -> String {
    if xs.is_empty() {
        "-".into()
    } else {
        xs.iter().map(|x| x.to_string()).collect::<Vec<_>>().join(",")
    }
}
fn vk_p(vk: &VK) -> String {
    match vk {
        VK::Value(s) => format!("V{s}"),
        VK::PValue { p, .. } => {
            let mut v = vec![p.to_string()];
            v.extend(vk.copies().iter().map(|c| c.to_string()));
            format!("P{}", v.join(","))
        }
        VK::PIndex { sel, entries, dflt } => format!(
            "X{sel}/{}/{}",
            entries.iter().map(|(i, v)| format!("{i}:{}", son_p(v))).collect::<Vec<_>>().join(","),
            son_p(dflt)
        ),
    }
}
fn reg_p(r: &RegBase) -> String {
    let addrs = if r.addrs.is_empty() {
        "-".to_string()
    } else {
        r.addrs
            .iter()
            .map(|a| match a {
                AddrKind::Addr(i) => format!("A{}", ion_p(i)),
                AddrKind::Isk(n) => format!("K{n}"),
                AddrKind::PIndex { sel, offset: None } => format!("I{sel}"),
                AddrKind::PIndex { sel, offset: Some(o) } => format!("I{sel}*{}", ion_p(o)),
            })
            .collect::<Vec<_>>()
            .join(",")
    };
    format!("{} {} {} {} {}", base_p(&r.base), addrs, ion_p(&r.length), r.am().s(), r.port)
}
pub fn fbits(f: f64) -> String {
    format!("{:016x}", f.to_bits())
}
fn fm_p(fm: &Fm, int: bool) -> String {
    let vars = if fm.vars.is_empty() { "-".into() } else { fm.vars.iter().map(|(n, i)| format!("{n}={i}")).collect::<Vec<_>>().join(";") };
    let consts = if fm.consts.is_empty() {
        "-".into()
    } else {
        fm.consts
            .iter()
            .map(|(n, c)| match c {
                Lit::I(i) => {
                    if int {
                        format!("{n}=i{i}")
                    } else {
                        format!("{n}=f{}", fbits(*i as f64))
                    }
                }
                Lit::F(f) => format!("{n}=f{}", fbits(*f)),
            })
            .collect::<Vec<_>>()
            .join(";")
    };
    let exprs = if fm.exprs.is_empty() { "-".into() } else { fm.exprs.iter().map(|(n, e)| format!("{n}={}", hex(e.as_bytes()))).collect::<Vec<_>>().join(";") };
    format!("{vars} {consts} {exprs}")
}

impl Graph {
    /// the graph + state definition lines of the model's protocol
    pub fn protocol(&self, prefix: &str) -> Vec<String> {
        let mut out = vec![format!("{prefix} begin {}", profile())];
        for (i, s) in self.slots.iter().enumerate() {
            out.push(match s {
                SlotInit::I(v) => format!("{prefix} slot {i} i {v}"),
                SlotInit::F(f) => format!("{prefix} slot {i} f {}", fbits(*f)),
                SlotInit::S(s) => format!("{prefix} slot {i} s {}", hex(s.as_bytes())),
            });
        }
        for (id, k) in self.nodes.iter().enumerate() {
            let body = match k {
                Kind::Integer { b, vk, min, max, inc, min_slot, max_slot } => format!(
                    "{} {} {} {} {}",
                    base_p(b),
                    vk_p(vk),
                    son_p(min.as_ref().unwrap_or(&Son::Slot(*min_slot))),
                    son_p(max.as_ref().unwrap_or(&Son::Slot(*max_slot))),
                    ion_p(inc.as_ref().unwrap_or(&Ion::Imm(1)))
                ),
                Kind::IntReg { r, signed, be } => format!("{} {} {}", reg_p(r), if *signed { "S" } else { "U" }, if *be { "BE" } else { "LE" }),
                Kind::MaskedIntReg { r, mask, signed, be } => format!(
                    "{} {} {} {}",
                    reg_p(r),
                    match mask {
                        Mask::Bit(b) => format!("B{b}"),
                        Mask::Range(l, h) => format!("R{l}:{h}"),
                    },
                    if *signed { "S" } else { "U" },
                    if *be { "BE" } else { "LE" }
                ),
                Kind::Boolean { b, value, on, off, .. } => format!("{} {} {on} {off}", base_p(b), son_p(value)),
                Kind::Command { b, value, cmd } => format!("{} {} {}", base_p(b), son_p(value), son_p(cmd)),
                Kind::Enumeration { b, entries, value } => format!("{} {} {}", base_p(b), list_p(entries), son_p(value)),
                Kind::EnumEntry { b, value, numeric, symbolic } => format!("{} {value} {} {symbolic}", base_p(b), numeric.map_or("-".into(), fbits)),
                Kind::Float { b, vk, min, max, inc, min_slot, max_slot } => format!(
                    "{} {} {} {} {}",
                    base_p(b),
                    vk_p(vk),
                    son_p(min.as_ref().unwrap_or(&Son::Slot(*min_slot))),
                    son_p(max.as_ref().unwrap_or(&Son::Slot(*max_slot))),
                    match inc {
                        None => "-".to_string(),
                        Some(IonF::Imm(f)) => format!("f{}", fbits(*f)),
                        Some(IonF::Node(n)) => format!("n{n}"),
                    }
                ),
                Kind::FloatReg { r, be } => format!("{} {}", reg_p(r), if *be { "BE" } else { "LE" }),
                Kind::Str { b, value } => format!("{} {}", base_p(b), son_p(value)),
                Kind::StringReg { r } | Kind::Register { r } => reg_p(r),
                Kind::Converter { b, fm, to, from, pvalue, int } => format!("{} {} {} {} {pvalue}", base_p(b), fm_p(fm, *int), hex(to.as_bytes()), hex(from.as_bytes())),
                Kind::SwissKnife { b, fm, formula, int, .. } => format!("{} {} {}", base_p(b), fm_p(fm, *int), hex(formula.as_bytes())),
                Kind::Port { b, chunk } => format!("{} {}", base_p(b), if *chunk { 1 } else { 0 }),
                Kind::Category { b, features } => format!("{} {}", base_p(b), list_p(features)),
                Kind::Node { b } => base_p(b),
            };
            out.push(format!("{prefix} node {id} {} {body}", k.tag()));
        }
        out.push(format!("{prefix} dev {} {} {}", hex(&self.mem), self.ro.0, self.ro.1));
        out
    }
}

// ───────────────────────────── device ─────────────────────────────

#[derive(Clone, Debug, PartialEq)]
pub enum Acc {
    R(i64, usize, bool),
    W(i64, Vec<u8>, bool),
}

pub struct Dev {
    pub mem: Vec<u8>,
    pub ro: (usize, usize),
    pub log: Vec<Acc>,
    pub rec: bool,
}

impl Dev {
    fn in_range(&self, a: i64, len: usize) -> bool {
        a >= 0 && (a as u128 + len as u128) <= self.mem.len() as u128
    }
}

impl Device for Dev {
    fn read_mem(&mut self, address: i64, buf: &mut [u8]) -> Result<(), Box<dyn std::error::Error + Send + Sync>> {
        let ok = self.in_range(address, buf.len());
        if self.rec {
            self.log.push(Acc::R(address, buf.len(), ok));
        }
        if !ok {
            return Err("read outside the device image".into());
        }
        let a = address as usize;
        buf.copy_from_slice(&self.mem[a..a + buf.len()]);
        Ok(())
    }
    fn write_mem(&mut self, address: i64, data: &[u8]) -> Result<(), Box<dyn std::error::Error + Send + Sync>> {
        let data = data.to_vec();
        let mut ok = self.in_range(address, data.len());
        if ok {
            let a = address as usize;
            if a < self.ro.1 && self.ro.0 < a + data.len() {
                ok = false;
            }
        }
        if self.rec {
            self.log.push(Acc::W(address, data.clone(), ok));
        }
        if !ok {
            return Err("write refused".into());
        }
        let a = address as usize;
        self.mem[a..a + data.len()].copy_from_slice(&data);
        Ok(())
    }
}

pub fn log_digest(log: &[Acc]) -> u64 {
    log_digest_from(FNV_INIT, log)
}

/// What of a call's device accesses is compared with the model: the WRITES in the order they were
/// issued (fan-out order and the partial effect of a failing write are clauses of C03), then - if
/// `keep_reads` - the READS as a sorted multiset (no clause fixes the order in which independent
/// sources - address elements, length, formula variables - are evaluated).  Reads are dropped for a
/// failing call (which sources were consulted before the failing one is not fixed either) and for
/// access queries (which controlling nodes a query consults before it can answer is not fixed by C18).
pub fn canon_accesses(keep_reads: bool, seg: &[Acc]) -> Vec<Acc> {
    let mut out: Vec<Acc> = seg.iter().filter(|a| matches!(a, Acc::W(..))).cloned().collect();
    if keep_reads {
        let mut reads: Vec<(i64, usize, bool)> = seg.iter().filter_map(|a| if let Acc::R(a, l, ok) = a { Some((*a, *l, *ok)) } else { None }).collect();
        reads.sort();
        out.extend(reads.into_iter().map(|(a, l, ok)| Acc::R(a, l, ok)));
    }
    out
}

/// running digest: continue `h` over further entries
pub fn log_digest_from(mut h: u64, log: &[Acc]) -> u64 {
    for a in log {
        match a {
            Acc::R(ad, l, ok) => {
                h = fnv_bytes(h, &[0]);
                h = fnv_u64(h, *ad as u64);
                h = fnv_u64(h, *l as u64);
                h = fnv_bytes(h, &[*ok as u8]);
            }
            Acc::W(ad, d, ok) => {
                h = fnv_bytes(h, &[1]);
                h = fnv_u64(h, *ad as u64);
                h = fnv_u64(h, d.len() as u64);
                h = fnv_bytes(h, &[*ok as u8]);
                h = fnv_bytes(h, d);
            }
        }
    }
    h
}

// ───────────────────────────── operations ─────────────────────────────

#[derive(Clone, Debug)]
pub enum Op {
    IntValue(usize),
    IntSet(usize, i64),
    IntMin(usize),
    IntMax(usize),
    IntInc(usize),
    IntSetMin(usize, i64),
    IntSetMax(usize, i64),
    FloatValue(usize),
    FloatSet(usize, f64),
    FloatMin(usize),
    FloatMax(usize),
    FloatInc(usize),
    FloatSetMin(usize, f64),
    FloatSetMax(usize, f64),
    StrValue(usize),
    StrSet(usize, String),
    StrMaxLength(usize),
    BoolValue(usize),
    BoolSet(usize, bool),
    EnumCurrentValue(usize),
    EnumCurrentEntry(usize),
    EnumSetByValue(usize, i64),
    EnumSetByName(usize, String),
    EnumEntries(usize),
    CmdExecute(usize),
    CmdIsDone(usize),
    RegRead(usize, usize),
    RegWrite(usize, Vec<u8>),
    RegAddress(usize),
    RegLength(usize),
    IsReadable(usize),
    IsWritable(usize),
    IsImplemented(usize),
    IsAvailable(usize),
    IsLocked(usize),
}

impl Op {
    pub fn line(&self) -> String {
        match self {
            Op::IntValue(n) => format!("iv {n}"),
            Op::IntSet(n, v) => format!("is {n} {v}"),
            Op::IntMin(n) => format!("imin {n}"),
            Op::IntMax(n) => format!("imax {n}"),
            Op::IntInc(n) => format!("iinc {n}"),
            Op::IntSetMin(n, v) => format!("ismin {n} {v}"),
            Op::IntSetMax(n, v) => format!("ismax {n} {v}"),
            Op::FloatValue(n) => format!("fv {n}"),
            Op::FloatSet(n, v) => format!("fs {n} {}", fbits(*v)),
            Op::FloatMin(n) => format!("fmin {n}"),
            Op::FloatMax(n) => format!("fmax {n}"),
            Op::FloatInc(n) => format!("finc {n}"),
            Op::FloatSetMin(n, v) => format!("fsmin {n} {}", fbits(*v)),
            Op::FloatSetMax(n, v) => format!("fsmax {n} {}", fbits(*v)),
            Op::StrValue(n) => format!("sv {n}"),
            Op::StrSet(n, s) => format!("ss {n} {}", hex(s.as_bytes())),
            Op::StrMaxLength(n) => format!("sml {n}"),
            Op::BoolValue(n) => format!("bv {n}"),
            Op::BoolSet(n, v) => format!("bs {n} {}", *v as u8),
            Op::EnumCurrentValue(n) => format!("ecv {n}"),
            Op::EnumCurrentEntry(n) => format!("ece {n}"),
            Op::EnumSetByValue(n, v) => format!("esv {n} {v}"),
            Op::EnumSetByName(n, s) => format!("esn {n} {s}"),
            Op::EnumEntries(n) => format!("een {n}"),
            Op::CmdExecute(n) => format!("cx {n}"),
            Op::CmdIsDone(n) => format!("cd {n}"),
            Op::RegRead(n, l) => format!("rr {n} {l}"),
            Op::RegWrite(n, d) => format!("rw {n} {}", hex(d)),
            Op::RegAddress(n) => format!("ra {n}"),
            Op::RegLength(n) => format!("rl {n}"),
            Op::IsReadable(n) => format!("rd {n}"),
            Op::IsWritable(n) => format!("wr {n}"),
            Op::IsImplemented(n) => format!("imp {n}"),
            Op::IsAvailable(n) => format!("av {n}"),
            Op::IsLocked(n) => format!("lk {n}"),
        }
    }
    pub fn node(&self) -> usize {
        match self {
            Op::IntValue(n) | Op::IntSet(n, _) | Op::IntMin(n) | Op::IntMax(n) | Op::IntInc(n) | Op::IntSetMin(n, _)
            | Op::IntSetMax(n, _) | Op::FloatValue(n) | Op::FloatSet(n, _) | Op::FloatMin(n) | Op::FloatMax(n)
            | Op::FloatInc(n) | Op::FloatSetMin(n, _) | Op::FloatSetMax(n, _) | Op::StrValue(n) | Op::StrSet(n, _)
            | Op::StrMaxLength(n) | Op::BoolValue(n) | Op::BoolSet(n, _) | Op::EnumCurrentValue(n)
            | Op::EnumCurrentEntry(n) | Op::EnumSetByValue(n, _) | Op::EnumSetByName(n, _) | Op::EnumEntries(n)
            | Op::CmdExecute(n) | Op::CmdIsDone(n) | Op::RegRead(n, _) | Op::RegWrite(n, _) | Op::RegAddress(n)
            | Op::RegLength(n) | Op::IsReadable(n) | Op::IsWritable(n) | Op::IsImplemented(n) | Op::IsAvailable(n)
            | Op::IsLocked(n) => *n,
        }
    }
    /// does a node of kind `k` offer the interface this call belongs to?  (otherwise the call answers
    /// `InvalidNode` by construction and exercises nothing)
    pub fn offered_by(&self, k: &Kind) -> bool {
        match self {
            Op::IntValue(_) | Op::IntSet(..) | Op::IntMin(_) | Op::IntMax(_) | Op::IntInc(_) | Op::IntSetMin(..) | Op::IntSetMax(..) => k.is_int(),
            Op::FloatValue(_) | Op::FloatSet(..) | Op::FloatMin(_) | Op::FloatMax(_) | Op::FloatInc(_) | Op::FloatSetMin(..) | Op::FloatSetMax(..) => k.is_float(),
            Op::StrValue(_) | Op::StrSet(..) | Op::StrMaxLength(_) => k.is_str(),
            Op::BoolValue(_) | Op::BoolSet(..) => k.is_bool(),
            Op::EnumCurrentValue(_) | Op::EnumCurrentEntry(_) | Op::EnumSetByValue(..) | Op::EnumSetByName(..) | Op::EnumEntries(_) => k.is_enum(),
            Op::CmdExecute(_) | Op::CmdIsDone(_) => matches!(k, Kind::Command { .. }),
            Op::RegRead(..) | Op::RegWrite(..) | Op::RegAddress(_) | Op::RegLength(_) => k.reg().is_some(),
            Op::IsReadable(_) => k.is_int() || k.is_float() || k.is_str() || k.is_bool() || k.is_enum(),
            Op::IsWritable(_) => k.is_int() || k.is_float() || k.is_str() || k.is_bool() || k.is_enum() || matches!(k, Kind::Command { .. }),
            Op::IsImplemented(_) | Op::IsAvailable(_) | Op::IsLocked(_) => matches!(k, Kind::EnumEntry { .. }),
        }
    }
    pub fn is_write(&self) -> bool {
        matches!(
            self,
            Op::IntSet(..) | Op::IntSetMin(..) | Op::IntSetMax(..) | Op::FloatSet(..) | Op::FloatSetMin(..) | Op::FloatSetMax(..)
                | Op::StrSet(..) | Op::BoolSet(..) | Op::EnumSetByValue(..) | Op::EnumSetByName(..) | Op::CmdExecute(..)
                | Op::RegWrite(..)
        )
    }
}

/// canonical answer of one operation
#[derive(Clone, Debug, PartialEq)]
pub enum Ans {
    Unit,
    Int(i64),
    Float(f64),
    Bool(bool),
    Str(String),
    Bytes(Vec<u8>),
    Node(usize),
    Nodes(Vec<usize>),
    None,
    Err(&'static str),
    Panic,
}

/// floats are compared by bit pattern, NaN payloads included (the model carries raw bits)
pub fn show_float(f: f64) -> String {
    format!("f:{}", fbits(f))
}

impl Ans {
    pub fn show(&self) -> String {
        match self {
            Ans::Unit => "ok".into(),
            Ans::Int(i) => format!("ok {i}"),
            Ans::Float(f) => format!("ok {}", show_float(*f)),
            Ans::Bool(b) => format!("ok {b}"),
            Ans::Str(s) => format!("ok s:{}", hex(s.as_bytes())),
            Ans::Bytes(b) => format!("ok b:{}", hex(b)),
            Ans::Node(n) => format!("ok n:{n}"),
            Ans::Nodes(ns) => format!("ok ns:{}", list_p(ns)),
            Ans::None => "ok none".into(),
            Ans::Err(e) => format!("err {e}"),
            Ans::Panic => "panic".into(),
        }
    }
    pub fn is_ok(&self) -> bool {
        !matches!(self, Ans::Err(_) | Ans::Panic)
    }
}

pub fn err_name(e: &GenApiError) -> &'static str {
    match e {
        GenApiError::Device(_) => "Device",
        GenApiError::NotWritable => "NotWritable",
        GenApiError::InvalidNode(_) => "InvalidNode",
        GenApiError::InvalidData(_) => "InvalidData",
        GenApiError::ChunkDataMissing => "ChunkDataMissing",
        GenApiError::InvalidBuffer(_) => "InvalidBuffer",
    }
}

pub type Cx = ValueCtxt<DefaultValueStore, CacheSink>;

/// the real implementation under test
pub struct Impl<C = CacheSink> {
    pub store: DefaultNodeStore,
    pub cx: ValueCtxt<DefaultValueStore, C>,
    pub dev: Dev,
    /// NodeId of every abstract id (entries included)
    pub ids: Vec<Option<NodeId>>,
}

fn r<T>(x: GenApiResult<T>, f: impl FnOnce(T) -> Ans) -> Ans {
    match x {
        Ok(v) => f(v),
        Err(e) => Ans::Err(err_name(&e)),
    }
}

fn ids_of(g: &Graph, store: &DefaultNodeStore) -> Vec<Option<NodeId>> {
    // entries are named `$<symbolic>_<k>` with k counting EnumEntry elements in document order
    let mut ids = vec![None; g.nodes.len()];
    let mut k = 0usize;
    for (id, n) in g.nodes.iter().enumerate() {
        match n {
            Kind::EnumEntry { .. } => {}
            Kind::Enumeration { entries, .. } => {
                ids[id] = store.id_by_name(name(id));
                for e in entries {
                    if let Kind::EnumEntry { symbolic, .. } = &g.nodes[*e] {
                        ids[*e] = store.id_by_name(format!("${symbolic}_{k}"));
                        k += 1;
                    }
                }
            }
            _ => ids[id] = store.id_by_name(name(id)),
        }
    }
    ids
}

impl Impl<CacheSink> {
    pub fn build(g: &Graph) -> Result<Impl, String> {
        let xml = g.xml();
        let built = catch(|| GenApiBuilder::<DefaultNodeStore>::default().no_cache().build(&xml));
        let (_, store, cx) = match built {
            Err(()) => return Err(format!("builder panicked on\n{xml}")),
            Ok(Err(e)) => return Err(format!("builder error {e} on\n{xml}")),
            Ok(Ok(x)) => x,
        };
        let ids = ids_of(g, &store);
        Ok(Impl { store, cx, dev: Dev { mem: g.mem.clone(), ro: g.ro, log: vec![], rec: true }, ids })
    }
}

impl Impl<DefaultCacheStore> {
    /// the same graph under the DEFAULT cache: every register gets a caching mode and declares the
    /// port(s) as `pInvalidator`, so that every device write drops every cached register content
    pub fn build_cached(g: &Graph) -> Result<Impl<DefaultCacheStore>, String> {
        g.cached_xml.set(true);
        let xml = g.xml();
        g.cached_xml.set(false);
        let built = catch(|| GenApiBuilder::<DefaultNodeStore>::default().build(&xml));
        let (_, store, cx) = match built {
            Err(()) => return Err(format!("builder (cached) panicked on\n{xml}")),
            Ok(Err(e)) => return Err(format!("builder (cached) error {e} on\n{xml}")),
            Ok(Ok(x)) => x,
        };
        let ids = ids_of(g, &store);
        Ok(Impl { store, cx, dev: Dev { mem: g.mem.clone(), ro: g.ro, log: vec![], rec: true }, ids })
    }
}

impl<C: cameleon_genapi::CacheStore> Impl<C> {
    pub fn abs_id(&self, nid: NodeId) -> usize {
        self.ids.iter().position(|x| *x == Some(nid)).unwrap_or(usize::MAX)
    }

    fn nid(&self, n: usize) -> Option<NodeId> {
        self.ids.get(n).cloned().flatten()
    }

    /// one interface call on the real node, through the crate's public API
    pub fn apply(&mut self, op: &Op) -> Ans {
        let Impl { store, cx, dev, ids } = self;
        let nid = match ids.get(op.node()).cloned().flatten() {
            Some(n) => n,
            None => return Ans::Err("InvalidNode"),
        };
        let res = catch(|| -> Ans {
            macro_rules! with {
                ($expect:ident, $k:ident => $body:expr) => {
                    match nid.$expect(&*store) {
                        Ok($k) => $body,
                        Err(e) => Ans::Err(err_name(&e)),
                    }
                };
            }
            match op {
                Op::IntValue(_) => with!(expect_iinteger_kind, k => r(k.value(dev, &*store, cx), Ans::Int)),
                Op::IntSet(_, v) => with!(expect_iinteger_kind, k => r(k.set_value(*v, dev, &*store, cx), |_| Ans::Unit)),
                Op::IntMin(_) => with!(expect_iinteger_kind, k => r(k.min(dev, &*store, cx), Ans::Int)),
                Op::IntMax(_) => with!(expect_iinteger_kind, k => r(k.max(dev, &*store, cx), Ans::Int)),
                Op::IntInc(_) => with!(expect_iinteger_kind, k => r(k.inc(dev, &*store, cx), |o| o.map_or(Ans::None, Ans::Int))),
                Op::IntSetMin(_, v) => with!(expect_iinteger_kind, k => r(k.set_min(*v, dev, &*store, cx), |_| Ans::Unit)),
                Op::IntSetMax(_, v) => with!(expect_iinteger_kind, k => r(k.set_max(*v, dev, &*store, cx), |_| Ans::Unit)),
                Op::FloatValue(_) => with!(expect_ifloat_kind, k => r(k.value(dev, &*store, cx), Ans::Float)),
                Op::FloatSet(_, v) => with!(expect_ifloat_kind, k => r(k.set_value(*v, dev, &*store, cx), |_| Ans::Unit)),
                Op::FloatMin(_) => with!(expect_ifloat_kind, k => r(k.min(dev, &*store, cx), Ans::Float)),
                Op::FloatMax(_) => with!(expect_ifloat_kind, k => r(k.max(dev, &*store, cx), Ans::Float)),
                Op::FloatInc(_) => with!(expect_ifloat_kind, k => r(k.inc(dev, &*store, cx), |o| o.map_or(Ans::None, Ans::Float))),
                Op::FloatSetMin(_, v) => with!(expect_ifloat_kind, k => r(k.set_min(*v, dev, &*store, cx), |_| Ans::Unit)),
                Op::FloatSetMax(_, v) => with!(expect_ifloat_kind, k => r(k.set_max(*v, dev, &*store, cx), |_| Ans::Unit)),
                Op::StrValue(_) => with!(expect_istring_kind, k => r(k.value(dev, &*store, cx), Ans::Str)),
                Op::StrSet(_, v) => with!(expect_istring_kind, k => r(k.set_value(v.clone(), dev, &*store, cx), |_| Ans::Unit)),
                Op::StrMaxLength(_) => with!(expect_istring_kind, k => r(k.max_length(dev, &*store, cx), Ans::Int)),
                Op::BoolValue(_) => with!(expect_iboolean_kind, k => r(k.value(dev, &*store, cx), Ans::Bool)),
                Op::BoolSet(_, v) => with!(expect_iboolean_kind, k => r(k.set_value(*v, dev, &*store, cx), |_| Ans::Unit)),
                Op::EnumCurrentValue(_) => with!(expect_ienumeration_kind, k => r(k.current_value(dev, &*store, cx), Ans::Int)),
                Op::EnumCurrentEntry(_) => with!(expect_ienumeration_kind, k => r(k.current_entry(dev, &*store, cx), |e| {
                    Ans::Node(ids.iter().position(|x| *x == Some(e)).unwrap_or(usize::MAX))
                })),
                Op::EnumSetByValue(_, v) => with!(expect_ienumeration_kind, k => r(k.set_entry_by_value(*v, dev, &*store, cx), |_| Ans::Unit)),
                Op::EnumSetByName(_, s) => with!(expect_ienumeration_kind, k => r(k.set_entry_by_symbolic(s, dev, &*store, cx), |_| Ans::Unit)),
                Op::EnumEntries(_) => with!(expect_ienumeration_kind, k => Ans::Nodes(
                    k.entries(&*store).iter().map(|e| ids.iter().position(|x| *x == Some(*e)).unwrap_or(usize::MAX)).collect())),
                Op::CmdExecute(_) => with!(expect_icommand_kind, k => r(k.execute(dev, &*store, cx), |_| Ans::Unit)),
                Op::CmdIsDone(_) => with!(expect_icommand_kind, k => r(k.is_done(dev, &*store, cx), Ans::Bool)),
                Op::RegRead(_, l) => with!(expect_iregister_kind, k => {
                    let mut buf = vec![0u8; *l];
                    r(k.read(&mut buf, dev, &*store, cx), |_| Ans::Bytes(buf.clone()))
                }),
                Op::RegWrite(_, d) => with!(expect_iregister_kind, k => r(k.write(d, dev, &*store, cx), |_| Ans::Unit)),
                Op::RegAddress(_) => with!(expect_iregister_kind, k => r(k.address(dev, &*store, cx), Ans::Int)),
                Op::RegLength(_) => with!(expect_iregister_kind, k => r(k.length(dev, &*store, cx), Ans::Int)),
                Op::IsReadable(_) => {
                    if let Some(k) = nid.as_iinteger_kind(&*store) {
                        r(k.is_readable(dev, &*store, cx), Ans::Bool)
                    } else if let Some(k) = nid.as_ifloat_kind(&*store) {
                        r(k.is_readable(dev, &*store, cx), Ans::Bool)
                    } else if let Some(k) = nid.as_istring_kind(&*store) {
                        r(k.is_readable(dev, &*store, cx), Ans::Bool)
                    } else if let Some(k) = nid.as_iboolean_kind(&*store) {
                        r(k.is_readable(dev, &*store, cx), Ans::Bool)
                    } else if let Some(k) = nid.as_ienumeration_kind(&*store) {
                        r(k.is_readable(dev, &*store, cx), Ans::Bool)
                    } else {
                        Ans::Err("InvalidNode")
                    }
                }
                Op::IsWritable(_) => {
                    if let Some(k) = nid.as_iinteger_kind(&*store) {
                        r(k.is_writable(dev, &*store, cx), Ans::Bool)
                    } else if let Some(k) = nid.as_ifloat_kind(&*store) {
                        r(k.is_writable(dev, &*store, cx), Ans::Bool)
                    } else if let Some(k) = nid.as_istring_kind(&*store) {
                        r(k.is_writable(dev, &*store, cx), Ans::Bool)
                    } else if let Some(k) = nid.as_iboolean_kind(&*store) {
                        r(k.is_writable(dev, &*store, cx), Ans::Bool)
                    } else if let Some(k) = nid.as_ienumeration_kind(&*store) {
                        r(k.is_writable(dev, &*store, cx), Ans::Bool)
                    } else if let Some(k) = nid.as_icommand_kind(&*store) {
                        r(k.is_writable(dev, &*store, cx), Ans::Bool)
                    } else {
                        Ans::Err("InvalidNode")
                    }
                }
                Op::IsImplemented(_) | Op::IsAvailable(_) | Op::IsLocked(_) => match nid.as_enum_entry(&*store) {
                    // public only on enum entries
                    Some(e) => match op {
                        Op::IsImplemented(_) => r(e.is_implemented(dev, &*store, cx), Ans::Bool),
                        Op::IsAvailable(_) => r(e.is_available(dev, &*store, cx), Ans::Bool),
                        _ => r(e.is_locked(dev, &*store, cx), Ans::Bool),
                    },
                    None => Ans::Err("NotAnEntry"),
                },
            }
        });
        res.unwrap_or(Ans::Panic)
    }

    /// the same call without recording (used by oracles; read-class calls only)
    pub fn probe(&mut self, op: &Op) -> Ans {
        debug_assert!(!op.is_write());
        let rec = self.dev.rec;
        self.dev.rec = false;
        let a = self.apply(op);
        self.dev.rec = rec;
        a
    }

    /// `IValue<i64> for NodeId::value`-like numeric reading used by oracles: integer → float → enumeration
    pub fn probe_num_as_int(&mut self, g: &Graph, n: usize) -> Option<i64> {
        if g.is_int(n) {
            if let Ans::Int(i) = self.probe(&Op::IntValue(n)) {
                return Some(i);
            }
        } else if g.is_float(n) {
            if let Ans::Float(f) = self.probe(&Op::FloatValue(n)) {
                return Some(f as i64);
            }
        } else if g.is_enum(n) {
            if let Ans::Int(i) = self.probe(&Op::EnumCurrentValue(n)) {
                return Some(i);
            }
        }
        None
    }
}

impl<C: cameleon_genapi::CacheStore> Impl<C> {
    /// `IValue<f64> for NodeId::value`-like reading: integer `as f64`, float, enumeration `as f64`
    pub fn probe_num_as_float(&mut self, g: &Graph, n: usize) -> Option<f64> {
        if g.is_int(n) {
            if let Ans::Int(i) = self.probe(&Op::IntValue(n)) {
                return Some(i as f64);
            }
        } else if g.is_float(n) {
            if let Ans::Float(f) = self.probe(&Op::FloatValue(n)) {
                return Some(f);
            }
        } else if g.is_enum(n) {
            if let Ans::Int(i) = self.probe(&Op::EnumCurrentValue(n)) {
                return Some(i as f64);
            }
        }
        None
    }
}

// ───────────────────────────── C18 oracle: Readable / Writable on the abstract graph ─────────────────────────────

/// The property statement evaluated on the abstract description; current values of
/// controlling nodes and selectors are obtained from the implementation through the public
/// value interface (not through any `is_*` method).
pub struct Access<'a> {
    pub g: &'a Graph,
}

impl<'a> Access<'a> {
    pub fn ctl(&self, im: &mut Impl, c: usize) -> Option<bool> {
        if self.g.is_bool(c) {
            match im.probe(&Op::BoolValue(c)) {
                Ans::Bool(b) => Some(b),
                _ => None,
            }
        } else if self.g.is_int(c) {
            match im.probe(&Op::IntValue(c)) {
                Ans::Int(i) => Some(i != 0), // GenApi: non-zero = true (independent of the code's bool_from_id)
                _ => None,
            }
        } else {
            None
        }
    }
    fn ctl_is(&self, im: &mut Impl, c: Option<usize>, want: bool) -> bool {
        match c {
            None => true,
            Some(c) => self.ctl(im, c) == Some(want),
        }
    }
    fn base_r(&self, im: &mut Impl, b: &Base) -> bool {
        self.ctl_is(im, b.imp, true) && self.ctl_is(im, b.avail, true) && b.iam() != AM::WO
    }
    fn base_w(&self, im: &mut Impl, b: &Base) -> bool {
        self.ctl_is(im, b.imp, true) && self.ctl_is(im, b.avail, true) && self.ctl_is(im, b.locked, false) && b.iam() != AM::RO
    }
    fn numeric_ref(&self, n: usize) -> bool {
        self.g.is_int(n) || self.g.is_float(n) || self.g.is_enum(n)
    }
    fn formula_ref(&self, n: usize) -> bool {
        self.numeric_ref(n) || self.g.is_bool(n)
    }
    fn son(&self, im: &mut Impl, v: &Son, write: bool, d: usize) -> bool {
        match v {
            Son::Slot(_) => true,
            Son::Node(p) => self.numeric_ref(*p) && self.acc(im, *p, write, d),
        }
    }
    fn select<'b>(entries: &'b [(i64, Son)], dflt: &'b Son, i: i64) -> &'b Son {
        entries.iter().find(|e| e.0 == i).map(|e| &e.1).unwrap_or(dflt)
    }
    fn sel_value(&self, im: &mut Impl, sel: usize) -> Option<i64> {
        if !self.g.is_int(sel) {
            return None;
        }
        match im.probe(&Op::IntValue(sel)) {
            Ans::Int(i) => Some(i),
            _ => None,
        }
    }
    fn vk(&self, im: &mut Impl, vk: &VK, write: bool, d: usize) -> bool {
        match vk {
            VK::Value(_) => true,
            VK::PValue { p, .. } => {
                if write {
                    self.numeric_ref(*p) && self.acc(im, *p, true, d) && vk.copies().iter().all(|c| self.numeric_ref(*c) && self.acc(im, *c, true, d))
                } else {
                    self.numeric_ref(*p) && self.acc(im, *p, false, d)
                }
            }
            VK::PIndex { sel, entries, dflt } => {
                self.g.is_int(*sel)
                    && self.acc(im, *sel, false, d)
                    && match self.sel_value(im, *sel) {
                        Some(i) => self.son(im, Self::select(entries, dflt, i), write, d),
                        None => false,
                    }
            }
        }
    }
    fn vars(&self, im: &mut Impl, fm: &Fm, d: usize) -> bool {
        fm.vars.iter().all(|(_, v)| self.formula_ref(*v) && self.acc(im, *v, false, d))
    }
    /// The error classes an access query of `n` may legitimately answer with: for everything the query
    /// may look at (controlling nodes, pIndex selector and branches, value sources / targets, formula
    /// variables, converter pValue - recursively) the class with which that ingredient fails:
    /// `InvalidNode` for a controlling node that is neither boolean nor integer kind or does not exist,
    /// a String pValue that is not a string node, a pIndex selector that is not integer kind, a formula
    /// variable / converter pValue that is not integer, float, boolean or enumeration kind; otherwise
    /// the class with which evaluating the controlling node / selector itself fails (e.g. `Device`,
    /// `InvalidBuffer`, `InvalidData`, `ChunkDataMissing`; `panic` when that evaluation panics, e.g. a
    /// controller register with a negative `<Length>`).  `*` = anything (reference depth exhausted).
    /// An error answer outside this set has no cause in the description.
    pub fn error_classes(&self, im: &mut Impl, n: usize, d: usize, out: &mut std::collections::BTreeSet<&'static str>) {
        if d == 0 {
            out.insert("*");
            return;
        }
        let d = d - 1;
        let k = match self.g.kind(n) {
            Some(k) => k,
            None => {
                out.insert("InvalidNode");
                return;
            }
        };
        let b = k.base();
        for c in [b.imp, b.avail, b.locked].into_iter().flatten() {
            let a = if self.g.is_bool(c) {
                im.probe(&Op::BoolValue(c))
            } else if self.g.is_int(c) {
                im.probe(&Op::IntValue(c))
            } else {
                Ans::Err("InvalidNode")
            };
            match a {
                Ans::Err(e) => {
                    out.insert(e);
                }
                Ans::Panic => {
                    out.insert("panic");
                }
                _ => {}
            }
        }
        let mut son = |s: &Self, im: &mut Impl, v: &Son, out: &mut std::collections::BTreeSet<&'static str>| {
            if let Son::Node(p) = v {
                if !s.numeric_ref(*p) {
                    out.insert("InvalidNode");
                }
                s.error_classes(im, *p, d, out)
            }
        };
        match k {
            Kind::Integer { vk, .. } | Kind::Float { vk, .. } => match vk {
                VK::Value(_) => {}
                VK::PValue { p, .. } => {
                    for t in std::iter::once(p).chain(vk.copies().iter()) {
                        if !self.numeric_ref(*t) {
                            out.insert("InvalidNode");
                        }
                        self.error_classes(im, *t, d, out);
                    }
                }
                VK::PIndex { sel, entries, dflt } => {
                    if !self.g.is_int(*sel) {
                        out.insert("InvalidNode");
                    } else {
                        match im.probe(&Op::IntValue(*sel)) {
                            Ans::Err(e) => {
                                out.insert(e);
                            }
                            Ans::Panic => {
                                out.insert("panic");
                            }
                            _ => {}
                        }
                    }
                    self.error_classes(im, *sel, d, out);
                    for e in entries {
                        son(self, im, &e.1, out);
                    }
                    son(self, im, dflt, out);
                }
            },
            Kind::Boolean { value, .. } | Kind::Enumeration { value, .. } | Kind::Command { value, .. } => son(self, im, value, out),
            Kind::Str { value, .. } => {
                if let Son::Node(p) = value {
                    if !self.g.is_str(*p) {
                        out.insert("InvalidNode");
                    }
                    self.error_classes(im, *p, d, out);
                }
            }
            Kind::Converter { fm, pvalue, .. } => {
                for v in std::iter::once(pvalue).chain(fm.vars.iter().map(|(_, v)| v)) {
                    if !self.formula_ref(*v) {
                        out.insert("InvalidNode");
                    }
                    self.error_classes(im, *v, d, out);
                }
            }
            Kind::SwissKnife { fm, .. } => {
                for (_, v) in &fm.vars {
                    if !self.formula_ref(*v) {
                        out.insert("InvalidNode");
                    }
                    self.error_classes(im, *v, d, out);
                }
            }
            _ => {}
        }
    }

    /// `Readable` (write = false) / `Writable` (write = true) with `d` reference levels left
    pub fn acc(&self, im: &mut Impl, n: usize, write: bool, d: usize) -> bool {
        if d == 0 {
            return false;
        }
        let d = d - 1;
        let k = match self.g.kind(n) {
            Some(k) => k,
            None => return false,
        };
        let base = |s: &Self, im: &mut Impl, b: &Base| if write { s.base_w(im, b) } else { s.base_r(im, b) };
        match k {
            Kind::Integer { b, vk, .. } | Kind::Float { b, vk, .. } => base(self, im, b) && self.vk(im, vk, write, d),
            Kind::IntReg { r, .. } | Kind::MaskedIntReg { r, .. } | Kind::FloatReg { r, .. } | Kind::StringReg { r } => {
                base(self, im, &r.base) && if write { r.am() != AM::RO } else { r.am() != AM::WO }
            }
            Kind::Boolean { b, value, .. } | Kind::Enumeration { b, value, .. } => base(self, im, b) && self.son(im, value, write, d),
            Kind::Command { b, value, .. } => write && base(self, im, b) && self.son(im, value, true, d),
            Kind::Str { b, value } => {
                base(self, im, b)
                    && match value {
                        Son::Slot(_) => true,
                        Son::Node(p) => self.g.is_str(*p) && self.acc(im, *p, write, d),
                    }
            }
            Kind::Converter { b, fm, pvalue, .. } => {
                base(self, im, b) && (self.formula_ref(*pvalue) && self.acc(im, *pvalue, write, d)) && self.vars(im, fm, d)
            }
            Kind::SwissKnife { b, fm, .. } => !write && base(self, im, b) && self.vars(im, fm, d),
            _ => false,
        }
    }
}

// ───────────────────────────── generator ─────────────────────────────

pub struct GenCfg {
    /// C18: more access restrictions, controllers and access queries
    pub access_bias: bool,
}

struct B<'a> {
    rng: &'a mut Rng,
    cfg: &'a GenCfg,
    nodes: Vec<Kind>,
    slots: Vec<SlotInit>,
    ghosts: Vec<usize>,
    port: usize,
    chunk_port: Option<usize>,
}

const SMALL: [i64; 8] = [0, 1, 2, 3, 1, 0, 4, 7];
const FLOATS: [f64; 14] = [0.0, 1.0, -2.5, 1e10, 3.75, 0.1, -0.0, 255.0, 2.0, 0.5, -1.0, 1e-3, 65536.0, 3.0];

impl<'a> B<'a> {
    fn slot(&mut self, s: SlotInit) -> usize {
        self.slots.push(s);
        self.slots.len() - 1
    }
    fn pool(&self, f: impl Fn(&Kind) -> bool) -> Vec<usize> {
        self.nodes.iter().enumerate().filter(|(_, k)| f(k)).map(|(i, _)| i).collect()
    }
    fn malformed(&mut self) -> bool {
        self.rng.chance(1, 40)
    }
    /// some earlier node of the wrong kind, or a name that is never defined
    fn wrong_ref(&mut self) -> usize {
        if self.rng.chance(1, 3) || self.nodes.is_empty() {
            let id = 900 + self.ghosts.len();
            self.ghosts.push(id);
            id
        } else {
            self.rng.below(self.nodes.len() as u64) as usize
        }
    }
    fn pick(&mut self, pool: &[usize]) -> Option<usize> {
        if pool.is_empty() {
            None
        } else {
            Some(*self.rng.pick(pool))
        }
    }
    fn numeric_ref(&mut self) -> Option<usize> {
        if self.malformed() {
            return Some(self.wrong_ref());
        }
        let p = self.pool(|k| k.is_int() || k.is_float() || k.is_enum());
        self.pick(&p)
    }
    fn int_ref(&mut self) -> Option<usize> {
        if self.malformed() {
            return Some(self.wrong_ref());
        }
        let p = self.pool(|k| k.is_int());
        self.pick(&p)
    }
    /// an integer node whose value is a small number (selectors, controllers, lengths)
    fn small_int_ref(&mut self) -> Option<usize> {
        if self.malformed() {
            return Some(self.wrong_ref());
        }
        let p = self.pool(|k| matches!(k, Kind::Integer { vk: VK::Value(_), .. }));
        if p.is_empty() || self.rng.chance(1, 6) {
            self.int_ref()
        } else {
            self.pick(&p)
        }
    }
    fn formula_ref(&mut self) -> Option<usize> {
        if self.malformed() {
            return Some(self.wrong_ref());
        }
        let p = self.pool(|k| k.is_int() || k.is_float() || k.is_enum() || k.is_bool());
        self.pick(&p)
    }
    fn ctl_ref(&mut self) -> Option<usize> {
        if self.rng.chance(1, 30) {
            return Some(self.wrong_ref());
        }
        // the form real device descriptions use: a mask expression over a register / integer
        // (`<pIsLocked>` -> IntSwissKnife `REG & 0x4`, or an IntConverter over it); weight 1/3
        if self.rng.chance(1, 3) {
            let src = self.pool(|k| matches!(k, Kind::Integer { .. } | Kind::IntReg { .. } | Kind::MaskedIntReg { .. }));
            if let Some(src) = self.pick(&src) {
                let f = self.rng.pick(&["(X & 4)", "(X & 1)", "((X & 2) = 2)", "(X > 1)", "((X >> 1) & 1)", "(X = 2 ? 1 : 0)", "(X & 0x6)", "(X % 3)"]).to_string();
                if self.rng.chance(2, 3) {
                    let fm = Fm { vars: vec![("X".to_string(), src)], consts: vec![], exprs: vec![] };
                    self.nodes.push(Kind::SwissKnife { b: Base::default(), fm, formula: f, int: true, embedded: false });
                } else {
                    // IntConverter: FormulaFrom over TO (= the value of pValue)
                    self.nodes.push(Kind::Converter { b: Base::default(), fm: Fm::default(), to: "FROM".to_string(), from: f.replace('X', "TO"), pvalue: src, int: true });
                }
                return Some(self.nodes.len() - 1);
            }
        }
        let p = self.pool(|k| k.is_bool() || matches!(k, Kind::Integer { .. } | Kind::IntReg { .. } | Kind::MaskedIntReg { .. }));
        self.pick(&p)
    }
    fn base(&mut self) -> Base {
        let (num, den) = if self.cfg.access_bias { (2, 5) } else { (1, 8) };
        let mut b = Base::default();
        if self.rng.chance(num, den) {
            b.imp = self.ctl_ref();
        }
        if self.rng.chance(num, den) {
            b.avail = self.ctl_ref();
        }
        if self.rng.chance(num, den) {
            b.locked = self.ctl_ref();
        }
        if self.rng.chance(if self.cfg.access_bias { 3 } else { 1 }, 5) {
            b.iam = Some(*self.rng.pick(&[AM::RO, AM::WO, AM::RW, AM::RW]));
        }
        b
    }
    fn small(&mut self) -> i64 {
        if self.rng.chance(1, 12) {
            self.rng.interesting_i64()
        } else {
            *self.rng.pick(&SMALL)
        }
    }
    fn float(&mut self) -> f64 {
        if self.rng.chance(1, 15) {
            *self.rng.pick(&[f64::MAX, f64::MIN, f64::INFINITY, f64::NEG_INFINITY, 1e300, 9.3e18, -9.3e18])
        } else {
            *self.rng.pick(&FLOATS)
        }
    }
    fn son_int(&mut self) -> Son {
        if self.rng.chance(1, 2) {
            let v = self.small();
            Son::Slot(self.slot(SlotInit::I(v)))
        } else {
            match self.numeric_ref() {
                Some(n) => Son::Node(n),
                None => {
                    let v = self.small();
                    Son::Slot(self.slot(SlotInit::I(v)))
                }
            }
        }
    }
    fn son_float(&mut self) -> Son {
        if self.rng.chance(1, 2) {
            let v = self.float();
            Son::Slot(self.slot(SlotInit::F(v)))
        } else {
            match self.numeric_ref() {
                Some(n) => Son::Node(n),
                None => {
                    let v = self.float();
                    Son::Slot(self.slot(SlotInit::F(v)))
                }
            }
        }
    }
    fn vk(&mut self, float: bool) -> VK {
        let c = self.rng.below(20);
        if c < 8 {
            let s = if float {
                let v = self.float();
                self.slot(SlotInit::F(v))
            } else {
                let v = self.small();
                self.slot(SlotInit::I(v))
            };
            return VK::Value(s);
        }
        if c < 15 {
            if let Some(p) = self.numeric_ref() {
                let n = self.rng.below(3);
                let mut before = vec![];
                let mut after = vec![];
                for _ in 0..n {
                    if let Some(c) = self.numeric_ref() {
                        if self.rng.bool() {
                            before.push(c)
                        } else {
                            after.push(c)
                        }
                    }
                }
                return VK::PValue { p, before, after };
            }
        }
        if let Some(sel) = self.small_int_ref() {
            let n = self.rng.below(4);
            let mut entries = vec![];
            for _ in 0..n {
                // mostly 0..3; sometimes the same residue shifted by 2^8 / 2^16 / 2^32 (an index that a
                // comparison in a narrower integer type would confuse with the small one)
                let idx = self.rng.below(4) as i64 + *self.rng.pick(&[0i64, 0, 0, 0, 0, 0, 0, 1 << 32, -(1 << 32), 1 << 16, 1 << 8, 1 << 32]);
                let v = if float { self.son_float() } else { self.son_int() };
                entries.push((idx, v));
            }
            let dflt = if float { self.son_float() } else { self.son_int() };
            return VK::PIndex { sel, entries, dflt };
        }
        let v = self.small();
        VK::Value(self.slot(if float { SlotInit::F(v as f64) } else { SlotInit::I(v) }))
    }

    fn static_addr_of(&self, n: usize) -> Option<i64> {
        let r = self.nodes.get(n)?.reg()?;
        match r.addrs.as_slice() {
            [AddrKind::Addr(Ion::Imm(a))] if (0..MEM_LEN as i64).contains(a) => Some(*a),
            _ => None,
        }
    }

    fn isk_embedded(&mut self) -> usize {
        let (fm, idents) = self.fm(true);
        let formula = gen_expr(self.rng, &idents, 2, true);
        let b = self.base();
        self.nodes.push(Kind::SwissKnife { b, fm, formula, int: true, embedded: true });
        self.nodes.len() - 1
    }

    fn regbase(&mut self, lens: &[i64], allow_node_len: bool) -> RegBase {
        let len_imm = *self.rng.pick(lens);
        let base = self.base();
        let mut addrs = vec![];
        let n = if self.rng.chance(1, 40) { 0 } else { 1 + self.rng.below(10) / 6 + self.rng.below(10) / 8 };
        for i in 0..n {
            let c = self.rng.below(10);
            if i == 0 && c < 7 {
                // sometimes the address of an existing register: aliased registers see each other's writes
                // (fan-out targets, controllers read through one register and written through another)
                let existing: Vec<i64> = (0..self.nodes.len()).filter_map(|n| self.static_addr_of(n)).collect();
                let a = if self.rng.chance(1, 25) {
                    self.rng.interesting_i64()
                } else if !existing.is_empty() && self.rng.chance(1, 4) {
                    *self.rng.pick(&existing)
                } else {
                    self.rng.below(120) as i64
                };
                addrs.push(AddrKind::Addr(Ion::Imm(a)));
            } else if c < 3 {
                addrs.push(AddrKind::Addr(Ion::Imm(self.rng.below(24) as i64)));
            } else if c < 5 {
                if let Some(p) = self.small_int_ref() {
                    addrs.push(AddrKind::Addr(Ion::Node(p)));
                }
            } else if c < 8 {
                if let Some(sel) = self.small_int_ref() {
                    let offset = match self.rng.below(6) {
                        0 => None,
                        1 => self.small_int_ref().map(Ion::Node),
                        2 => Some(Ion::Imm(self.rng.interesting_i64())),
                        _ => Some(Ion::Imm(*self.rng.pick(&[1, 2, 4, 8, 16]))),
                    };
                    addrs.push(AddrKind::PIndex { sel, offset });
                }
            } else {
                let k = self.isk_embedded();
                addrs.push(AddrKind::Isk(k));
            }
        }
        let length = if allow_node_len && self.rng.chance(1, 8) {
            if self.rng.chance(2, 3) {
                // pLength: a 1-byte unsigned IntReg on device memory — the length is a *current* value
                // (<= 255, so no allocation hazard) and changes whenever that byte is written
                let a = self.rng.below(MEM_LEN as u64) as i64;
                let r = RegBase { base: Base::default(), addrs: vec![AddrKind::Addr(Ion::Imm(a))], length: Ion::Imm(1), am: Some(AM::RW), port: self.port };
                self.nodes.push(Kind::IntReg { r, signed: false, be: false });
                Ion::Node(self.nodes.len() - 1)
            } else {
                // … or a constant IntSwissKnife (nothing can write it; covers negative and odd lengths)
                let formula = self.rng.pick(&["4", "8", "2", "1", "(2 + 2)", "3", "16", "(0 - 1)", "0", "(1 << 3)"]).to_string();
                self.nodes.push(Kind::SwissKnife { b: Base::default(), fm: Fm::default(), formula, int: true, embedded: false });
                Ion::Node(self.nodes.len() - 1)
            }
        } else if allow_node_len && self.rng.chance(1, 15) {
            Ion::Imm(*self.rng.pick(&[0, 3, 5, 16, 7]))
        } else if allow_node_len && self.rng.chance(1, 60) {
            Ion::Imm(-1)
        } else {
            Ion::Imm(len_imm)
        };
        let am = if self.rng.chance(1, 5) { None } else { Some(*self.rng.pick(&[AM::RO, AM::WO, AM::RW, AM::RW, AM::RW])) };
        let port = if self.rng.chance(1, 50) {
            self.wrong_ref()
        } else if self.chunk_port.is_some() && self.rng.chance(1, 20) {
            self.chunk_port.unwrap()
        } else {
            self.port
        };
        RegBase { base, addrs, length, am, port }
    }

    /// variables / constants / expressions of a formula node and the identifiers a formula may use
    fn fm(&mut self, int: bool) -> (Fm, Vec<String>) {
        let mut fm = Fm::default();
        let mut idents: Vec<String> = vec![];
        let nv = self.rng.below(5);
        for i in 0..nv {
            // sometimes the node of an earlier variable again (several accessors of one node: `G`, `G.Min`,
            // `G.Max`; several `.Enum.<entry>` of ONE enumeration, then with different entries)
            let again = if !fm.vars.is_empty() && self.rng.chance(1, 3) { Some(fm.vars[self.rng.below(fm.vars.len() as u64) as usize].1) } else { None };
            if let Some(v) = again.or_else(|| self.formula_ref()) {
                // names: mostly fresh, sometimes a duplicate of an earlier variable (the later binding
                // shadows), sometimes TO / FROM (shadowing what the converter inserts first)
                let base = match self.rng.below(10) {
                    0 if !fm.vars.is_empty() => fm.vars[self.rng.below(fm.vars.len() as u64) as usize].0.split('.').next().unwrap().to_string(),
                    1 => self.rng.pick(&["TO", "FROM"]).to_string(),
                    _ => ["A", "B", "C", "D", "F"][i as usize % 5].to_string(),
                };
                let k = self.nodes.get(v);
                let entry_syms: Vec<String> = match k {
                    Some(Kind::Enumeration { entries, .. }) => entries
                        .iter()
                        .filter_map(|e| match &self.nodes[*e] {
                            Kind::EnumEntry { symbolic, .. } => Some(symbolic.clone()),
                            _ => None,
                        })
                        .collect(),
                    _ => vec![],
                };
                let suffix: String = match self.rng.below(10) {
                    0 | 1 if k.map_or(false, |k| k.is_int() || k.is_float()) => self.rng.pick(&[".Min", ".Max", ".Inc"]).to_string(),
                    2 => ".Value".into(),
                    0..=5 if !entry_syms.is_empty() => {
                        // prefer an entry that no earlier `.Enum` variable of this enumeration names
                        let fresh: Vec<String> = entry_syms.iter().filter(|s| !fm.vars.iter().any(|(n, w)| *w == v && n.ends_with(&format!(".Enum.{s}")))).cloned().collect();
                        format!(".Enum.{}", self.rng.pick(if fresh.is_empty() { &entry_syms } else { &fresh }))
                    }
                    _ if again.is_some() && !entry_syms.is_empty() && self.rng.chance(1, 2) => format!(".Enum.{}", self.rng.pick(&entry_syms)),
                    6 if self.rng.chance(1, 5) => self.rng.pick(&[".Foo", ".Min.X", ".Enum.Nope", ".Max"]).to_string(),
                    _ => String::new(),
                };
                let n = format!("{base}{suffix}");
                idents.push(n.clone());
                fm.vars.push((n, v));
                // a second `.Enum.<other entry>` variable of the SAME enumeration (each must get its own
                // entry's value)
                if suffix.starts_with(".Enum.") && entry_syms.len() >= 2 && self.rng.chance(1, 2) {
                    let other: Vec<String> = entry_syms.iter().filter(|s| !suffix.ends_with(&format!(".{s}"))).cloned().collect();
                    if !other.is_empty() {
                        let n2 = format!("{}.Enum.{}", ["P", "Q", "R"][i as usize % 3], self.rng.pick(&other));
                        idents.push(n2.clone());
                        fm.vars.push((n2, v));
                    }
                }
            }
        }
        let plain = |idents: &Vec<String>| -> Vec<String> { idents.iter().filter(|n| !n.contains('.')).cloned().collect() };
        let nc = self.rng.below(3);
        for i in 0..nc {
            let pl = plain(&idents);
            let n = match self.rng.below(8) {
                0 | 1 if !pl.is_empty() => self.rng.pick(&pl).clone(), // shadows a variable / earlier constant
                2 if self.rng.chance(1, 2) => self.rng.pick(&["TO", "FROM"]).to_string(),
                _ => format!("K{i}"),
            };
            let c = if int || self.rng.bool() { Lit::I(self.small()) } else { Lit::F(self.float()) };
            let c = match c {
                Lit::F(f) if !f.is_finite() => Lit::F(1.5),
                c => c,
            };
            idents.push(n.clone());
            fm.consts.push((n, c));
        }
        let ne = self.rng.below(4);
        for i in 0..ne {
            let pl = plain(&idents);
            // an expression that re-uses an earlier identifier (variable, constant, expression, TO / FROM)
            // shadows it; its body is mostly literal-only, sometimes over the identifiers so far - its own
            // name included: an expression that (directly or through others) refers to itself is an
            // error (/repo f938a4f; before that fix the implementation recursed until the stack overflowed)
            if !pl.is_empty() && self.rng.chance(1, 3) {
                let n = if self.rng.chance(1, 4) { self.rng.pick(&["TO", "FROM"]).to_string() } else { self.rng.pick(&pl).clone() };
                let e = if self.rng.chance(1, 3) { gen_expr(self.rng, &idents, 1, int) } else { gen_expr(self.rng, &[], 1, int) };
                idents.push(n.clone());
                fm.exprs.push((n, e));
            } else {
                let n = format!("X{i}");
                let selfref = self.rng.chance(1, 12);
                let usable: Vec<String> = idents.iter().filter(|x| **x != n).cloned().chain(if selfref { Some(n.clone()) } else { None }).collect();
                let e = gen_expr(self.rng, &usable, 2, int);
                idents.push(n.clone());
                fm.exprs.push((n, e));
            }
        }
        (fm, idents)
    }

    fn add_controllers(&mut self) {
        let n = 1 + self.rng.below(3);
        for _ in 0..n {
            if self.rng.bool() {
                let v = *self.rng.pick(&[0i64, 1, 1, 1, 2]);
                let s = self.slot(SlotInit::I(v));
                let min_slot = self.slot(SlotInit::I(i64::MIN));
                let max_slot = self.slot(SlotInit::I(i64::MAX));
                self.nodes.push(Kind::Integer { b: Base::default(), vk: VK::Value(s), min: None, max: None, inc: None, min_slot, max_slot });
            } else {
                let init = self.rng.chance(2, 3);
                let s = self.slot(SlotInit::I(if init { 1 } else { 0 }));
                self.nodes.push(Kind::Boolean { b: Base::default(), value: Son::Slot(s), on: 1, off: 0, init });
            }
        }
    }

    fn add_node(&mut self) {
        let c = self.rng.below(100);
        match c {
            0..=13 => {
                let b = self.base();
                let vk = self.vk(false);
                let (min, min_slot) = match self.rng.below(4) {
                    0 => {
                        let v = self.small();
                        let s = self.slot(SlotInit::I(v));
                        (Some(Son::Slot(s)), usize::MAX)
                    }
                    1 => match self.int_ref() {
                        Some(n) => (Some(Son::Node(n)), usize::MAX),
                        None => (None, self.slot(SlotInit::I(i64::MIN))),
                    },
                    _ => (None, self.slot(SlotInit::I(i64::MIN))),
                };
                let (max, max_slot) = match self.rng.below(4) {
                    0 => {
                        let v = self.small();
                        let s = self.slot(SlotInit::I(v));
                        (Some(Son::Slot(s)), usize::MAX)
                    }
                    1 => match self.int_ref() {
                        Some(n) => (Some(Son::Node(n)), usize::MAX),
                        None => (None, self.slot(SlotInit::I(i64::MAX))),
                    },
                    _ => (None, self.slot(SlotInit::I(i64::MAX))),
                };
                let inc = match self.rng.below(4) {
                    0 => Some(Ion::Imm(self.small())),
                    1 => self.int_ref().map(Ion::Node),
                    _ => None,
                };
                self.nodes.push(Kind::Integer { b, vk, min, max, inc, min_slot, max_slot });
            }
            14..=25 => {
                let r = self.regbase(&[1, 2, 4, 8, 4, 2], true);
                self.nodes.push(Kind::IntReg { r, signed: self.rng.bool(), be: self.rng.bool() });
            }
            26..=33 => {
                let r = self.regbase(&[1, 2, 4, 8], false);
                let len = match r.length {
                    Ion::Imm(l) => l as u64,
                    _ => 4,
                };
                let bits = len * 8;
                let be = self.rng.bool();
                let (l, h) = if self.rng.chance(1, 10) && bits == 64 {
                    (0, 63)
                } else {
                    let hmax = (bits - 1).min(62);
                    let l = self.rng.below(hmax + 1);
                    let h = l + self.rng.below((hmax - l + 1).min(62));
                    (l, h)
                };
                let mask = if self.rng.chance(1, 6) {
                    // anything (also inverted / out-of-register / 63- and 64-bit wide fields): full `BitMask` domain
                    if self.rng.chance(1, 3) {
                        Mask::Bit(self.rng.below(70))
                    } else {
                        Mask::Range(self.rng.below(70), self.rng.below(70))
                    }
                } else if be {
                    if l == h && self.rng.bool() {
                        Mask::Bit(bits - 1 - l)
                    } else {
                        Mask::Range(bits - 1 - l, bits - 1 - h)
                    }
                } else if l == h && self.rng.bool() {
                    Mask::Bit(l)
                } else {
                    Mask::Range(l, h)
                };
                self.nodes.push(Kind::MaskedIntReg { r, mask, signed: self.rng.bool(), be });
            }
            34..=39 => {
                let b = self.base();
                let (on, off) = match self.rng.below(6) {
                    0 => (self.small(), self.small()),
                    1 => (0, 1),
                    _ => (1, 0),
                };
                let init = self.rng.bool();
                let value = if self.rng.bool() {
                    Son::Slot(self.slot(SlotInit::I(if init { on } else { off })))
                } else {
                    match self.numeric_ref() {
                        Some(n) => Son::Node(n),
                        None => Son::Slot(self.slot(SlotInit::I(if init { on } else { off }))),
                    }
                };
                self.nodes.push(Kind::Boolean { b, value, on, off, init });
            }
            40..=45 => {
                let b = self.base();
                let value = self.son_int();
                let cmd = self.son_int();
                self.nodes.push(Kind::Command { b, value, cmd });
            }
            46..=55 => {
                let n = 1 + self.rng.below(4);
                let mut entries = vec![];
                let mut vals = vec![];
                for i in 0..n {
                    let mut b = Base::default();
                    if self.rng.chance(1, 3) {
                        b = self.base();
                    }
                    let value = if self.rng.chance(1, 8) { self.rng.interesting_i64() } else { self.rng.below(6) as i64 };
                    vals.push(value);
                    let numeric = if self.rng.chance(1, 3) { Some(*self.rng.pick(&FLOATS)) } else { None };
                    let symbolic = if self.rng.chance(1, 10) { "E0".to_string() } else { format!("E{i}") };
                    self.nodes.push(Kind::EnumEntry { b, value, numeric, symbolic });
                    entries.push(self.nodes.len() - 1);
                }
                let b = self.base();
                let value = if self.rng.bool() {
                    let v = if self.rng.chance(5, 6) { *self.rng.pick(&vals) } else { self.small() };
                    Son::Slot(self.slot(SlotInit::I(v)))
                } else {
                    match self.numeric_ref() {
                        Some(n) => Son::Node(n),
                        None => Son::Slot(self.slot(SlotInit::I(vals[0]))),
                    }
                };
                self.nodes.push(Kind::Enumeration { b, entries, value });
            }
            56..=63 => {
                let b = self.base();
                let vk = self.vk(true);
                let (min, min_slot) = match self.rng.below(4) {
                    0 => {
                        let v = self.float();
                        (Some(Son::Slot(self.slot(SlotInit::F(v)))), usize::MAX)
                    }
                    1 => match self.numeric_ref() {
                        Some(n) => (Some(Son::Node(n)), usize::MAX),
                        None => (None, self.slot(SlotInit::F(f64::MIN))),
                    },
                    _ => (None, self.slot(SlotInit::F(f64::MIN))),
                };
                let (max, max_slot) = match self.rng.below(4) {
                    0 => {
                        let v = self.float();
                        (Some(Son::Slot(self.slot(SlotInit::F(v)))), usize::MAX)
                    }
                    1 => match self.numeric_ref() {
                        Some(n) => (Some(Son::Node(n)), usize::MAX),
                        None => (None, self.slot(SlotInit::F(f64::MAX))),
                    },
                    _ => (None, self.slot(SlotInit::F(f64::MAX))),
                };
                let inc = match self.rng.below(4) {
                    0 => Some(IonF::Imm(*self.rng.pick(&FLOATS))),
                    1 => self.numeric_ref().map(IonF::Node),
                    _ => None,
                };
                self.nodes.push(Kind::Float { b, vk, min, max, inc, min_slot, max_slot });
            }
            64..=70 => {
                let r = self.regbase(&[4, 8, 8, 4, 8], true);
                self.nodes.push(Kind::FloatReg { r, be: self.rng.bool() });
            }
            71..=74 => {
                let b = self.base();
                let strs = self.pool(|k| k.is_str());
                let value = if self.rng.bool() || strs.is_empty() {
                    let s = self.rng.pick(&["abc", "x", "Hello World", "a&b<c", "caf\u{e9}"]).to_string();
                    Son::Slot(self.slot(SlotInit::S(s)))
                } else if self.malformed() {
                    Son::Node(self.wrong_ref())
                } else {
                    Son::Node(*self.rng.pick(&strs))
                };
                self.nodes.push(Kind::Str { b, value });
            }
            75..=79 => {
                let r = self.regbase(&[1, 4, 6, 8, 12, 16], true);
                self.nodes.push(Kind::StringReg { r });
            }
            80..=82 => {
                let r = self.regbase(&[1, 2, 3, 4, 8, 12], true);
                self.nodes.push(Kind::Register { r });
            }
            83..=90 => {
                let int = self.rng.bool();
                let b = self.base();
                let (fm, idents) = self.fm(int);
                let mut ids_to = idents.clone();
                ids_to.push("FROM".into());
                ids_to.push("FROM".into());
                let mut ids_from = idents.clone();
                ids_from.push("TO".into());
                ids_from.push("TO".into());
                let to = gen_expr(self.rng, &ids_to, 2, int);
                let from = gen_expr(self.rng, &ids_from, 2, int);
                if let Some(pvalue) = self.formula_ref() {
                    self.nodes.push(Kind::Converter { b, fm, to, from, pvalue, int });
                }
            }
            91..=96 => {
                let int = self.rng.bool();
                let b = self.base();
                let (fm, idents) = self.fm(int);
                let formula = gen_expr(self.rng, &idents, 3, int);
                self.nodes.push(Kind::SwissKnife { b, fm, formula, int, embedded: false });
            }
            97 => {
                let b = self.base();
                let n = self.nodes.len() as u64;
                let features = (0..self.rng.below(3)).map(|_| self.rng.below(n) as usize).collect();
                self.nodes.push(Kind::Category { b, features });
            }
            _ => {
                let b = self.base();
                self.nodes.push(Kind::Node { b });
            }
        }
    }
}

const BINOPS: [&str; 19] = ["+", "-", "*", "/", "%", "&", "|", "^", "=", "<>", "<", "<=", ">", ">=", "&&", "||", "+", "-", "*"];
const FUNCS: [&str; 8] = ["ABS", "NEG", "SGN", "FLOOR", "CEIL", "ROUND", "TRUNC", "SQRT"];

/// fully parenthesised formula text over `idents`
pub fn gen_expr(rng: &mut Rng, idents: &[String], depth: u32, int: bool) -> String {
    if depth == 0 || rng.chance(1, 4) {
        if !idents.is_empty() && rng.chance(2, 3) {
            return rng.pick(idents).clone();
        }
        return match rng.below(6) {
            0 => format!("0x{:x}", rng.below(300)),
            1 if !int => rng.pick(&["2.5", "0.5", "10.0", ".25", "3.0", "100.125"]).to_string(),
            2 if rng.chance(1, 10) => rng.pick(&["Z", "PI", "E"]).to_string(),
            _ => rng.below(20).to_string(),
        };
    }
    match rng.below(12) {
        0 => format!("({} ? {} : {})", gen_expr(rng, idents, depth - 1, int), gen_expr(rng, idents, depth - 1, int), gen_expr(rng, idents, depth - 1, int)),
        1 => format!("{}({})", rng.pick(&FUNCS), gen_expr(rng, idents, depth - 1, int)),
        2 => format!("(-{})", gen_expr(rng, idents, depth - 1, int)),
        3 => format!("(~{})", gen_expr(rng, idents, depth - 1, int)),
        4 => format!("({} {} {})", gen_expr(rng, idents, depth - 1, int), rng.pick(&["<<", ">>"]), rng.below(70)),
        _ => format!("({} {} {})", gen_expr(rng, idents, depth - 1, int), rng.pick(&BINOPS), gen_expr(rng, idents, depth - 1, int)),
    }
}

pub const MEM_LEN: usize = 160;

pub fn gen_graph(rng: &mut Rng, cfg: &GenCfg) -> Graph {
    let mut mem = rng.bytes(MEM_LEN);
    let rng: &mut Rng = rng;
    // friendlier content: small numbers, ASCII text, a few floats
    for i in 0..MEM_LEN {
        match rng.below(10) {
            0..=2 => mem[i] = rng.below(4) as u8,
            3 => mem[i] = 0,
            4 => mem[i] = b'a' + rng.below(26) as u8,
            _ => {}
        }
    }
    for _ in 0..4 {
        let a = rng.below((MEM_LEN - 8) as u64) as usize;
        let f = *rng.pick(&FLOATS);
        let bytes = match rng.below(4) {
            0 => f.to_le_bytes().to_vec(),
            1 => f.to_be_bytes().to_vec(),
            2 => (f as f32).to_le_bytes().to_vec(),
            _ => (f as f32).to_be_bytes().to_vec(),
        };
        mem[a..a + bytes.len()].copy_from_slice(&bytes);
    }
    let ro = if rng.chance(1, 3) {
        let lo = rng.below(MEM_LEN as u64) as usize;
        (lo, lo + rng.below(24) as usize)
    } else {
        (0, 0)
    };
    let mut b = B { rng, cfg, nodes: vec![], slots: vec![], ghosts: vec![], port: 0, chunk_port: None };
    b.nodes.push(Kind::Port { b: Base::default(), chunk: false });
    if b.rng.chance(1, 8) {
        b.nodes.push(Kind::Port { b: Base::default(), chunk: true });
        b.chunk_port = Some(1);
    }
    b.add_controllers();
    let target = 4 + b.rng.below(9) as usize;
    let mut guard = 0;
    while b.nodes.iter().filter(|k| !matches!(k, Kind::EnumEntry { .. })).count() < target && guard < 60 {
        b.add_node();
        guard += 1;
    }
    let nodes = b.nodes;
    let slots = b.slots;
    let ghosts = b.ghosts;
    // bytes that serve as pLength mostly hold a plausible length
    for k in &nodes {
        if let Some(r) = k.reg() {
            if let Ion::Node(l) = r.length {
                if let Some(Kind::IntReg { r: lr, .. }) = nodes.get(l) {
                    if let Some(AddrKind::Addr(Ion::Imm(a))) = lr.addrs.first() {
                        if (0..MEM_LEN as i64).contains(a) && rng.chance(4, 5) {
                            mem[*a as usize] = *rng.pick(&[1u8, 2, 4, 8, 4, 8, 3, 0, 16, 200]);
                        }
                    }
                }
            }
        }
    }
    // NaNs with payloads (quiet and signalling, both signs) so that raw-bit transport is exercised
    if rng.chance(1, 3) {
        for _ in 0..3 {
            let a = rng.below((MEM_LEN - 8) as u64) as usize;
            let pat: u64 = *rng.pick(&[0x7ff0_0000_0000_1234u64, 0xfff4_0000_0000_5678, 0x7ff8_0000_0000_0000, 0xfff8_dead_beef_0001, 0x7ff0_0000_2000_0000]);
            let bytes = match rng.below(4) {
                0 => pat.to_le_bytes().to_vec(),
                1 => pat.to_be_bytes().to_vec(),
                2 => ((pat >> 32) as u32 | 0x0040_0001).to_le_bytes().to_vec(),
                _ => ((pat >> 32) as u32 | 0x0000_0100).to_be_bytes().to_vec(),
            };
            mem[a..a + bytes.len()].copy_from_slice(&bytes);
        }
    }
    Graph { nodes, slots, mem, ro, ghosts, cached_xml: std::cell::Cell::new(false) }
}

fn ion_static(i: &Ion) -> Option<i64> {
    match i {
        Ion::Imm(i) => Some(*i),
        _ => None,
    }
}

impl Graph {
    fn static_len(&self, n: usize) -> Option<i64> {
        self.kind(n).and_then(|k| k.reg()).and_then(|r| ion_static(&r.length))
    }
    /// address of a register whose address elements are all immediates
    fn static_addr(&self, n: usize) -> Option<i64> {
        let r = self.kind(n)?.reg()?;
        let mut a = 0i64;
        for k in &r.addrs {
            match k {
                AddrKind::Addr(Ion::Imm(i)) => a = a.checked_add(*i)?,
                _ => return None,
            }
        }
        Some(a)
    }
    fn entry_values(&self, n: usize) -> Vec<(usize, i64, String)> {
        match self.kind(n) {
            Some(Kind::Enumeration { entries, .. }) => entries
                .iter()
                .filter_map(|e| match &self.nodes[*e] {
                    Kind::EnumEntry { value, symbolic, .. } => Some((*e, *value, symbolic.clone())),
                    _ => None,
                })
                .collect(),
            _ => vec![],
        }
    }
}

pub fn gen_op(rng: &mut Rng, g: &Graph, cfg: &GenCfg) -> Op {
    let n = rng.below(g.nodes.len() as u64) as usize;
    let k = &g.nodes[n];
    let int_v = |rng: &mut Rng| if rng.chance(1, 6) { rng.interesting_i64() } else { *rng.pick(&SMALL) + rng.below(3) as i64 };
    let float_v = |rng: &mut Rng| {
        if rng.chance(1, 12) {
            *rng.pick(&[f64::MAX, f64::INFINITY, f64::NEG_INFINITY, f64::from_bits(0x7ff8_0000_0000_0000), f64::from_bits(0x7ff0_0000_0000_1234), f64::from_bits(0xfff4_0000_0000_5678), 1e300, 9.3e18, -9.3e18, 4e9])
        } else {
            *rng.pick(&FLOATS)
        }
    };
    let str_v = |rng: &mut Rng| rng.pick(&["", "a", "hello", "ab\0cd", "caf\u{e9}", "0123456789abcdefXYZ", "Q", "zz top"]).to_string();
    let access = |rng: &mut Rng, n: usize| if rng.bool() { Op::IsReadable(n) } else { Op::IsWritable(n) };
    let c = rng.below(100);
    if c < if cfg.access_bias { 40 } else { 10 } {
        return access(rng, n);
    }
    if c >= 95 {
        // any call on any node (wrong interface → InvalidNode)
        return match rng.below(16) {
            0 => Op::IntValue(n),
            1 => Op::IntSet(n, int_v(rng)),
            2 => Op::FloatValue(n),
            3 => Op::FloatSet(n, float_v(rng)),
            4 => Op::StrValue(n),
            5 => Op::StrSet(n, str_v(rng)),
            6 => Op::BoolValue(n),
            7 => Op::BoolSet(n, rng.bool()),
            8 => Op::EnumCurrentEntry(n),
            9 => Op::EnumSetByValue(n, int_v(rng)),
            10 => Op::CmdExecute(n),
            11 => Op::CmdIsDone(n),
            12 => Op::RegRead(n, 4),
            13 => Op::RegAddress(n),
            14 => Op::IsLocked(n),
            _ => Op::IntMin(n),
        };
    }
    // register interface of register kinds
    if let Some(r) = k.reg() {
        if rng.chance(1, 4) || matches!(k, Kind::Register { .. }) {
            let len = match r.length {
                Ion::Imm(l) if (0..64).contains(&l) && !rng.chance(1, 8) => l as usize,
                // dynamic length: guess from the initial image (often still right)
                Ion::Node(l) if rng.chance(2, 3) => match g.static_addr(l) {
                    Some(a) if (0..g.mem.len() as i64).contains(&a) => g.mem[a as usize] as usize,
                    _ => rng.below(10) as usize,
                },
                _ => rng.below(10) as usize,
            };
            return match rng.below(5) {
                0 => Op::RegAddress(n),
                1 => Op::RegLength(n),
                2 => Op::RegWrite(n, rng.bytes(len)),
                _ => Op::RegRead(n, len),
            };
        }
    }
    match k {
        _ if k.is_int() => match rng.below(12) {
            0 => Op::IntMin(n),
            1 => Op::IntMax(n),
            2 => Op::IntInc(n),
            3 if rng.chance(1, 2) => Op::IntSetMin(n, int_v(rng)),
            4 if rng.chance(1, 2) => Op::IntSetMax(n, int_v(rng)),
            5..=8 => Op::IntSet(n, int_v(rng)),
            _ => Op::IntValue(n),
        },
        _ if k.is_float() => match rng.below(12) {
            0 => Op::FloatMin(n),
            1 => Op::FloatMax(n),
            2 => Op::FloatInc(n),
            3 if rng.chance(1, 2) => Op::FloatSetMin(n, float_v(rng)),
            4 if rng.chance(1, 2) => Op::FloatSetMax(n, float_v(rng)),
            5..=8 => Op::FloatSet(n, float_v(rng)),
            _ => Op::FloatValue(n),
        },
        _ if k.is_str() => match rng.below(6) {
            0 => Op::StrMaxLength(n),
            1 | 2 => Op::StrSet(n, str_v(rng)),
            _ => Op::StrValue(n),
        },
        Kind::Boolean { .. } => match rng.below(3) {
            0 => Op::BoolSet(n, rng.bool()),
            _ => Op::BoolValue(n),
        },
        Kind::Enumeration { .. } => {
            let ev = g.entry_values(n);
            match rng.below(8) {
                0 => Op::EnumCurrentValue(n),
                1 => Op::EnumEntries(n),
                2 | 3 => {
                    let v = if !ev.is_empty() && rng.chance(3, 4) { rng.pick(&ev).1 } else { int_v(rng) };
                    Op::EnumSetByValue(n, v)
                }
                4 => {
                    let s = if !ev.is_empty() && rng.chance(3, 4) { rng.pick(&ev).2.clone() } else { "Nope".to_string() };
                    Op::EnumSetByName(n, s)
                }
                _ => Op::EnumCurrentEntry(n),
            }
        }
        Kind::EnumEntry { .. } => match rng.below(3) {
            0 => Op::IsImplemented(n),
            1 => Op::IsAvailable(n),
            _ => Op::IsLocked(n),
        },
        Kind::Command { .. } => match rng.below(3) {
            0 => Op::CmdIsDone(n),
            1 => Op::IsWritable(n),
            _ => Op::CmdExecute(n),
        },
        _ => access(rng, n),
    }
}

/// read-class calls that make the final state of every node observable
pub fn sweep(g: &Graph) -> Vec<Op> {
    let mut out = vec![];
    for (n, k) in g.nodes.iter().enumerate() {
        if k.is_int() {
            out.extend([Op::IntValue(n), Op::IntMin(n), Op::IntMax(n), Op::IntInc(n)]);
        } else if k.is_float() {
            out.extend([Op::FloatValue(n), Op::FloatMin(n), Op::FloatMax(n), Op::FloatInc(n)]);
        } else if k.is_str() {
            out.extend([Op::StrValue(n), Op::StrMaxLength(n)]);
        } else if k.is_bool() {
            out.push(Op::BoolValue(n));
        } else if k.is_enum() {
            out.extend([Op::EnumCurrentValue(n), Op::EnumCurrentEntry(n)]);
        } else if matches!(k, Kind::Command { .. }) {
            out.push(Op::CmdIsDone(n));
        }
        if k.reg().is_some() {
            out.extend([Op::RegAddress(n), Op::RegLength(n)]);
        }
        if !matches!(k, Kind::Port { .. } | Kind::Category { .. } | Kind::Node { .. } | Kind::EnumEntry { .. } | Kind::Register { .. }) {
            out.extend([Op::IsReadable(n), Op::IsWritable(n)]);
        }
    }
    out
}

// ───────────────────────────── C03 oracles ─────────────────────────────

/// The formula environment of a swiss knife / converter, built from the rule (not from the
/// code): `first` (TO of a converter read), then the variables in document order — each bound
/// to what its accessor names, read from the referenced node through the public interface —
/// then the constants, then the expressions; a later binding of a name replaces an earlier
/// one.  `None` when a referenced value cannot be obtained (then the node has no value either).
fn oracle_formula_env(g: &Graph, im: &mut Impl, fm: &Fm, int: bool, first: Option<(&str, usize)>, first_imm: Option<(&str, cameleon_genapi::formula::Expr)>) -> Option<HashMap<String, cameleon_genapi::formula::Expr>> {
    use cameleon_genapi::formula::{parse, Expr};
    fn plain(g: &Graph, im: &mut Impl, v: usize) -> Option<Expr> {
        if g.is_int(v) {
            match im.probe(&Op::IntValue(v)) {
                Ans::Int(i) => Some(Expr::from(i)),
                _ => None,
            }
        } else if g.is_float(v) {
            match im.probe(&Op::FloatValue(v)) {
                Ans::Float(f) => Some(Expr::from(f)),
                _ => None,
            }
        } else if g.is_bool(v) {
            match im.probe(&Op::BoolValue(v)) {
                Ans::Bool(b) => Some(Expr::from(if b { 1i64 } else { 0i64 })),
                _ => None,
            }
        } else if g.is_enum(v) {
            // the current entry's NumericValue (its Value when none is declared)
            match im.probe(&Op::EnumCurrentEntry(v)) {
                Ans::Node(e) => match g.kind(e) {
                    Some(Kind::EnumEntry { value, numeric, .. }) => Some(Expr::from(numeric.unwrap_or(*value as f64))),
                    _ => None,
                },
                _ => None,
            }
        } else {
            None
        }
    }
    let mut env: HashMap<String, Expr> = HashMap::new();
    if let Some((name, v)) = first {
        env.insert(name.to_string(), plain(g, im, v)?);
    }
    if let Some((name, e)) = first_imm {
        env.insert(name.to_string(), e);
    }
    for (name, v) in &fm.vars {
        let parts: Vec<&str> = name.splitn(3, '.').collect();
        let e = match parts.as_slice() {
            [_] | [_, "Value"] => plain(g, im, *v)?,
            [_, acc @ ("Min" | "Max" | "Inc")] => {
                let op = match (*acc, g.is_int(*v), g.is_float(*v)) {
                    ("Min", true, _) => Op::IntMin(*v),
                    ("Max", true, _) => Op::IntMax(*v),
                    ("Inc", true, _) => Op::IntInc(*v),
                    ("Min", _, true) => Op::FloatMin(*v),
                    ("Max", _, true) => Op::FloatMax(*v),
                    ("Inc", _, true) => Op::FloatInc(*v),
                    _ => return None,
                };
                match im.probe(&op) {
                    Ans::Int(i) => Expr::from(i),
                    Ans::Float(f) => Expr::from(f),
                    _ => return None,
                }
            }
            [_, "Enum", sym] => {
                if !g.is_enum(*v) {
                    return None;
                }
                let ev = g.entry_values(*v);
                Expr::from(ev.iter().find(|e| e.2 == *sym)?.1)
            }
            _ => return None,
        };
        env.insert(name.clone(), e);
    }
    for (name, c) in &fm.consts {
        env.insert(
            name.clone(),
            // the constants of a float swiss knife / converter are floats, those of an integer one integers
            match c {
                Lit::I(i) if int => Expr::from(*i),
                Lit::I(i) => Expr::from(*i as f64),
                Lit::F(f) => Expr::from(*f),
            },
        );
    }
    for (name, txt) in &fm.exprs {
        let e = std::panic::catch_unwind(|| parse(txt)).ok()?;
        env.insert(name.clone(), e);
    }
    Some(env)
}

/// result of FormulaTo in the three conversions `set_eval_result` may apply
#[derive(Clone, Copy, Debug)]
pub struct EvalOut {
    pub as_int: i64,
    pub as_float: f64,
    /// GenApi: a boolean target receives `true` exactly when the result is non-zero (a non-zero
    /// fraction such as 0.5 included)
    pub non_zero: bool,
}

fn oracle_formula_eval_raw(formula: &str, env: &HashMap<String, cameleon_genapi::formula::Expr>) -> Option<EvalOut> {
    use cameleon_genapi::formula::{parse, EvaluationResult};
    let r = std::panic::catch_unwind(std::panic::AssertUnwindSafe(|| parse(formula).eval(env))).ok()?.ok()?;
    let non_zero = match r {
        EvaluationResult::Integer(i) => i != 0,
        EvaluationResult::Float(f) => f != 0.0,
    };
    Some(EvalOut { as_int: r.as_integer(), as_float: r.as_float(), non_zero })
}

/// evaluates `formula` in `env` with the implementation's own evaluator (the evaluator is C05's
/// subject; what is checked here is which environment the node hands to it)
fn oracle_formula_eval(formula: &str, env: &HashMap<String, cameleon_genapi::formula::Expr>, int: bool) -> Option<Ans> {
    use cameleon_genapi::formula::parse;
    let r = std::panic::catch_unwind(std::panic::AssertUnwindSafe(|| parse(formula).eval(env))).ok()?.ok()?;
    Some(if int { Ans::Int(r.as_integer()) } else { Ans::Float(r.as_float()) })
}


/// DOUBT (C03/B3, open): what a `<pIndex>` WITHOUT `Offset` / `pOffset` contributes to a register
/// address.  The code (elem_type.rs) adds index x 1, and model, reference semantics and this oracle
/// transcribe that.  An independent recollection says GenApi uses the register's Length as the default
/// offset (register arrays).  The standard text is not available offline.  Flip here (and
/// `pIndexDefaultOffset` in Spec/GenApiSem.lean) to certify the other reading; every run counts the
/// register evaluations on which the two readings differ (`pindex-default-offset:*`).
#[derive(Clone, Copy, PartialEq)]
pub enum PIndexDefaultOffset {
    One,
    RegisterLength,
}
pub const PINDEX_DEFAULT_OFFSET: PIndexDefaultOffset = PIndexDefaultOffset::One;

pub struct OracleAddr {
    /// the address by the sum rule (None: an element has no value, or i64 is left somewhere - then
    /// the code overflows and the rule is not checked)
    pub addr: Option<i64>,
    /// an address element has no value
    pub unknown: bool,
    /// the same sum with the OTHER reading of the default pIndex offset (None as above)
    pub addr_other_default: Option<i64>,
    /// there is a pIndex element without Offset / pOffset
    pub has_default_offset: bool,
}

/// register length from Length / pLength (through the public value interface of the referenced node)
pub fn oracle_length(g: &Graph, im: &mut Impl, r: &RegBase) -> Option<i64> {
    match &r.length {
        Ion::Imm(i) => Some(*i),
        Ion::Node(p) => im.probe_num_as_int(g, *p),
    }
}

/// register address = sum of the address elements: Address, pAddress, embedded IntSwissKnife,
/// pIndex x Offset / pOffset (default: see `PINDEX_DEFAULT_OFFSET`)
pub fn oracle_address(g: &Graph, im: &mut Impl, r: &RegBase) -> OracleAddr {
    let len = oracle_length(g, im, r);
    let mut res = OracleAddr { addr: None, unknown: false, addr_other_default: None, has_default_offset: false };
    let mut sums: [Option<i64>; 2] = [Some(0), Some(0)]; // [chosen default, other default]
    for a in &r.addrs {
        // value of the element under both readings
        let v: Option<[i128; 2]> = match a {
            AddrKind::Addr(Ion::Imm(i)) => Some([*i as i128; 2]),
            AddrKind::Addr(Ion::Node(p)) => im.probe_num_as_int(g, *p).map(|x| [x as i128; 2]),
            AddrKind::Isk(s) => im.probe_num_as_int(g, *s).map(|x| [x as i128; 2]),
            AddrKind::PIndex { sel, offset } => {
                let b = im.probe_num_as_int(g, *sel).map(|x| x as i128);
                let o: Option<[i128; 2]> = match offset {
                    None => {
                        res.has_default_offset = true;
                        let one = Some(1i128);
                        let l = len.map(|l| l as i128);
                        match PINDEX_DEFAULT_OFFSET {
                            PIndexDefaultOffset::One => one.map(|o| [o, l.unwrap_or(o)]),
                            PIndexDefaultOffset::RegisterLength => l.map(|l| [l, 1]),
                        }
                    }
                    Some(Ion::Imm(i)) => Some([*i as i128; 2]),
                    Some(Ion::Node(p)) => im.probe_num_as_int(g, *p).map(|x| [x as i128; 2]),
                };
                // both factors are i64 values, so the products fit i128
                match (b, o) {
                    (Some(b), Some(o)) => Some([b * o[0], b * o[1]]),
                    _ => None,
                }
            }
        };
        match v {
            None => {
                res.unknown = true;
                sums = [None, None];
            }
            Some(v) => {
                for i in 0..2 {
                    // leaving i64 anywhere (product or running sum): the code overflows, rule not checked
                    sums[i] = sums[i].and_then(|s| i64::try_from(v[i]).ok().and_then(|x| s.checked_add(x)));
                }
            }
        }
    }
    if !res.unknown {
        res.addr = sums[0];
        res.addr_other_default = sums[1];
    }
    res
}

/// what an integer written to a faithful store reads back as: itself, except that an IntReg keeps
/// only its length's worth of low-order bytes (the codec truncates, C01) and re-interprets the sign
fn readback_int(g: &Graph, n: usize, v: i64) -> Option<i64> {
    match g.kind(n) {
        Some(Kind::IntReg { signed, be, .. }) => {
            let l = usize::try_from(g.static_len(n)?).ok()?;
            decode_int(&encode_int(v, l, *be)?, *be, *signed)
        }
        _ => Some(v),
    }
}

fn decode_int(bytes: &[u8], be: bool, signed: bool) -> Option<i64> {
    if bytes.is_empty() || bytes.len() > 8 {
        return None;
    }
    let mut v: u64 = 0;
    let it: Box<dyn Iterator<Item = &u8>> = if be { Box::new(bytes.iter()) } else { Box::new(bytes.iter().rev()) };
    for b in it {
        v = (v << 8) | *b as u64;
    }
    let bits = 8 * bytes.len() as u32;
    Some(if signed && bits < 64 && (v >> (bits - 1)) & 1 == 1 { (v | (!0u64 << bits)) as i64 } else { v as i64 })
}

fn encode_int(v: i64, len: usize, be: bool) -> Option<Vec<u8>> {
    if len == 0 || len > 8 {
        return None;
    }
    let le = v.to_le_bytes();
    let mut out: Vec<u8> = le[..len].to_vec();
    if be {
        out.reverse();
    }
    Some(out)
}

/// a node whose value, once written successfully, reads back as written (used by the oracles that
/// check WHERE a value went by reading the target back): value-store backed Integer / Float, IntReg /
/// FloatReg with immediate address and length, Boolean with distinct On / Off over such a target,
/// Enumeration over a value-store slot
fn faithful_store(g: &Graph, n: usize, d: usize) -> bool {
    if d == 0 {
        return false;
    }
    // (registers are excluded below a Boolean: an On / Off value that does not fit the register is
    // truncated by the codec, C01, and then reads back as neither)
    let son = |v: &Son| match v {
        Son::Slot(_) => true,
        Son::Node(p) => matches!(g.kind(*p), Some(Kind::Integer { vk: VK::Value(_), .. })),
    };
    let _ = d;
    match g.kind(n) {
        Some(Kind::Integer { vk: VK::Value(_), .. }) | Some(Kind::Float { vk: VK::Value(_), .. }) => true,
        Some(Kind::IntReg { .. }) => g.static_addr(n).is_some() && g.static_len(n).is_some(),
        Some(Kind::FloatReg { .. }) => g.static_addr(n).is_some() && g.static_len(n) == Some(8),
        Some(Kind::Boolean { value, on, off, .. }) => on != off && son(value),
        Some(Kind::Enumeration { value: Son::Slot(_), .. }) => true,
        _ => false,
    }
}

/// Independent checks of the dataflow rules on the implementation's answers.  Everything is
/// computed from the abstract description and from the *values of the referenced nodes*
/// (obtained through the public value interface with recording off), never from the node
/// under test itself.  Returns (oracle name, description) on a violation.
pub fn c03_oracles(g: &Graph, im: &mut Impl, op: &Op, ans: &Ans, log_before: usize, pre: &PreState, rep: &mut Report) -> Option<(String, String)> {
    // self-test of the panic discipline: CAMHARNESS_TEST_ORACLE_PANIC=1 makes this oracle panic on every
    // `address` call; the run must still finish, report HARNESS-BUG:oracle-panicked@<file:line> and no verdict
    static SELF_TEST: std::sync::OnceLock<bool> = std::sync::OnceLock::new();
    if *SELF_TEST.get_or_init(|| std::env::var_os("CAMHARNESS_TEST_ORACLE_PANIC").is_some()) && matches!(op, Op::RegAddress(_)) {
        panic!("self-test: oracle panic");
    }
    let seg: Vec<Acc> = im.dev.log[log_before..].to_vec();
    let writes: Vec<&Acc> = seg.iter().filter(|a| matches!(a, Acc::W(..))).collect();
    let n = op.node();
    let k = g.kind(n)?;
    match (op, k) {
        // ── pValueCopy fan-out ──
        (Op::IntSet(_, _), Kind::Integer { vk: vk @ VK::PValue { p, .. }, .. }) | (Op::FloatSet(_, _), Kind::Float { vk: vk @ VK::PValue { p, .. }, .. }) => {
            let mut targets = vec![*p];
            targets.extend(vk.copies());
            // only targets whose effect is a single device write at a static address, or a value-store slot
            let mut expect: Vec<Option<i64>> = vec![];
            for t in &targets {
                match g.kind(*t) {
                    Some(Kind::IntReg { .. }) | Some(Kind::FloatReg { .. }) => match (g.static_addr(*t), g.static_len(*t)) {
                        (Some(a), Some(_)) => expect.push(Some(a)),
                        _ => return None,
                    },
                    Some(Kind::Integer { vk: VK::Value(_), .. }) | Some(Kind::Float { vk: VK::Value(_), .. }) => expect.push(None),
                    _ => return None,
                }
            }
            rep.count("oracle:fanout");
            let exp_addrs: Vec<i64> = expect.iter().flatten().cloned().collect();
            let got: Vec<(i64, bool)> = writes.iter().map(|a| if let Acc::W(a, _, ok) = a { (*a, *ok) } else { unreachable!() }).collect();
            if ans.is_ok() {
                if got.iter().map(|x| x.0).collect::<Vec<_>>() != exp_addrs || got.iter().any(|x| !x.1) {
                    return Some(("fanout".into(), format!("successful write must reach pValue then every pValueCopy in order: expected writes at {exp_addrs:?}, device saw {got:?}")));
                }
                // slot targets hold the value
                for (t, e) in targets.iter().zip(expect.iter()) {
                    if e.is_none() {
                        let want: Option<Ans> = match (op, g.kind(*t)) {
                            (Op::IntSet(_, v), Some(Kind::Integer { .. })) => Some(Ans::Int(*v)),
                            (Op::IntSet(_, v), Some(Kind::Float { .. })) => Some(Ans::Float(*v as f64)),
                            (Op::FloatSet(_, v), Some(Kind::Float { .. })) => Some(Ans::Float(*v)),
                            (Op::FloatSet(_, v), Some(Kind::Integer { .. })) => Some(Ans::Int(*v as i64)),
                            _ => None,
                        };
                        let got = if g.is_int(*t) { im.probe(&Op::IntValue(*t)) } else { im.probe(&Op::FloatValue(*t)) };
                        if let Some(w) = want {
                            if w.show() != got.show() {
                                return Some(("fanout".into(), format!("target N{t} holds {} after the write, expected {}", got.show(), w.show())));
                            }
                        }
                    }
                }
            } else if matches!(ans, Ans::Err(_)) {
                // first error stops the rest: the device saw a prefix, at most the last one refused
                let okc = got.iter().filter(|x| x.1).count();
                let prefix_ok = got.len() <= exp_addrs.len() && got.iter().map(|x| x.0).collect::<Vec<_>>() == exp_addrs[..got.len()].to_vec();
                let only_last_failed = got.iter().take(got.len().saturating_sub(1)).all(|x| x.1);
                if !prefix_ok || !only_last_failed || okc == exp_addrs.len() && !exp_addrs.is_empty() && expect.iter().all(|e| e.is_some()) {
                    return Some(("fanout".into(), format!("failed write must stop at the first failing target: expected a prefix of {exp_addrs:?}, device saw {got:?}")));
                }
            }
            None
        }
        // ── converter write: pValue receives FormulaTo(FROM = written value), converted to the target's
        //    kind: integer target <- integer conversion, float target <- float, boolean target <- "non-zero",
        //    enumeration target <- entry with that integer value ──
        (Op::IntSet(..) | Op::FloatSet(..), Kind::Converter { pvalue, .. }) if *ans == Ans::Unit => {
            if let Some(e) = pre.conv_to {
                if faithful_store(g, *pvalue, 4) {
                    let (want, got): (Ans, Ans) = if g.is_int(*pvalue) {
                        (Ans::Int(readback_int(g, *pvalue, e.as_int)?), im.probe(&Op::IntValue(*pvalue)))
                    } else if g.is_float(*pvalue) {
                        (Ans::Float(e.as_float), im.probe(&Op::FloatValue(*pvalue)))
                    } else if g.is_bool(*pvalue) {
                        (Ans::Bool(e.non_zero), im.probe(&Op::BoolValue(*pvalue)))
                    } else if g.is_enum(*pvalue) {
                        (Ans::Int(e.as_int), im.probe(&Op::EnumCurrentValue(*pvalue)))
                    } else {
                        return None;
                    };
                    rep.count(&format!("oracle:converter-write->{}", g.kind(*pvalue).map_or("?", |k| k.tag())));
                    if want.show() != got.show() {
                        return Some((
                            "converter-write".into(),
                            format!("FormulaTo evaluates to {e:?}; the pValue target N{pvalue} must then hold {}, it holds {}", want.show(), got.show()),
                        ));
                    }
                }
            }
            None
        }
        // ── pMin / pMax / pInc: the limit is the current value of the referenced node ──
        (Op::IntMin(_) | Op::IntMax(_) | Op::IntInc(_), Kind::Integer { min, max, inc, .. }) if matches!(ans, Ans::Int(_)) => {
            let src: Option<usize> = match op {
                Op::IntMin(_) => if let Some(Son::Node(p)) = min { Some(*p) } else { None },
                Op::IntMax(_) => if let Some(Son::Node(p)) = max { Some(*p) } else { None },
                _ => if let Some(Ion::Node(p)) = inc { Some(*p) } else { None },
            };
            if let (Some(p), Ans::Int(v)) = (src, ans) {
                if let Some(e) = im.probe_num_as_int(g, p) {
                    rep.count("oracle:pmin-pmax-pinc");
                    if e != *v {
                        return Some(("limits".into(), format!("`{}` = {v} but the referenced node N{p} reads {e}", op.line())));
                    }
                }
            }
            None
        }
        (Op::FloatMin(_) | Op::FloatMax(_) | Op::FloatInc(_), Kind::Float { min, max, inc, .. }) if matches!(ans, Ans::Float(_)) => {
            let src: Option<usize> = match op {
                Op::FloatMin(_) => if let Some(Son::Node(p)) = min { Some(*p) } else { None },
                Op::FloatMax(_) => if let Some(Son::Node(p)) = max { Some(*p) } else { None },
                _ => if let Some(IonF::Node(p)) = inc { Some(*p) } else { None },
            };
            if let (Some(p), Ans::Float(v)) = (src, ans) {
                if let Some(e) = im.probe_num_as_float(g, p) {
                    rep.count("oracle:pmin-pmax-pinc-float");
                    if e.to_bits() != v.to_bits() {
                        return Some(("limits".into(), format!("`{}` = {v:?} but the referenced node N{p} reads {e:?}", op.line())));
                    }
                }
            }
            None
        }
        // ── Float pIndex write: the value goes to the selected branch (and nowhere else) ──
        (Op::FloatSet(_, v), Kind::Float { vk: VK::PIndex { sel, entries, dflt }, .. }) => {
            if ans.is_ok() {
                if let (true, Ans::Int(i)) = (g.is_int(*sel), im.probe(&Op::IntValue(*sel))) {
                    if Some(i) == pre.sel_value {
                        match Access::select(entries, dflt, i) {
                            Son::Slot(_) => {
                                rep.count("oracle:pindex-write-float");
                                let back = im.probe(&Op::FloatValue(n));
                                if back.show() != Ans::Float(*v).show() {
                                    return Some(("pindex".into(), format!("wrote {v:?} through the selected slot (selector {i}) but read back {}", back.show())));
                                }
                                if !writes.is_empty() {
                                    return Some(("pindex".into(), "write to a value-store branch touched the device".into()));
                                }
                            }
                            Son::Node(p) if faithful_store(g, *p, 4) && !matches!(g.kind(*p), Some(Kind::Boolean { .. } | Kind::Enumeration { .. })) => {
                                rep.count("oracle:pindex-write-float");
                                let (want, got) = if g.is_int(*p) { (Ans::Int(readback_int(g, *p, *v as i64)?), im.probe(&Op::IntValue(*p))) } else { (Ans::Float(*v), im.probe(&Op::FloatValue(*p))) };
                                if want.show() != got.show() {
                                    return Some(("pindex".into(), format!("selector = {i}: wrote {v:?}, the selected branch N{p} must hold {}, it holds {}", want.show(), got.show())));
                                }
                            }
                            _ => {}
                        }
                    }
                }
            }
            None
        }
        // ── typed register access: the bytes of the value are exactly the register's length at the
        //    address given by the sum rule ──
        (Op::IntValue(_) | Op::FloatValue(_) | Op::StrValue(_), Kind::IntReg { .. } | Kind::MaskedIntReg { .. } | Kind::FloatReg { .. } | Kind::StringReg { .. }) if ans.is_ok() => {
            if let Some((Some(a), Some(l))) = pre.reg {
                if l < 0 {
                    return None;
                }
                rep.count("oracle:typed-read-at-address");
                let hit = seg.iter().any(|x| *x == Acc::R(a, l as usize, true));
                if !hit {
                    return Some(("typed-access".into(), format!("`{}` must read [{a}, +{l}); device saw {:?}", op.line(), seg)));
                }
                let bytes: Option<&[u8]> = usize::try_from(a).ok().and_then(|a| im.dev.mem.get(a..a + l as usize));
                let want: Option<Ans> = match (k, bytes) {
                    (Kind::IntReg { signed, be, .. }, Some(b)) => decode_int(b, *be, *signed).map(Ans::Int),
                    (Kind::FloatReg { be, .. }, Some(b)) if b.len() == 8 => {
                        let mut x = [0u8; 8];
                        x.copy_from_slice(b);
                        Some(Ans::Float(if *be { f64::from_be_bytes(x) } else { f64::from_le_bytes(x) }))
                    }
                    _ => None,
                };
                if let Some(w) = want {
                    // (a 4-byte float is widened by the codec, C01; checked for 8-byte registers only)
                    if w.show() != ans.show() {
                        return Some(("typed-access".into(), format!("`{}` = {} but the bytes at [{a}, +{l}) decode to {}", op.line(), ans.show(), w.show())));
                    }
                }
            }
            None
        }
        (Op::IntSet(..) | Op::FloatSet(..) | Op::StrSet(..), Kind::IntReg { .. } | Kind::MaskedIntReg { .. } | Kind::FloatReg { .. } | Kind::StringReg { .. }) if *ans == Ans::Unit => {
            if let Some((Some(a), Some(l))) = pre.reg {
                if l < 0 {
                    return None;
                }
                rep.count("oracle:typed-write-at-address");
                let w: Vec<(i64, &Vec<u8>, bool)> = writes.iter().map(|x| if let Acc::W(a, d, ok) = x { (*a, d, *ok) } else { unreachable!() }).collect();
                if w.len() != 1 || w[0].0 != a || w[0].1.len() != l as usize || !w[0].2 {
                    return Some(("typed-access".into(), format!("`{}` must be exactly one device write of {l} bytes at {a}; device saw {:?}", op.line(), writes)));
                }
                let want: Option<Vec<u8>> = match (op, k) {
                    (Op::IntSet(_, v), Kind::IntReg { be, .. }) => encode_int(*v, l as usize, *be),
                    (Op::FloatSet(_, v), Kind::FloatReg { be, .. }) if l == 8 => Some(if *be { v.to_be_bytes().to_vec() } else { v.to_le_bytes().to_vec() }),
                    _ => None,
                };
                if let Some(want) = want {
                    if &want != w[0].1 {
                        return Some(("typed-access".into(), format!("`{}` wrote {} at {a}, the encoding of the value is {}", op.line(), hex(w[0].1), hex(&want))));
                    }
                }
            }
            None
        }
        // ── swiss knives and converters (read): the formula sees variables, then constants, then
        //    expressions, later bindings shadowing earlier ones; a converter read binds TO first ──
        (Op::IntValue(_) | Op::FloatValue(_), Kind::SwissKnife { fm, formula, int, .. }) if matches!(ans, Ans::Int(_) | Ans::Float(_)) => {
            if let Some(env) = oracle_formula_env(g, im, fm, *int, None, None) {
                if let Some(e) = oracle_formula_eval(formula, &env, *int) {
                    rep.count("oracle:swissknife-read");
                    if e.show() != ans.show() {
                        return Some(("formula-env".into(), format!("swiss knife value {} but the formula evaluates to {} in the environment variables < constants < expressions (later shadows earlier)", ans.show(), e.show())));
                    }
                }
            }
            None
        }
        (Op::IntValue(_) | Op::FloatValue(_), Kind::Converter { fm, from, pvalue, int, .. }) if matches!(ans, Ans::Int(_) | Ans::Float(_)) => {
            if let Some(env) = oracle_formula_env(g, im, fm, *int, Some(("TO", *pvalue)), None) {
                if let Some(e) = oracle_formula_eval(from, &env, *int) {
                    rep.count("oracle:converter-read");
                    if e.show() != ans.show() {
                        return Some(("formula-env".into(), format!("converter value {} but FormulaFrom evaluates to {} in the environment TO < variables < constants < expressions", ans.show(), e.show())));
                    }
                }
            }
            None
        }
        // ── pValue read: the value is the value of the pValue node (never of a copy) ──
        (Op::IntValue(_), Kind::Integer { vk: VK::PValue { p, .. }, .. }) => {
            if let Ans::Int(v) = ans {
                rep.count("oracle:pvalue-read");
                match im.probe_num_as_int(g, *p) {
                    Some(e) if e == *v => {}
                    e => return Some(("pvalue".into(), format!("value {v} but pValue N{p} reads {e:?}"))),
                }
            }
            None
        }
        (Op::FloatValue(_), Kind::Float { vk: VK::PValue { p, .. }, .. }) => {
            if let Ans::Float(v) = ans {
                rep.count("oracle:pvalue-read-float");
                match im.probe_num_as_float(g, *p) {
                    Some(e) if e.to_bits() == v.to_bits() => {}
                    e => return Some(("pvalue".into(), format!("value {v:?} but pValue N{p} reads {e:?}"))),
                }
            }
            None
        }
        // ── Float pIndex selection ──
        (Op::FloatValue(_), Kind::Float { vk: VK::PIndex { sel, entries, dflt }, .. }) => {
            if let Ans::Float(v) = ans {
                let i = match (g.is_int(*sel), im.probe(&Op::IntValue(*sel))) {
                    (true, Ans::Int(i)) => i,
                    _ => return Some(("pindex".into(), "float value obtained although the selector has no value".into())),
                };
                rep.count("oracle:pindex-read-float");
                if let Son::Node(p) = Access::select(entries, dflt, i) {
                    if let Some(e) = im.probe_num_as_float(g, *p) {
                        if e.to_bits() != v.to_bits() {
                            return Some(("pindex".into(), format!("selector = {i}: expected the value of N{p} = {e:?}, got {v:?}")));
                        }
                    }
                }
            }
            None
        }
        // ── String nodes: value comes from / goes to the pValue string node ──
        (Op::StrValue(_), Kind::Str { value: Son::Node(p), .. }) => {
            if g.is_str(*p) {
                rep.count("oracle:string-read");
                let e = im.probe(&Op::StrValue(*p));
                if e.show() != ans.show() {
                    return Some(("string".into(), format!("value {} but pValue N{p} reads {}", ans.show(), e.show())));
                }
            }
            None
        }
        (Op::StrSet(_, v), Kind::Str { value: Son::Node(p), .. }) => {
            if ans.is_ok() && matches!(g.kind(*p), Some(Kind::Str { value: Son::Slot(_), .. })) {
                rep.count("oracle:string-write");
                let e = im.probe(&Op::StrValue(*p));
                if e != Ans::Str(v.clone()) {
                    return Some(("string".into(), format!("wrote {v:?} but pValue N{p} holds {}", e.show())));
                }
            }
            None
        }
        // ── pIndex selection (read) ──
        (Op::IntValue(_), Kind::Integer { vk: VK::PIndex { sel, entries, dflt }, .. }) => {
            if let Ans::Int(v) = ans {
                let i = match (g.is_int(*sel), im.probe(&Op::IntValue(*sel))) {
                    (true, Ans::Int(i)) => i,
                    _ => return Some(("pindex".into(), "value obtained although the selector has no value".into())),
                };
                rep.count("oracle:pindex-read");
                if let Son::Node(p) = Access::select(entries, dflt, i) {
                    if let Some(e) = im.probe_num_as_int(g, *p) {
                        if e != *v {
                            return Some(("pindex".into(), format!("selector = {i}: expected the value of N{p} = {e}, got {v}")));
                        }
                    }
                }
            }
            None
        }
        // ── pIndex selection (write to a slot branch reads back; other slot branches untouched) ──
        (Op::IntSet(_, v), Kind::Integer { vk: VK::PIndex { sel, entries, dflt }, .. }) => {
            if ans.is_ok() {
                if let (true, Ans::Int(i)) = (g.is_int(*sel), im.probe(&Op::IntValue(*sel))) {
                    if Some(i) == pre.sel_value {
                        if let Son::Slot(_) = Access::select(entries, dflt, i) {
                            rep.count("oracle:pindex-write");
                            let back = im.probe(&Op::IntValue(n));
                            if back != Ans::Int(*v) {
                                return Some(("pindex".into(), format!("wrote {v} through the selected slot (selector {i}) but read back {}", back.show())));
                            }
                            if !writes.is_empty() {
                                return Some(("pindex".into(), "write to a value-store branch touched the device".into()));
                            }
                        }
                    }
                }
            }
            None
        }
        // ── enumerations only accept and report declared entries ──
        (Op::EnumSetByValue(_, v), Kind::Enumeration { value, .. }) => {
            let ev = g.entry_values(n);
            rep.count("oracle:enum-set");
            let declared = ev.iter().any(|e| e.1 == *v);
            if !declared {
                if *ans != Ans::Err("InvalidData") || !seg.is_empty() {
                    return Some(("enum".into(), format!("undeclared value {v} must be refused (InvalidData) without any device access; got {} with {} accesses", ans.show(), seg.len())));
                }
            } else if let Son::Slot(_) = value {
                if *ans != Ans::Unit {
                    return Some(("enum".into(), format!("declared value {v} refused: {}", ans.show())));
                }
                if im.probe(&Op::EnumCurrentValue(n)) != Ans::Int(*v) {
                    return Some(("enum".into(), "declared value not stored".into()));
                }
            }
            None
        }
        (Op::EnumSetByName(_, s), Kind::Enumeration { .. }) => {
            let ev = g.entry_values(n);
            rep.count("oracle:enum-set-name");
            if !ev.iter().any(|e| e.2 == *s) && (*ans != Ans::Err("InvalidData") || !seg.is_empty()) {
                return Some(("enum".into(), format!("unknown entry name {s} must be refused without device access; got {}", ans.show())));
            }
            None
        }
        (Op::EnumCurrentEntry(_), Kind::Enumeration { .. }) => {
            let ev = g.entry_values(n);
            let cur = im.probe(&Op::EnumCurrentValue(n));
            rep.count("oracle:enum-current");
            match (ans, cur) {
                (Ans::Node(e), Ans::Int(c)) => {
                    let first = ev.iter().find(|x| x.1 == c).map(|x| x.0);
                    if first != Some(*e) {
                        return Some(("enum".into(), format!("current value {c}: expected first declared entry {first:?}, got N{e}")));
                    }
                }
                (Ans::Err("InvalidNode"), Ans::Int(c)) => {
                    if ev.iter().any(|x| x.1 == c) {
                        return Some(("enum".into(), format!("current value {c} is declared but current_entry failed")));
                    }
                }
                (Ans::Node(_), _) => return Some(("enum".into(), "entry reported although the value cannot be read".into())),
                _ => {}
            }
            None
        }
        // ── Boolean: On / Off ──
        (Op::BoolSet(_, x), Kind::Boolean { value, on, off, .. }) => {
            if ans.is_ok() {
                rep.count("oracle:bool-set");
                let want = if *x { *on } else { *off };
                match value {
                    Son::Slot(_) => {
                        if on != off && im.probe(&Op::BoolValue(n)) != Ans::Bool(*x) {
                            return Some(("bool".into(), format!("wrote {x} but the node does not read back {x}")));
                        }
                    }
                    Son::Node(p) => {
                        if matches!(g.kind(*p), Some(Kind::Integer { vk: VK::Value(_), .. })) && im.probe_num_as_int(g, *p) != Some(want) {
                            return Some(("bool".into(), format!("writing {x} must store {} {want} in N{p}", if *x { "OnValue" } else { "OffValue" })));
                        }
                    }
                }
            }
            None
        }
        (Op::BoolValue(_), Kind::Boolean { value: Son::Node(p), on, off, .. }) => {
            if let Some(v) = im.probe_num_as_int(g, *p) {
                rep.count("oracle:bool-read");
                let want = if v == *on {
                    Ans::Bool(true)
                } else if v == *off {
                    Ans::Bool(false)
                } else {
                    Ans::Err("InvalidNode")
                };
                if *ans != want {
                    return Some(("bool".into(), format!("underlying value {v} (On {on}, Off {off}): expected {}, got {}", want.show(), ans.show())));
                }
            }
            None
        }
        // ── Command: execute writes the command value; is_done compares ──
        (Op::CmdExecute(_), Kind::Command { value: Son::Node(p), cmd, .. }) | (Op::CmdIsDone(_), Kind::Command { value: Son::Node(p), cmd, .. }) => {
            let cv: Option<i64> = match cmd {
                Son::Slot(s) => match &g.slots[*s] {
                    SlotInit::I(v) => Some(*v),
                    _ => None,
                },
                Son::Node(q) => im.probe_num_as_int(g, *q),
            };
            match op {
                Op::CmdExecute(_) => {
                    let cv = pre.cmd_value;
                    if ans.is_ok() && matches!(g.kind(*p), Some(Kind::Integer { vk: VK::Value(_), .. })) {
                        rep.count("oracle:command-execute");
                        let got = im.probe_num_as_int(g, *p);
                        if cv.is_none() || got != cv {
                            return Some(("command".into(), format!("execute must write the command value {cv:?} to N{p}, which now holds {got:?}")));
                        }
                    }
                }
                _ => {
                    let readable = if g.is_int(*p) || g.is_float(*p) || g.is_enum(*p) { im.probe(&Op::IsReadable(*p)) } else { Ans::Bool(false) };
                    let rv = im.probe_num_as_int(g, *p);
                    rep.count("oracle:command-is-done");
                    let want = match (readable, cv, rv) {
                        (Ans::Bool(false), _, _) => Some(Ans::Bool(true)),
                        (Ans::Bool(true), Some(c), Some(r)) => Some(Ans::Bool(c != r)),
                        _ => None,
                    };
                    if let Some(w) = want {
                        if *ans != w {
                            return Some(("command".into(), format!("is_done: target readable, command value {cv:?}, target value {rv:?}: expected {}, got {}", w.show(), ans.show())));
                        }
                    }
                }
            }
            None
        }
        (Op::CmdIsDone(_), Kind::Command { value: Son::Slot(_), .. }) => {
            rep.count("oracle:command-is-done");
            if *ans != Ans::Bool(true) {
                return Some(("command".into(), "a command over an immediate value is always done".into()));
            }
            None
        }
        // ── address = Σ address elements; length from Length / pLength ──
        (Op::RegAddress(_), _) | (Op::RegLength(_), _) | (Op::RegRead(..), _) if k.reg().is_some() => {
            let r = k.reg().unwrap();
            let oa = oracle_address(g, im, r);
            let len = oracle_length(g, im, r);
            let known = !oa.unknown;
            let wrapped = known && oa.addr.is_none();
            let sum = oa.addr.unwrap_or(0) as i128;
            if matches!(op, Op::RegAddress(_)) && oa.has_default_offset && known {
                // the doubt about the default pIndex offset: on how many evaluations do the readings differ?
                rep.count(match (oa.addr, oa.addr_other_default) {
                    (Some(a), Some(b)) if a == b => "pindex-default-offset: x1 and xLength agree (index 0 or Length 1)",
                    (Some(_), Some(_)) => "pindex-default-offset: x1 and xLength DIFFER (the code uses x1)",
                    _ => "pindex-default-offset: overflow under one reading",
                });
            }
            match (op, ans) {
                (Op::RegAddress(_), Ans::Int(a)) if known && !wrapped => {
                    rep.count("oracle:address");
                    if *a as i128 != sum {
                        return Some(("address".into(), format!("address() = {a}, sum of the address elements = {sum}")));
                    }
                }
                (Op::RegAddress(_), Ans::Int(_)) if !known => {
                    return Some(("address".into(), "address() succeeded although an address element has no value".into()));
                }
                (Op::RegLength(_), Ans::Int(l)) => {
                    rep.count("oracle:length");
                    if Some(*l) != len {
                        return Some(("length".into(), format!("length() = {l}, Length/pLength = {len:?}")));
                    }
                }
                (Op::RegRead(_, bl), Ans::Bytes(_)) if known && !wrapped => {
                    rep.count("oracle:read-at-address");
                    if seg.last() != Some(&Acc::R(sum as i64, *bl, true)) || len != Some(*bl as i64) {
                        return Some(("address".into(), format!("read() must access exactly [{sum}, +{len:?}); device saw {:?}", seg.last())));
                    }
                }
                _ => {}
            }
            None
        }
        _ => None,
    }
}

/// values captured before an operation for oracles that compare before / after
#[derive(Default)]
pub struct PreState {
    pub sel_value: Option<i64>,
    /// command value as it was before `execute`
    pub cmd_value: Option<i64>,
    /// converter write: FormulaTo evaluated in the environment FROM < variables < constants <
    /// expressions built from the values the variables had BEFORE the write
    pub conv_to: Option<EvalOut>,
    /// typed register access: (address by the sum rule, length) before the call
    pub reg: Option<(Option<i64>, Option<i64>)>,
}

pub fn pre_state(g: &Graph, im: &mut Impl, op: &Op) -> PreState {
    let mut p = PreState::default();
    if let (Op::IntSet(..), Some(Kind::Integer { vk: VK::PIndex { sel, .. }, .. })) | (Op::FloatSet(..), Some(Kind::Float { vk: VK::PIndex { sel, .. }, .. })) = (op, g.kind(op.node())) {
        if g.is_int(*sel) {
            if let Ans::Int(i) = im.probe(&Op::IntValue(*sel)) {
                p.sel_value = Some(i);
            }
        }
    }
    if let Some(Kind::Converter { fm, to, int, .. }) = g.kind(op.node()) {
        use cameleon_genapi::formula::Expr;
        let from: Option<Expr> = match (op, *int) {
            (Op::IntSet(_, v), true) => Some(Expr::from(*v)),
            (Op::FloatSet(_, v), false) => Some(Expr::from(*v)),
            _ => None,
        };
        if let Some(from) = from {
            if let Some(env) = oracle_formula_env(g, im, fm, *int, None, Some(("FROM", from))) {
                p.conv_to = oracle_formula_eval_raw(to, &env);
            }
        }
    }
    if matches!(op, Op::IntValue(_) | Op::IntSet(..) | Op::FloatValue(_) | Op::FloatSet(..) | Op::StrValue(_) | Op::StrSet(..)) {
        if let Some(k @ (Kind::IntReg { .. } | Kind::MaskedIntReg { .. } | Kind::FloatReg { .. } | Kind::StringReg { .. })) = g.kind(op.node()) {
            let r = k.reg().unwrap();
            p.reg = Some((oracle_address(g, im, r).addr, oracle_length(g, im, r)));
        }
    }
    if let (Op::CmdExecute(_), Some(Kind::Command { cmd, .. })) = (op, g.kind(op.node())) {
        p.cmd_value = match cmd {
            Son::Slot(s) => match &g.slots[*s] {
                SlotInit::I(v) => Some(*v),
                _ => None,
            },
            Son::Node(q) => im.probe_num_as_int(g, *q),
        };
    }
    p
}

// ───────────────────────────── host NaN conventions ─────────────────────────────

/// The model carries floats as raw bits and follows the x86-64 rules for NaN results.  Two facts
/// depend on the compiled code, not on IEEE-754: which operand wins when both are NaNs (the
/// compiler may commute) and the bit pattern of the default NaN of an invalid operation.  They are
/// measured here on the real formula evaluator and handed to the model (`nancfg` line).  Everything
/// else about NaNs (one NaN operand: that operand quieted; unary functions) is checked against the
/// model's fixed rules and reported as `nan-calibration-unexpected` if the host deviates.
pub fn nan_cfg_line() -> &'static (String, u64) {
    use cameleon_genapi::formula::{parse, EvaluationResult, Expr};
    use std::collections::HashMap;
    static CELL: std::sync::OnceLock<(String, u64)> = std::sync::OnceLock::new();
    CELL.get_or_init(|| {
        let na = f64::from_bits(0x7ff0_0000_0000_1234);
        let nb = f64::from_bits(0xfff4_0000_0000_5678);
        let quiet = |x: f64| x.to_bits() | 0x0008_0000_0000_0000;
        let eval = |txt: &str, a: f64, b: f64| -> u64 {
            let mut env: HashMap<&str, Expr> = HashMap::new();
            env.insert("A", Expr::Float(a));
            env.insert("B", Expr::Float(b));
            match parse(txt).eval(&env) {
                Ok(EvaluationResult::Float(f)) => f.to_bits(),
                _ => 0,
            }
        };
        let mut unexpected = 0u64;
        let mut prefs = String::new();
        for op in ["+", "-", "*", "/", "%"] {
            let r = eval(&format!("A {op} B"), na, nb);
            if r == quiet(na) {
                prefs.push('L');
            } else if r == quiet(nb) {
                prefs.push('R');
            } else {
                prefs.push('L');
                unexpected += 1;
            }
            // one NaN operand: that operand, quieted
            if eval(&format!("A {op} B"), na, 2.5) != quiet(na) || eval(&format!("A {op} B"), 2.5, nb) != quiet(nb) {
                unexpected += 1;
            }
        }
        let inf = f64::INFINITY;
        let inv = [
            eval("A + B", inf, -inf),
            eval("A - B", inf, inf),
            eval("A * B", 0.0, inf),
            eval("A / B", 0.0, 0.0),
            eval("A % B", 1.0, 0.0),
            eval("SQRT(A)", -1.0, 0.0),
        ];
        if eval("A % B", inf, 1.0) != inv[4] {
            unexpected += 1;
        }
        // unary functions on a signalling NaN: quieted (Q) or returned unchanged (K)
        let mut unary = String::new();
        for f in ["FLOOR", "CEIL", "ROUND", "TRUNC", "SQRT"] {
            let r = eval(&format!("{f}(A)"), na, 0.0);
            if r == quiet(na) {
                unary.push('Q');
            } else if r == na.to_bits() {
                unary.push('K');
            } else {
                unary.push('Q');
                unexpected += 1;
            }
        }
        if eval("-A", na, 0.0) != na.to_bits() ^ (1 << 63) || eval("ABS(B)", 0.0, nb) != nb.to_bits() & !(1 << 63) || eval("SGN(A)", na, 0.0) != na.to_bits() {
            unexpected += 1;
        }
        (format!("nancfg {prefs} {unary} {}", inv.iter().map(|b| format!("{b:016x}")).collect::<Vec<_>>().join(" ")), unexpected)
    })
}

// ───────────────────────────── runner ─────────────────────────────

pub const FUEL: usize = 48;

pub struct Mode {
    pub property: &'static str,
    pub spec: bool,
    pub cfg: GenCfg,
}

fn case_rng(seed: u64, case: u64) -> Rng {
    Rng::new(seed.wrapping_mul(1_000_003).wrapping_add(case.wrapping_mul(7919)).wrapping_add(17))
}

/// run one generated case; returns false if the case could not be built
pub fn run_case(mode: &Mode, rep: &mut Report, seed: u64, case: u64, max_ops: u64, verbose: bool) -> bool {
    let (g, ops) = gen_case(mode, seed, case, max_ops);
    let replay = json!({"seed": seed, "case": case, "max_ops": max_ops, "property": mode.property});
    run_explicit(mode, rep, g, ops, replay, format!("@{seed}:{case}:{max_ops}"), case, verbose)
}

/// the graph and the (random part of the) operation list of generated case `case`
pub fn gen_case(mode: &Mode, seed: u64, case: u64, max_ops: u64) -> (Graph, Vec<Op>) {
    let mut rng = case_rng(seed, case);
    let g = gen_graph(&mut rng, &mode.cfg);
    let n_ops = 1 + rng.below(max_ops);
    let ops: Vec<Op> = (0..n_ops).map(|_| gen_op(&mut rng, &g, &mode.cfg)).collect();
    (g, ops)
}

/// run one case given explicitly: `gen_ops` followed by the read sweep of every node
#[allow(clippy::too_many_arguments)]
pub fn run_explicit(mode: &Mode, rep: &mut Report, g: Graph, gen_ops: Vec<Op>, replay: Value, case_tag: String, case: u64, verbose: bool) -> bool {
    let mut im = match Impl::build(&g) {
        Ok(i) => i,
        Err(e) => {
            rep.count("generator:unbuildable");
            rep.n_disagreements += 1;
            if rep.disagreements.len() < 40 {
                rep.disagreements.push(json!({"request": format!("build case {case}"), "impl": e, "model": "-"}));
            }
            return false;
        }
    };
    if verbose {
        eprintln!("{}", g.xml());
    }
    let (nan_line, nan_unexpected) = nan_cfg_line();
    if *nan_unexpected > 0 {
        rep.count("nan-calibration-unexpected");
    }
    let mut lines: Vec<(String, String)> = vec![(nan_line.clone(), "ok".to_string())];
    lines.extend(g.protocol("").into_iter().map(|l| (l.trim_start().to_string(), "ok".to_string())));
    let mut log_hash = FNV_INIT;
    let mut log_count: usize = 0;
    for k in &g.nodes {
        rep.count(&format!("node:{}", k.tag()));
    }
    rep.count(&format!("graph:nodes={}", g.nodes.len().min(20)));
    for k in &g.nodes {
        let b = k.base();
        for c in [b.imp, b.avail, b.locked].into_iter().flatten() {
            rep.count(&format!("ctl-kind:{}", g.kind(c).map_or("missing", |k| if matches!(k, Kind::Converter { int: true, .. }) { "IntConverter" } else { k.tag() })));
        }
        if let Kind::Converter { fm, .. } | Kind::SwissKnife { fm, .. } = k {
            // several `.Enum.<entry>` variables on ONE enumeration with different entries
            let mut seen: Vec<(usize, &str)> = vec![];
            for (n, v) in &fm.vars {
                if let Some(pos) = n.find(".Enum.") {
                    let e = &n[pos + 6..];
                    if seen.iter().any(|(w, f)| w == v && *f != e) {
                        rep.count("shape:formula-several-.Enum-entries-of-one-enumeration");
                        break;
                    }
                    seen.push((*v, e));
                }
            }
        }
    }
    // shapes the audit asked to see in the evidence: dynamic pLength, formula environments with
    // duplicate / shadowing names, variable accessors
    for k in &g.nodes {
        if let Some(r) = k.reg() {
            match &r.length {
                Ion::Imm(_) => rep.count("shape:length=immediate"),
                Ion::Node(p) => match g.nodes.get(*p) {
                    Some(Kind::IntReg { .. }) => rep.count("shape:pLength=IntReg-on-device-memory"),
                    Some(Kind::SwissKnife { .. }) => rep.count("shape:pLength=constant-IntSwissKnife"),
                    _ => rep.count("shape:pLength=other"),
                },
            }
        }
        let fm = match k {
            Kind::Converter { fm, .. } | Kind::SwissKnife { fm, .. } => fm,
            _ => continue,
        };
        let base = |s: &str| s.split('.').next().unwrap_or("").to_string();
        let vnames: Vec<String> = fm.vars.iter().map(|(n, _)| n.clone()).collect();
        if (1..vnames.len()).any(|i| vnames[..i].contains(&vnames[i])) {
            rep.count("shape:formula-duplicate-variable-name");
        }
        if vnames.iter().any(|n| matches!(base(n).as_str(), "TO" | "FROM")) {
            rep.count("shape:formula-variable-named-TO/FROM");
        }
        if fm.consts.iter().any(|(c, _)| vnames.contains(c)) {
            rep.count("shape:formula-constant-shadows-variable");
        }
        if fm.exprs.iter().any(|(e, _)| vnames.contains(e) || fm.consts.iter().any(|(c, _)| c == e)) {
            rep.count("shape:formula-expression-shadows-variable-or-constant");
        }
        if (1..fm.exprs.len()).any(|i| fm.exprs[..i].iter().any(|(e, _)| *e == fm.exprs[i].0)) {
            rep.count("shape:formula-duplicate-expression-name");
        }
        if fm.exprs.iter().any(|(n, body)| body.split(|c: char| !(c.is_alphanumeric() || c == '.' || c == '_')).any(|tok| tok == n)) {
            rep.count("shape:formula-expression-mentions-its-own-name");
        }
        for (n, _) in &fm.vars {
            if let Some(pos) = n.find('.') {
                let acc = &n[pos + 1..];
                let tag = if acc.starts_with("Enum.") { "Enum.<entry>" } else { acc };
                rep.count(&format!("shape:variable-accessor=.{tag}"));
            }
        }
    }
    let acc = Access { g: &g };
    // C18: the same graph and history under the default cache (impl vs impl, access queries)
    let mut imc = if mode.spec { Impl::<DefaultCacheStore>::build_cached(&g).ok() } else { None };
    let mut twin_diverged = false;
    if mode.spec && imc.is_none() {
        rep.count("cache-twin:unbuildable");
    }
    let mut canon = String::new();
    let mut nontrivial = false;
    let mut dead = false;
    let mut ops: Vec<Op> = vec![];
    let all_ops: Vec<Op> = gen_ops.iter().cloned().chain(sweep(&g)).collect();
    for op in all_ops {
        let is_access = matches!(op, Op::IsReadable(_) | Op::IsWritable(_) | Op::IsImplemented(_) | Op::IsAvailable(_) | Op::IsLocked(_));
        let is_rw_query = matches!(op, Op::IsReadable(_) | Op::IsWritable(_));
        let harness_bug = |rep: &mut Report, what: &str, loc: &str| {
            // a panic in harness-side code: reported distinctly, never as a verdict on the implementation
            rep.count(&format!("HARNESS-BUG:{what}-panicked@{loc}"));
            eprintln!("HARNESS BUG: {what} panicked at {loc} (case {case_tag}, op `{}`)", op.line());
        };
        // everything evaluated on the pre-state (needs the values of referenced nodes before the call)
        let before = guarded(|| {
            let pre = pre_state(&g, &mut im, &op);
            let spec_before = match op {
                Op::IsReadable(n) if mode.spec => Some(acc.acc(&mut im, n, false, FUEL + 1)),
                Op::IsWritable(n) if mode.spec => Some(acc.acc(&mut im, n, true, FUEL + 1)),
                _ => None,
            };
            (pre, spec_before)
        });
        let (pre, spec_before) = match before {
            Ok(x) => x,
            Err(loc) => {
                harness_bug(rep, "pre-state evaluation", &loc);
                (PreState::default(), None)
            }
        };
        let log_before = im.dev.log.len();
        let ans = im.apply(&op);
        // what of the access log is compared: writes in order; reads as a sorted multiset, and not at
        // all for a failing call or an access query (see `canon_accesses`)
        let seg = canon_accesses(ans.is_ok() && !is_access, &im.dev.log[log_before..]);
        log_hash = log_digest_from(log_hash, &seg);
        log_count += seg.len();
        let pin = format!(" L{}:{:08x} M{:08x}", log_count, log_hash & 0xffff_ffff, fnv_bytes(FNV_INIT, &im.dev.mem) & 0xffff_ffff);
        let tag = g.nodes[op.node()].tag();
        let opname = op.line().split(' ').next().unwrap().to_string();
        rep.count(&format!("op:{opname}"));
        rep.count(&format!("answer:{}", match &ans { Ans::Err(e) => format!("err-{e}"), Ans::Panic => "panic".into(), _ => "ok".into() }));
        if ans.is_ok() && !matches!(op, Op::IsImplemented(_)) {
            nontrivial = true;
        }
        // non-triviality per CALL: does the node's kind offer the interface the call belongs to at all?
        // (a call on a kind without that interface answers InvalidNode by construction)
        let offered = g.kind(op.node()).map_or(false, |k| op.offered_by(k));
        rep.count(if !offered {
            "call:vacuous (kind does not offer the interface)"
        } else if ans.is_ok() {
            "call:offered, answers"
        } else if ans == Ans::Panic {
            "call:offered, panics"
        } else {
            "call:offered, error"
        });
        if matches!(ans, Ans::Err("NotAnEntry")) {
            // not callable through the public API: nothing to compare
            continue;
        }
        // access queries are compared as granted / not granted (`no` = false, an error or a panic): which
        // of them a refusal is depends on the order of the conjuncts, which C18 does not fix (a panic needs
        // a malformed description or a formula overflow, both outside C18; it does not end the case); controller
        // readings of enumeration entries: the error variant is not compared.  The variant is judged
        // below against the expected classes.
        let mut shown = match (&op, &ans) {
            (Op::IsReadable(_) | Op::IsWritable(_), Ans::Bool(false) | Ans::Err(_) | Ans::Panic) => "no".to_string(),
            (_, Ans::Err(_)) if is_access => "err *".to_string(),
            _ => ans.show(),
        };
        // cached twin: access queries must answer the same with DefaultCacheStore
        if let Some(c) = imc.as_mut() {
            let ans_c = c.apply(&op);
            if is_access {
                rep.count(if offered { "cache-twin:access-compared" } else { "cache-twin:access-compared (vacuous: kind has no such query)" });
                if ans_c != ans {
                    rep.violation(
                        json!({"oracle": "cache-access", "kind": tag, "after_other_divergence": twin_diverged}),
                        &format!("`{}` on {tag}: {} without cache, {} under the default cache (every register declares the port as pInvalidator)", op.line(), ans.show(), ans_c.show()),
                        replay.clone(),
                    );
                }
            } else if !twin_diverged && (ans_c.show() != ans.show() || c.dev.mem != im.dev.mem) {
                // a difference outside access queries is C04's subject; it is counted, and the access
                // queries of the rest of the history are still compared
                rep.count("cache-twin:diverged-on-other-call(C04)");
                twin_diverged = true;
            }
        }
        if let Some(s) = spec_before {
            shown.push_str(&format!(" spec={s}"));
        }
        // ── oracles and distribution (harness-side code: guarded) ──
        let judged = guarded(|| {
            // distribution of access answers: kind x restriction x answer
            if is_rw_query && !offered {
                rep.count(&format!("acc|{tag}|{}|n/a (kind has no such query)", if matches!(op, Op::IsReadable(_)) { "rd" } else { "wr" }));
            }
            if is_rw_query && offered {
                let q = if matches!(op, Op::IsReadable(_)) { "rd" } else { "wr" };
                let a = match &ans {
                    Ans::Bool(true) => "T".to_string(),
                    Ans::Bool(false) => "F".to_string(),
                    Ans::Err(e) => format!("Err-{e}"),
                    Ans::Panic => "Panic".to_string(),
                    _ => "other".to_string(),
                };
                rep.count(&format!("acc|{tag}|{q}|{a}"));
                if let Some(k) = g.kind(op.node()) {
                    let b = k.base();
                    let t = |c: Option<usize>, im: &mut Impl| match c {
                        None => "-",
                        Some(c) => match acc.ctl(im, c) {
                            Some(true) => "T",
                            Some(false) => "F",
                            None => "E",
                        },
                    };
                    let (i, av, l) = (t(b.imp, &mut im), t(b.avail, &mut im), t(b.locked, &mut im));
                    let am = k.reg().map_or("n/a", |r| r.am.map_or("-", |m| m.s()));
                    rep.count(&format!("restr|iam={}|am={am}|imp={i}|avail={av}|lock={l}|{q}|{}", b.iam.map_or("-", |m| m.s()), &a[..1]));
                    for (role, c) in [("pIsImplemented", b.imp), ("pIsAvailable", b.avail), ("pIsLocked", b.locked)] {
                        if let Some(c) = c {
                            rep.count(&format!("ctl-kind-queried:{role}:{}", g.kind(c).map_or("missing", |k| k.tag())));
                        }
                    }
                }
            }
            // error / panic answers of access queries: is there a cause in the description?
            if is_access && offered {
                let q = opname.as_str();
                let got: Option<&'static str> = match &ans {
                    Ans::Err(e) => Some(e),
                    Ans::Panic => Some("panic"),
                    _ => None,
                };
                if let Some(e) = got {
                    rep.count(&format!("{}:{q}:{e}", if e == "panic" { "access-panic" } else { "access-error" }));
                    // (an access query changes neither value store nor device image, so the classes can
                    // be computed after the call)
                    let mut classes = std::collections::BTreeSet::new();
                    acc.error_classes(&mut im, op.node(), FUEL + 1, &mut classes);
                    if !classes.contains(e) && !classes.contains("*") {
                        rep.violation(
                            json!({"oracle": if e == "panic" { "access-panic-unexplained" } else { "access-error-unexplained" }, "kind": tag, "error": e}),
                            &format!(
                                "`{}` on {tag} answered {e}; the classes with which a controlling node, selector, value source / target or formula variable it may consult fails are {:?}",
                                op.line(),
                                classes
                            ),
                            replay.clone(),
                        );
                    }
                    if spec_before == Some(true) {
                        rep.violation(
                            json!({"oracle": "access-error-although-accessible", "kind": tag, "error": e}),
                            &format!("`{}` on {tag} answered {e} although the access predicate holds (every restriction it depends on has a value and permits the access)", op.line()),
                            replay.clone(),
                        );
                    }
                }
            }
            if let Some(s) = spec_before {
                rep.count(&format!("access:{}:{}", if matches!(op, Op::IsReadable(_)) { "readable" } else { "writable" }, s));
                if let Ans::Bool(b) = ans {
                    if b != s {
                        let what = format!(
                            "{} of {tag} node N{} answered {b}, the access predicate evaluated on the graph says {s}",
                            if matches!(op, Op::IsReadable(_)) { "is_readable" } else { "is_writable" },
                            op.node()
                        );
                        rep.violation(json!({"oracle": if matches!(op, Op::IsReadable(_)) { "readable" } else { "writable" }, "kind": tag, "answer": b}), &what, replay.clone());
                    }
                }
            }
            if let Some((o, what)) = c03_oracles(&g, &mut im, &op, &ans, log_before, &pre, rep) {
                rep.violation(json!({"oracle": o, "kind": tag}), &format!("{what} (op `{}` on {tag})", op.line()), replay.clone());
            }
        });
        if let Err(loc) = judged {
            harness_bug(rep, "oracle", &loc);
        }
        canon.push_str(&op.line());
        canon.push(';');
        // pin the access log and the device image after every call (so that the first diverging call is named)
        shown.push_str(&pin);
        lines.push((format!("op {}", op.line()), shown));
        ops.push(op);
        if ans == Ans::Panic && !is_rw_query {
            dead = true;
            break;
        }
    }
    let _ = dead;
    lines.push(("end".into(), format!("mem={} log={}:{:016x}", hex(&im.dev.mem), log_count, log_hash)));
    let key = format!("{}|{}", g.protocol("").join("|"), canon);
    rep.case(&key, nontrivial);
    if case % 97 == 0 {
        rep.sample(json!({"case": case, "nodes": g.nodes.iter().map(|k| k.tag()).collect::<Vec<_>>(), "ops": ops.iter().take(6).map(|o| o.line()).collect::<Vec<_>>(), "answers": lines.iter().rev().take(3).map(|l| l.1.clone()).collect::<Vec<_>>()}));
    }
    if verbose {
        for (q, a) in &lines {
            eprintln!("{q}    => {a}");
        }
    }
    // every request of the case carries `@seed:case:max_ops` (ignored by the driver), so that a
    // model / implementation disagreement names the case to replay:
    //   c03|c18 --replay <file with {"replay": {"property", "seed", "case", "max_ops"}}> --verbose
    for (q, a) in lines {
        rep.expect(format!("{case_tag} {q}"), a);
    }
    true
}

pub fn run(mode: Mode) {
    install_panic_hook();
    let args = parse_args();
    let mut rep = Report::new(
        mode.property,
        "random acyclic node graphs (all stored kinds, <= 12 nodes + enum entries, all ValueKind shapes, selector-indexed addresses, embedded IntSwissKnife, access restrictions and controllers, ~2.5% ill-typed / dangling references) x random device images x operation sequences over all interface calls followed by a read sweep of every node; a case is non-trivial when at least one call succeeds; distinct by (graph, device image, operation sequence)",
    );
    // `--export seed:case:max_ops [note]`: print the case as a self-contained corpus entry
    let argv: Vec<String> = std::env::args().collect();
    if let Some(i) = argv.iter().position(|a| a == "--export") {
        let parts: Vec<u64> = argv.get(i + 1).map_or(vec![], |s| s.split(':').filter_map(|x| x.parse().ok()).collect());
        if parts.len() != 3 {
            eprintln!("usage: --export seed:case:max_ops [note]");
            std::process::exit(2);
        }
        let (g, ops) = gen_case(&mode, parts[0], parts[1], parts[2]);
        let origin = json!({"property": mode.property, "seed": parts[0], "case": parts[1], "max_ops": parts[2]});
        println!("{}", serde_json::to_string_pretty(&corpus::export_case(argv.get(i + 2).map_or("", |s| s.as_str()), &origin, &g, &ops)).unwrap());
        return;
    }
    if let Some(path) = &args.replay {
        let v: Value = serde_json::from_str(&std::fs::read_to_string(path).unwrap()).unwrap();
        // a violation found in an explicit corpus entry points to that file
        let v: Value = match v["replay"]["corpus"].as_str() {
            Some(f) => serde_json::from_str(&std::fs::read_to_string(f).unwrap()).unwrap(),
            None => v,
        };
        if v.get("graph").is_some() {
            let e = corpus::load_case(&v).unwrap_or_else(|e| panic!("corpus entry {path}: {e}"));
            run_explicit(&mode, &mut rep, e.g, e.ops, json!({"corpus": path, "property": mode.property}), format!("@corpus:{}", std::path::Path::new(path).file_stem().map_or("?".into(), |s| s.to_string_lossy().to_string())), 0, true);
            rep.write(&args);
            return;
        }
        let r = &v["replay"];
        run_case(&mode, &mut rep, r["seed"].as_u64().unwrap_or(1), r["case"].as_u64().unwrap_or(0), r["max_ops"].as_u64().unwrap_or(40), true);
        rep.write(&args);
        return;
    }
    // corpus first
    if let Ok(rd) = std::fs::read_dir(format!("/verif/corpus/{}", mode.property)) {
        let mut files: Vec<_> = rd.flatten().map(|e| e.path()).collect();
        files.sort();
        for f in files {
            if let Ok(s) = std::fs::read_to_string(&f) {
                if let Ok(v) = serde_json::from_str::<Value>(&s) {
                    let path = f.to_string_lossy().to_string();
                    if v.get("graph").is_some() {
                        // explicit entry: graph + device image + operation list, independent of the generator
                        match corpus::load_case(&v) {
                            Ok(e) => {
                                let stem = f.file_stem().map_or("?".into(), |s| s.to_string_lossy().to_string());
                                run_explicit(&mode, &mut rep, e.g, e.ops, json!({"corpus": path, "property": mode.property}), format!("@corpus:{stem}"), 0, false);
                                rep.count("corpus");
                            }
                            Err(e) => {
                                // never silent: a corpus entry that no longer loads is a broken regression test
                                rep.count("corpus:ENTRY-DOES-NOT-LOAD");
                                rep.n_disagreements += 1;
                                if rep.disagreements.len() < 40 {
                                    rep.disagreements.push(json!({"request": format!("load corpus entry {path}"), "impl": e, "model": "-"}));
                                }
                            }
                        }
                    } else {
                        // legacy pointer into the random stream (retargeted by generator edits)
                        let r = &v["replay"];
                        run_case(&mode, &mut rep, r["seed"].as_u64().unwrap_or(1), r["case"].as_u64().unwrap_or(0), r["max_ops"].as_u64().unwrap_or(40), false);
                        rep.count("corpus:legacy-seed-pointer");
                    }
                }
            }
        }
    }
    let (cases, max_ops) = if args.thorough() { (12_000u64, 200u64) } else { (2_500, 40) };
    for case in 0..cases {
        run_case(&mode, &mut rep, args.seed, case, max_ops, false);
        if case % 500 == 499 {
            rep.flush_model(&args.camdrv);
        }
    }
    rep.write(&args);
}
