//! Explicit (de)serialisation of a case — the abstract graph, the device image and the operation
//! list — so that corpus entries and exported cases do not depend on the random generator: a
//! `(seed, case)` pointer is silently retargeted by any edit of `gen_graph` / `gen_op`, the
//! explicit form is not.  Floats are stored by bit pattern.

use super::*;

fn fj(f: f64) -> Value {
    json!(format!("{:016x}", f.to_bits()))
}
fn fp(v: &Value) -> Option<f64> {
    Some(f64::from_bits(u64::from_str_radix(v.as_str()?, 16).ok()?))
}
fn us(v: &Value) -> Option<usize> {
    v.as_u64().map(|x| x as usize)
}
fn opt<T>(v: &Value, f: impl Fn(&Value) -> Option<T>) -> Option<Option<T>> {
    if v.is_null() {
        Some(None)
    } else {
        f(v).map(Some)
    }
}
fn list<T>(v: &Value, f: impl Fn(&Value) -> Option<T>) -> Option<Vec<T>> {
    v.as_array()?.iter().map(f).collect()
}

fn am_j(a: &Option<AM>) -> Value {
    match a {
        None => Value::Null,
        Some(a) => json!(a.s()),
    }
}
fn am_p(v: &Value) -> Option<Option<AM>> {
    opt(v, |v| match v.as_str()? {
        "RO" => Some(AM::RO),
        "WO" => Some(AM::WO),
        "RW" => Some(AM::RW),
        _ => None,
    })
}
fn base_j(b: &Base) -> Value {
    json!({"imp": b.imp, "avail": b.avail, "locked": b.locked, "iam": am_j(&b.iam)})
}
fn base_p(v: &Value) -> Option<Base> {
    Some(Base { imp: opt(&v["imp"], us)?, avail: opt(&v["avail"], us)?, locked: opt(&v["locked"], us)?, iam: am_p(&v["iam"])? })
}
fn ion_j(i: &Ion) -> Value {
    match i {
        Ion::Imm(x) => json!({"imm": x}),
        Ion::Node(n) => json!({"node": n}),
    }
}
fn ion_p(v: &Value) -> Option<Ion> {
    if let Some(x) = v.get("imm") {
        Some(Ion::Imm(x.as_i64()?))
    } else {
        Some(Ion::Node(us(v.get("node")?)?))
    }
}
fn ionf_j(i: &IonF) -> Value {
    match i {
        IonF::Imm(x) => json!({"imm": fj(*x)}),
        IonF::Node(n) => json!({"node": n}),
    }
}
fn ionf_p(v: &Value) -> Option<IonF> {
    if let Some(x) = v.get("imm") {
        Some(IonF::Imm(fp(x)?))
    } else {
        Some(IonF::Node(us(v.get("node")?)?))
    }
}
fn son_j(s: &Son) -> Value {
    match s {
        Son::Slot(x) => json!({"slot": x}),
        Son::Node(n) => json!({"node": n}),
    }
}
fn son_p(v: &Value) -> Option<Son> {
    if let Some(x) = v.get("slot") {
        Some(Son::Slot(us(x)?))
    } else {
        Some(Son::Node(us(v.get("node")?)?))
    }
}
fn vk_j(v: &VK) -> Value {
    match v {
        VK::Value(s) => json!({"value": s}),
        VK::PValue { p, before, after } => json!({"pvalue": p, "before": before, "after": after}),
        VK::PIndex { sel, entries, dflt } => json!({"pindex": sel, "entries": entries.iter().map(|(i, s)| json!([i, son_j(s)])).collect::<Vec<_>>(), "dflt": son_j(dflt)}),
    }
}
fn vk_p(v: &Value) -> Option<VK> {
    if let Some(s) = v.get("value") {
        Some(VK::Value(us(s)?))
    } else if let Some(p) = v.get("pvalue") {
        Some(VK::PValue { p: us(p)?, before: list(&v["before"], us)?, after: list(&v["after"], us)? })
    } else {
        Some(VK::PIndex {
            sel: us(v.get("pindex")?)?,
            entries: list(&v["entries"], |e| Some((e.get(0)?.as_i64()?, son_p(e.get(1)?)?)))?,
            dflt: son_p(&v["dflt"])?,
        })
    }
}
fn addr_j(a: &AddrKind) -> Value {
    match a {
        AddrKind::Addr(i) => json!({"addr": ion_j(i)}),
        AddrKind::Isk(n) => json!({"isk": n}),
        AddrKind::PIndex { sel, offset } => json!({"pindex": sel, "offset": offset.as_ref().map(ion_j)}),
    }
}
fn addr_p(v: &Value) -> Option<AddrKind> {
    if let Some(a) = v.get("addr") {
        Some(AddrKind::Addr(ion_p(a)?))
    } else if let Some(n) = v.get("isk") {
        Some(AddrKind::Isk(us(n)?))
    } else {
        Some(AddrKind::PIndex { sel: us(v.get("pindex")?)?, offset: opt(&v["offset"], ion_p)? })
    }
}
fn reg_j(r: &RegBase) -> Value {
    json!({"base": base_j(&r.base), "addrs": r.addrs.iter().map(addr_j).collect::<Vec<_>>(), "length": ion_j(&r.length), "am": am_j(&r.am), "port": r.port})
}
fn reg_p(v: &Value) -> Option<RegBase> {
    Some(RegBase { base: base_p(&v["base"])?, addrs: list(&v["addrs"], addr_p)?, length: ion_p(&v["length"])?, am: am_p(&v["am"])?, port: us(&v["port"])? })
}
fn fm_j(f: &Fm) -> Value {
    json!({
        "vars": f.vars.iter().map(|(n, v)| json!([n, v])).collect::<Vec<_>>(),
        "consts": f.consts.iter().map(|(n, c)| match c { Lit::I(i) => json!([n, {"i": i}]), Lit::F(x) => json!([n, {"f": fj(*x)}]) }).collect::<Vec<_>>(),
        "exprs": f.exprs.iter().map(|(n, e)| json!([n, e])).collect::<Vec<_>>(),
    })
}
fn fm_p(v: &Value) -> Option<Fm> {
    Some(Fm {
        vars: list(&v["vars"], |e| Some((e.get(0)?.as_str()?.to_string(), us(e.get(1)?)?)))?,
        consts: list(&v["consts"], |e| {
            let c = e.get(1)?;
            let lit = if let Some(i) = c.get("i") { Lit::I(i.as_i64()?) } else { Lit::F(fp(c.get("f")?)?) };
            Some((e.get(0)?.as_str()?.to_string(), lit))
        })?,
        exprs: list(&v["exprs"], |e| Some((e.get(0)?.as_str()?.to_string(), e.get(1)?.as_str()?.to_string())))?,
    })
}

fn kind_j(k: &Kind) -> Value {
    let t = k.tag();
    match k {
        Kind::Integer { b, vk, min, max, inc, min_slot, max_slot } => json!({"k": t, "b": base_j(b), "vk": vk_j(vk), "min": min.as_ref().map(son_j), "max": max.as_ref().map(son_j),
            "inc": inc.as_ref().map(ion_j), "min_slot": *min_slot as u64, "max_slot": *max_slot as u64}),
        Kind::IntReg { r, signed, be } => json!({"k": t, "r": reg_j(r), "signed": signed, "be": be}),
        Kind::MaskedIntReg { r, mask, signed, be } => json!({"k": t, "r": reg_j(r), "signed": signed, "be": be,
            "mask": match mask { Mask::Bit(b) => json!({"bit": b}), Mask::Range(l, h) => json!({"lsb": l, "msb": h}) }}),
        Kind::Boolean { b, value, on, off, init } => json!({"k": t, "b": base_j(b), "value": son_j(value), "on": on, "off": off, "init": init}),
        Kind::Command { b, value, cmd } => json!({"k": t, "b": base_j(b), "value": son_j(value), "cmd": son_j(cmd)}),
        Kind::Enumeration { b, entries, value } => json!({"k": t, "b": base_j(b), "entries": entries, "value": son_j(value)}),
        Kind::EnumEntry { b, value, numeric, symbolic } => json!({"k": t, "b": base_j(b), "value": value, "numeric": numeric.map(fj), "symbolic": symbolic}),
        Kind::Float { b, vk, min, max, inc, min_slot, max_slot } => json!({"k": t, "b": base_j(b), "vk": vk_j(vk), "min": min.as_ref().map(son_j), "max": max.as_ref().map(son_j),
            "inc": inc.as_ref().map(ionf_j), "min_slot": *min_slot as u64, "max_slot": *max_slot as u64}),
        Kind::FloatReg { r, be } => json!({"k": t, "r": reg_j(r), "be": be}),
        Kind::Str { b, value } => json!({"k": t, "b": base_j(b), "value": son_j(value)}),
        Kind::StringReg { r } | Kind::Register { r } => json!({"k": t, "r": reg_j(r)}),
        Kind::Converter { b, fm, to, from, pvalue, int } => json!({"k": t, "b": base_j(b), "fm": fm_j(fm), "to": to, "from": from, "pvalue": pvalue, "int": int}),
        Kind::SwissKnife { b, fm, formula, int, embedded } => json!({"k": t, "b": base_j(b), "fm": fm_j(fm), "formula": formula, "int": int, "embedded": embedded}),
        Kind::Port { b, chunk } => json!({"k": t, "b": base_j(b), "chunk": chunk}),
        Kind::Category { b, features } => json!({"k": t, "b": base_j(b), "features": features}),
        Kind::Node { b } => json!({"k": t, "b": base_j(b)}),
    }
}

fn kind_p(v: &Value) -> Option<Kind> {
    let b = || base_p(&v["b"]);
    let slot = |x: &Value| x.as_u64().map(|x| x as usize);
    Some(match v["k"].as_str()? {
        "Integer" => Kind::Integer { b: b()?, vk: vk_p(&v["vk"])?, min: opt(&v["min"], son_p)?, max: opt(&v["max"], son_p)?, inc: opt(&v["inc"], ion_p)?, min_slot: slot(&v["min_slot"])?, max_slot: slot(&v["max_slot"])? },
        "IntReg" => Kind::IntReg { r: reg_p(&v["r"])?, signed: v["signed"].as_bool()?, be: v["be"].as_bool()? },
        "MaskedIntReg" => Kind::MaskedIntReg {
            r: reg_p(&v["r"])?,
            signed: v["signed"].as_bool()?,
            be: v["be"].as_bool()?,
            mask: if let Some(b) = v["mask"].get("bit") { Mask::Bit(b.as_u64()?) } else { Mask::Range(v["mask"]["lsb"].as_u64()?, v["mask"]["msb"].as_u64()?) },
        },
        "Boolean" => Kind::Boolean { b: b()?, value: son_p(&v["value"])?, on: v["on"].as_i64()?, off: v["off"].as_i64()?, init: v["init"].as_bool()? },
        "Command" => Kind::Command { b: b()?, value: son_p(&v["value"])?, cmd: son_p(&v["cmd"])? },
        "Enumeration" => Kind::Enumeration { b: b()?, entries: list(&v["entries"], us)?, value: son_p(&v["value"])? },
        "EnumEntry" => Kind::EnumEntry { b: b()?, value: v["value"].as_i64()?, numeric: opt(&v["numeric"], fp)?, symbolic: v["symbolic"].as_str()?.to_string() },
        "Float" => Kind::Float { b: b()?, vk: vk_p(&v["vk"])?, min: opt(&v["min"], son_p)?, max: opt(&v["max"], son_p)?, inc: opt(&v["inc"], ionf_p)?, min_slot: slot(&v["min_slot"])?, max_slot: slot(&v["max_slot"])? },
        "FloatReg" => Kind::FloatReg { r: reg_p(&v["r"])?, be: v["be"].as_bool()? },
        "String" => Kind::Str { b: b()?, value: son_p(&v["value"])? },
        "StringReg" => Kind::StringReg { r: reg_p(&v["r"])? },
        "Register" => Kind::Register { r: reg_p(&v["r"])? },
        "Converter" | "IntConverter" => Kind::Converter { b: b()?, fm: fm_p(&v["fm"])?, to: v["to"].as_str()?.to_string(), from: v["from"].as_str()?.to_string(), pvalue: us(&v["pvalue"])?, int: v["int"].as_bool()? },
        "SwissKnife" | "IntSwissKnife" => Kind::SwissKnife { b: b()?, fm: fm_p(&v["fm"])?, formula: v["formula"].as_str()?.to_string(), int: v["int"].as_bool()?, embedded: v["embedded"].as_bool()? },
        "Port" => Kind::Port { b: b()?, chunk: v["chunk"].as_bool()? },
        "Category" => Kind::Category { b: b()?, features: list(&v["features"], us)? },
        "Node" => Kind::Node { b: b()? },
        _ => return None,
    })
}

pub fn graph_to_json(g: &Graph) -> Value {
    json!({
        "nodes": g.nodes.iter().map(kind_j).collect::<Vec<_>>(),
        "slots": g.slots.iter().map(|s| match s { SlotInit::I(i) => json!({"i": i}), SlotInit::F(f) => json!({"f": fj(*f)}), SlotInit::S(s) => json!({"s": s}) }).collect::<Vec<_>>(),
        "mem": hex(&g.mem),
        "ro": [g.ro.0, g.ro.1],
        "ghosts": g.ghosts,
    })
}

pub fn graph_from_json(v: &Value) -> Option<Graph> {
    Some(Graph {
        nodes: list(&v["nodes"], kind_p)?,
        slots: list(&v["slots"], |s| {
            if let Some(i) = s.get("i") {
                Some(SlotInit::I(i.as_i64()?))
            } else if let Some(f) = s.get("f") {
                Some(SlotInit::F(fp(f)?))
            } else {
                Some(SlotInit::S(s.get("s")?.as_str()?.to_string()))
            }
        })?,
        mem: unhex(v["mem"].as_str()?),
        ro: (us(v["ro"].get(0)?)?, us(v["ro"].get(1)?)?),
        ghosts: list(&v["ghosts"], us)?,
        cached_xml: std::cell::Cell::new(false),
    })
}

/// inverse of `Op::line`
pub fn op_parse(s: &str) -> Option<Op> {
    let mut it = s.splitn(3, ' ');
    let tag = it.next()?;
    let n: usize = it.next()?.parse().ok()?;
    let arg = it.next();
    let i = || arg.and_then(|a| a.parse::<i64>().ok());
    let f = || arg.and_then(|a| u64::from_str_radix(a, 16).ok()).map(f64::from_bits);
    Some(match tag {
        "iv" => Op::IntValue(n),
        "is" => Op::IntSet(n, i()?),
        "imin" => Op::IntMin(n),
        "imax" => Op::IntMax(n),
        "iinc" => Op::IntInc(n),
        "ismin" => Op::IntSetMin(n, i()?),
        "ismax" => Op::IntSetMax(n, i()?),
        "fv" => Op::FloatValue(n),
        "fs" => Op::FloatSet(n, f()?),
        "fmin" => Op::FloatMin(n),
        "fmax" => Op::FloatMax(n),
        "finc" => Op::FloatInc(n),
        "fsmin" => Op::FloatSetMin(n, f()?),
        "fsmax" => Op::FloatSetMax(n, f()?),
        "sv" => Op::StrValue(n),
        "ss" => Op::StrSet(n, String::from_utf8(unhex(arg.unwrap_or("-"))).ok()?),
        "sml" => Op::StrMaxLength(n),
        "bv" => Op::BoolValue(n),
        "bs" => Op::BoolSet(n, arg? == "1"),
        "ecv" => Op::EnumCurrentValue(n),
        "ece" => Op::EnumCurrentEntry(n),
        "esv" => Op::EnumSetByValue(n, i()?),
        "esn" => Op::EnumSetByName(n, arg?.to_string()),
        "een" => Op::EnumEntries(n),
        "cx" => Op::CmdExecute(n),
        "cd" => Op::CmdIsDone(n),
        "rr" => Op::RegRead(n, arg?.parse().ok()?),
        "rw" => Op::RegWrite(n, unhex(arg.unwrap_or("-"))),
        "ra" => Op::RegAddress(n),
        "rl" => Op::RegLength(n),
        "rd" => Op::IsReadable(n),
        "wr" => Op::IsWritable(n),
        "imp" => Op::IsImplemented(n),
        "av" => Op::IsAvailable(n),
        "lk" => Op::IsLocked(n),
        _ => return None,
    })
}

/// a self-contained corpus entry for one case
pub fn export_case(note: &str, origin: &Value, g: &Graph, ops: &[Op]) -> Value {
    json!({
        "note": note,
        "origin": origin,
        "graph": graph_to_json(g),
        "ops": ops.iter().map(|o| o.line()).collect::<Vec<_>>(),
        // what the model is fed for this graph (informational, and a check of this (de)serialiser:
        // a loaded entry must reproduce these lines exactly)
        "protocol": g.protocol("").into_iter().skip(1).collect::<Vec<_>>(), // without the `begin <profile>` line
        "xml": g.xml(),
    })
}

pub struct Explicit {
    pub g: Graph,
    pub ops: Vec<Op>,
}

/// load an explicit entry; `Err` tells what is wrong with it (a corrupt entry must be loud)
pub fn load_case(v: &Value) -> Result<Explicit, String> {
    let g = graph_from_json(&v["graph"]).ok_or("graph does not parse")?;
    let ops: Vec<Op> = v["ops"].as_array().ok_or("no ops")?.iter().map(|o| o.as_str().and_then(op_parse)).collect::<Option<Vec<_>>>().ok_or("an op does not parse")?;
    if let Some(p) = v["protocol"].as_array() {
        let want: Vec<String> = p.iter().filter_map(|x| x.as_str().map(|s| s.to_string())).collect();
        if want != g.protocol("").into_iter().skip(1).collect::<Vec<_>>() {
            return Err("the loaded graph does not reproduce the stored protocol lines".into());
        }
    }
    if let Some(x) = v["xml"].as_str() {
        if x != g.xml() {
            return Err("the loaded graph does not reproduce the stored XML".into());
        }
    }
    Ok(Explicit { g, ops })
}
