//! C08 — acknowledge / event packet decoding (`device/src/u3v/protocol/{ack,event}.rs`).
//! Real parsers vs the Lean model (`CamVerif.Model.Ack`), plus the property oracle:
//! an independent offset-based reference decoder written here from the GenCP / U3V
//! layout, evaluated on the implementation's own outputs (no panic; Ok => every
//! field equals the reference extraction and slices lie inside the buffer;
//! conforming packets are accepted).

use camharness::*;
use cameleon_device::u3v::protocol::ack::{self, AckPacket, ScdKind};
use cameleon_device::u3v::protocol::event::EventPacket;
use cameleon_device::u3v::Error;

fn err_name(e: &Error) -> &'static str {
    match e {
        Error::LibUsb(_) => "LibUsb",
        Error::InvalidPacket(_) => "InvalidPacket",
        Error::BufferIo(_) => "BufferIo",
        Error::InvalidDevice => "InvalidDevice",
    }
}

fn pattern(len: usize, seed: u64) -> Vec<u8> {
    (0..len)
        .map(|i| ((i as u64 * 7 + seed * 13 + 3) % 256) as u8)
        .collect()
}

const ACK_MAGIC: u32 = 0x4356_3355;
const EVENT_MAGIC: u32 = 0x4556_3355;

// ---------------------------------------------------------------- implementation side

/// Outcome of one typed view: Ok(payload) / Err(class) / panic.
#[derive(Debug, Clone, PartialEq)]
enum View<T> {
    Ok(T),
    Err(&'static str),
    Panic,
}

impl View<u16> {
    fn map_u128(self) -> View<u128> {
        match self {
            View::Ok(x) => View::Ok(x as u128),
            View::Err(e) => View::Err(e),
            View::Panic => View::Panic,
        }
    }
}

impl<T> View<T> {
    fn show(&self, f: impl Fn(&T) -> String) -> String {
        match self {
            View::Ok(t) => format!("ok:{}", f(t)),
            View::Err(e) => format!("err:{e}"),
            View::Panic => "panic".into(),
        }
    }
}

/// (offset in the packet buffer, bytes)
type Slice = (usize, Vec<u8>);

#[derive(Debug)]
struct AckOut {
    code: u16,
    kind: String,
    fatal: bool,
    success: bool,
    scd_kind: &'static str,
    request_id: u16,
    scd_len: u16,
    raw: Slice,
    rm: View<Slice>,
    wm: View<u16>,
    pe: View<u128>,
    rs: View<Slice>,
    ws: View<Vec<u16>>,
}

fn off_of(buf: &[u8], s: &[u8]) -> usize {
    (s.as_ptr() as usize).wrapping_sub(buf.as_ptr() as usize)
}

fn view<T>(f: impl FnOnce() -> Result<T, Error>) -> View<T> {
    match catch(f) {
        Err(()) => View::Panic,
        Ok(Err(e)) => View::Err(err_name(&e)),
        Ok(Ok(t)) => View::Ok(t),
    }
}

fn scd_kind_name(k: ScdKind) -> &'static str {
    match k {
        ScdKind::ReadMem => "ReadMem",
        ScdKind::WriteMem => "WriteMem",
        ScdKind::ReadMemStacked => "ReadMemStacked",
        ScdKind::WriteMemStacked => "WriteMemStacked",
        ScdKind::Pending => "Pending",
    }
}

fn run_ack(buf: &[u8]) -> Result<Result<AckOut, &'static str>, ()> {
    let parsed = catch(|| AckPacket::parse(buf).map_err(|e| err_name(&e)))?;
    let pk = match parsed {
        Err(e) => return Ok(Err(e)),
        Ok(pk) => pk,
    };
    let st = *pk.status();
    Ok(Ok(AckOut {
        code: st.code(),
        kind: format!("{:?}", st.kind()),
        fatal: st.is_fatal(),
        success: st.is_success(),
        scd_kind: scd_kind_name(pk.scd_kind()),
        request_id: pk.request_id(),
        scd_len: pk.ccd().scd_len(),
        raw: (off_of(buf, pk.raw_scd()), pk.raw_scd().to_vec()),
        rm: view(|| pk.scd_as::<ack::ReadMem>().map(|v| (off_of(buf, v.data), v.data.to_vec()))),
        wm: view(|| pk.scd_as::<ack::WriteMem>().map(|v| v.length)),
        pe: view(|| pk.scd_as::<ack::Pending>().map(|v| v.timeout.as_millis())),
        rs: view(|| pk.scd_as::<ack::ReadMemStacked>().map(|v| (off_of(buf, v.data), v.data.to_vec()))),
        ws: view(|| pk.scd_as::<ack::WriteMemStacked>().map(|v| v.lengths)),
    }))
}

fn show_slice(s: &Slice) -> String {
    format!("{}:{}:{:016x}", s.0, s.1.len(), fnv_bytes(FNV_INIT, &s.1))
}

fn canon_ack(r: &Result<Result<AckOut, &'static str>, ()>) -> String {
    match r {
        Err(()) => "panic".into(),
        Ok(Err(e)) => format!("err {e}"),
        Ok(Ok(a)) => format!(
            "ok code={} kind={} fatal={} success={} scd={} id={} len={} raw={} | rm={} wm={} pe={} rs={} ws={}",
            a.code,
            a.kind,
            a.fatal as u8,
            a.success as u8,
            a.scd_kind,
            a.request_id,
            a.scd_len,
            show_slice(&a.raw),
            a.rm.show(show_slice),
            a.wm.show(|v| v.to_string()),
            a.pe.show(|v| v.to_string()),
            a.rs.show(show_slice),
            a.ws.show(|ls| format!("{}:{:016x}", ls.len(), ls.iter().fold(FNV_INIT, |h, l| fnv_u64(h, *l as u64)))),
        ),
    }
}

#[derive(Debug, Clone, PartialEq)]
struct Ev {
    size: u16,
    id: u16,
    ts: u64,
    off: usize,
    data: Vec<u8>,
}

fn run_event(buf: &[u8]) -> Result<Result<(u16, Vec<Ev>), &'static str>, ()> {
    catch(|| match EventPacket::parse(buf) {
        Err(e) => Err(err_name(&e)),
        Ok(pk) => Ok((
            pk.request_id(),
            pk.scd
                .iter()
                .map(|e| Ev { size: e.event_size, id: e.event_id, ts: e.timestamp, off: off_of(buf, e.data), data: e.data.to_vec() })
                .collect(),
        )),
    })
}

fn canon_event(r: &Result<Result<(u16, Vec<Ev>), &'static str>, ()>) -> String {
    match r {
        Err(()) => "panic".into(),
        Ok(Err(e)) => format!("err {e}"),
        Ok(Ok((id, evs))) => {
            let mut h = FNV_INIT;
            for e in evs {
                h = fnv_u64(h, e.size as u64);
                h = fnv_u64(h, e.id as u64);
                h = fnv_u64(h, e.ts);
                h = fnv_u64(h, e.off as u64);
                h = fnv_u64(h, e.data.len() as u64);
                h = fnv_bytes(h, &e.data);
            }
            let s = |e: Option<&Ev>| e.map_or("-".to_string(), |e| format!("{}:{}:{}:{}:{}", e.size, e.id, e.ts, e.off, e.data.len()));
            format!("ok id={id} n={} first={} last={} h={h:016x}", evs.len(), s(evs.first()), s(evs.last()))
        }
    }
}

// ---------------------------------------------------------------- reference decoder (oracle)

fn u16at(b: &[u8], o: usize) -> Option<u16> {
    Some(u16::from_le_bytes(b.get(o..o + 2)?.try_into().ok()?))
}
fn u32at(b: &[u8], o: usize) -> Option<u32> {
    Some(u32::from_le_bytes(b.get(o..o + 4)?.try_into().ok()?))
}
fn u64at(b: &[u8], o: usize) -> Option<u64> {
    Some(u64::from_le_bytes(b.get(o..o + 8)?.try_into().ok()?))
}

/// GenCP status code layout: bit 15 severity (1 = error), bits 14:13 namespace
/// (0 GenCP, 1 technology specific = USB3 Vision, 2 device specific, 3 reserved),
/// bits 12:0 the code.  Tables from GenCP 1.x "Status Codes" / U3V 1.x "U3V status codes",
/// keyed by (severity, number).
fn ref_status_kind(code: u16) -> Option<String> {
    let sev = code >> 15 & 1;
    let ns = code >> 13 & 3;
    let num = code & 0x1fff;
    let name = |s: &str, n: &str| Some(format!("{s}({n})"));
    match ns {
        0 => match (sev, num) {
            (0, 0x0000) => name("GenCp", "Success"),
            (1, 0x0001) => name("GenCp", "NotImplemented"),
            (1, 0x0002) => name("GenCp", "InvalidParameter"),
            (1, 0x0003) => name("GenCp", "InvalidAddress"),
            (1, 0x0004) => name("GenCp", "WriteProtect"),
            (1, 0x0005) => name("GenCp", "BadAlignment"),
            (1, 0x0006) => name("GenCp", "AccessDenied"),
            (1, 0x0007) => name("GenCp", "Busy"),
            (1, 0x000B) => name("GenCp", "Timeout"),
            (1, 0x000E) => name("GenCp", "InvalidHeader"),
            (1, 0x000F) => name("GenCp", "WrongConfig"),
            (1, 0x0FFF) => name("GenCp", "GenericError"),
            _ => None,
        },
        1 => match (sev, num) {
            (1, 0x0001) => name("UsbSpecific", "ResendNotSupported"),
            (1, 0x0002) => name("UsbSpecific", "StreamEndpointHalted"),
            (1, 0x0003) => name("UsbSpecific", "PayloadSizeNotAligned"),
            (1, 0x0004) => name("UsbSpecific", "InvalidSiState"),
            (1, 0x0005) => name("UsbSpecific", "EventEndpointHalted"),
            _ => None,
        },
        2 => Some("DeviceSpecific".into()),
        _ => None,
    }
}

fn ref_scd_kind(id: u16) -> Option<&'static str> {
    match id {
        0x0801 => Some("ReadMem"),
        0x0803 => Some("WriteMem"),
        0x0805 => Some("Pending"),
        0x0807 => Some("ReadMemStacked"),
        0x0809 => Some("WriteMemStacked"),
        _ => None,
    }
}

/// Header well-formedness of an acknowledge per the layout (what a conforming device emits).
fn ref_ack_header_ok(b: &[u8]) -> bool {
    b.len() >= 12
        && u32at(b, 0) == Some(ACK_MAGIC)
        && ref_status_kind(u16at(b, 4).unwrap()).is_some()
        && ref_scd_kind(u16at(b, 6).unwrap()).is_some()
}

fn oracle_ack(b: &[u8], r: &Result<Result<AckOut, &'static str>, ()>) -> Option<(String, String)> {
    let v = |class: &str, what: String| Some((class.to_string(), what));
    let a = match r {
        Err(()) => {
            // name the specific input class so that a known defect can be matched precisely
            let class = match (b.len() >= 6, u16at(b, 4)) {
                (true, Some(c)) if u32at(b, 0) == Some(ACK_MAGIC) && ((c >> 13) & 3) >= 2 => "panic-status-namespace-2-or-3",
                _ => "panic-header",
            };
            return v(class, format!("AckPacket::parse panicked (status code {:?})", u16at(b, 4)));
        }
        Ok(Err(_)) => {
            if ref_ack_header_ok(b) {
                return v("rejects-conforming-header", format!("well-formed header rejected (status {:#06x}, kind {:#06x})", u16at(b, 4).unwrap(), u16at(b, 6).unwrap()));
            }
            return None;
        }
        Ok(Ok(a)) => a,
    };
    // ---- faithfulness of the header fields
    if b.len() < 12 || u32at(b, 0) != Some(ACK_MAGIC) {
        return v("accepts-malformed", "Ok although the buffer has no acknowledge prefix / is shorter than the header".into());
    }
    let code = u16at(b, 4).unwrap();
    if a.code != code {
        return v("field", format!("status code {} != bytes 4..6 = {code}", a.code));
    }
    match ref_status_kind(code) {
        None => return v("status", format!("status {code:#06x} is not a code of its namespace but was accepted as {}", a.kind)),
        Some(k) if k != a.kind => return v("status", format!("status {code:#06x} decoded as {} (reference: {k})", a.kind)),
        _ => {}
    }
    if a.fatal != (code & 0x8000 != 0) || a.success != (code == 0) {
        return v("status", format!("fatal/success flags wrong for {code:#06x}"));
    }
    if Some(a.scd_kind) != ref_scd_kind(u16at(b, 6).unwrap()) {
        return v("field", format!("scd kind {} for command id {:#06x}", a.scd_kind, u16at(b, 6).unwrap()));
    }
    if a.scd_len != u16at(b, 8).unwrap() || a.request_id != u16at(b, 10).unwrap() {
        return v("field", "scd_len / request id differ from bytes 8..10 / 10..12".into());
    }
    if a.raw.0 != 12 || a.raw.1 != b[12..] {
        return v("slice", "raw_scd is not buffer[12..]".into());
    }
    // ---- typed views
    let n = a.scd_len as usize;
    let room = b.len() - 12;
    for (name, view) in [("ReadMem", &a.rm), ("ReadMemStacked", &a.rs)] {
        match view {
            View::Panic => return v("panic-view", format!("scd_as::<{name}> panicked")),
            View::Ok((off, d)) => {
                if *off != 12 || d.len() != n || 12 + n > b.len() || d[..] != b[12..12 + n] {
                    return v("slice", format!("{name} data is not buffer[12..12+scd_len]"));
                }
            }
            View::Err(_) => {
                if n <= room {
                    return v("rejects-conforming-view", format!("{name} view rejected although scd_len <= bytes present"));
                }
            }
        }
    }
    let res_u16 = |o: usize| -> Option<u16> {
        if u16at(b, o)? == 0 {
            u16at(b, o + 2)
        } else {
            None
        }
    };
    // WriteMemAck / PendingAck SCD: reserved u16 = 0 | value u16 — 4 bytes that must lie inside
    // the SCD the header declares (scd_len >= 4) and inside the buffer.
    let ref_value: Option<u16> = if n >= 4 { res_u16(12) } else { None };
    for (name, got) in [("WriteMem", a.wm.clone().map_u128()), ("Pending", a.pe.clone())] {
        match got {
            View::Panic => return v("panic-view", format!("scd_as::<{name}> panicked")),
            View::Ok(x) => {
                if n < 4 {
                    return v(
                        "value-view-outside-declared-scd",
                        format!("{name} view returned {x} although the header declares an SCD of only {n} byte(s): the value was read from bytes outside the declared SCD"),
                    );
                }
                if ref_value.map(|r| r as u128) != Some(x) {
                    return v("field", format!("{name} value is not (reserved=0, u16 at 14)"));
                }
            }
            View::Err(_) => {
                if ref_value.is_some() {
                    return v("rejects-conforming-view", format!("{name} view rejected a well-formed SCD"));
                }
            }
        }
    }
    // WriteMemStacked: scd_len/4 entries (reserved u16 = 0, length u16)
    let ref_ws: Option<Vec<u16>> = if n % 4 == 0 && n <= room { (0..n / 4).map(|i| res_u16(12 + 4 * i)).collect() } else { None };
    match &a.ws {
        View::Panic => {
            let class = if n % 4 != 0 { "panic-view-wms-scdlen-not-multiple-of-4" } else { "panic-view" };
            return v(class, format!("scd_as::<WriteMemStacked> panicked (scd_len {n}, {room} bytes present)"));
        }
        View::Ok(ls) => {
            if ref_ws.as_ref() != Some(ls) {
                return v("field", format!("WriteMemStacked lengths differ from the {}-entry layout", n / 4));
            }
        }
        View::Err(_) => {
            if ref_ws.is_some() {
                return v("rejects-conforming-view", "WriteMemStacked view rejected a well-formed SCD".into());
            }
        }
    }
    None
}

/// Reference walk over the event SCD (offset based).  None = not well-formed.
fn ref_events(b: &[u8]) -> Option<(u16, Vec<Ev>)> {
    if u32at(b, 0)? != EVENT_MAGIC || u16at(b, 6)? != 0x0c00 {
        return None;
    }
    let scd_len = u16at(b, 8)? as usize;
    let id = u16at(b, 10)?;
    let end = 12 + scd_len;
    let mut o = 12;
    let mut evs = vec![];
    while o < end {
        let size = u16at(b, o)?;
        let eid = u16at(b, o + 2)?;
        let ts = u64at(b, o + 4)?;
        let stop = if size == 0 { end } else { o + size as usize };
        if stop < o + 12 || stop > end || stop > b.len() {
            return None;
        }
        evs.push(Ev { size, id: eid, ts, off: o + 12, data: b[o + 12..stop].to_vec() });
        o = stop;
    }
    Some((id, evs))
}

fn oracle_event(b: &[u8], r: &Result<Result<(u16, Vec<Ev>), &'static str>, ()>) -> Option<(String, String)> {
    let v = |class: &str, what: String| Some((class.to_string(), what));
    let reference = ref_events(b);
    match r {
        Err(()) => v("panic-event", "EventPacket::parse panicked".into()),
        Ok(Err(e)) => {
            if reference.is_some() {
                return v("rejects-conforming-event", format!("well-formed event packet rejected ({e})"));
            }
            None
        }
        Ok(Ok(got)) => match reference {
            None => v("accepts-malformed-event", "Ok although the reference walk does not tile the SCD".into()),
            Some(want) => {
                if want != *got {
                    return v("event-fields", "events differ from the reference walk (id / timestamp / data / order / offsets)".into());
                }
                if got.1.iter().any(|e| e.off + e.data.len() > b.len()) {
                    return v("slice", "event data outside the buffer".into());
                }
                None
            }
        },
    }
}

// ---------------------------------------------------------------- cases

fn header(magic: u32, w1: u16, w2: u16, scd_len: u16, id: u16) -> Vec<u8> {
    let mut v = magic.to_le_bytes().to_vec();
    v.extend(w1.to_le_bytes());
    v.extend(w2.to_le_bytes());
    v.extend(scd_len.to_le_bytes());
    v.extend(id.to_le_bytes());
    v
}

#[derive(Clone)]
enum Req {
    AckHex(Vec<u8>),
    /// code, kind id, scd_len, request id, scd bytes
    AckF(u16, u16, u16, u16, Vec<u8>),
    /// code, kind id, scd_len, request id, pattern (n, seed)
    AckP(u16, u16, u16, u16, usize, u64),
    Event(Vec<u8>),
}

impl Req {
    fn bytes(&self) -> Vec<u8> {
        match self {
            Req::AckHex(b) | Req::Event(b) => b.clone(),
            Req::AckF(c, k, l, i, scd) => {
                let mut v = header(ACK_MAGIC, *c, *k, *l, *i);
                v.extend(scd);
                v
            }
            Req::AckP(c, k, l, i, n, s) => {
                let mut v = header(ACK_MAGIC, *c, *k, *l, *i);
                v.extend(pattern(*n, *s));
                v
            }
        }
    }
    fn line(&self) -> String {
        let p = profile();
        match self {
            Req::AckHex(b) => format!("c08 {p} ack {}", hex(b)),
            Req::AckF(c, k, l, i, scd) => format!("c08 {p} ackf {c} {k} {l} {i} {}", hex(scd)),
            Req::AckP(c, k, l, i, n, s) => format!("c08 {p} ackp {c} {k} {l} {i} {n} {s}"),
            Req::Event(b) => format!("c08 {p} event {}", hex(b)),
        }
    }
    fn is_event(&self) -> bool {
        matches!(self, Req::Event(_))
    }
}

fn do_case(rep: &mut Report, req: &Req, src: &str) {
    let b = req.bytes();
    let canon_case = format!("{}:{}:{:x}", if req.is_event() { "ev" } else { "ack" }, b.len(), fnv_bytes(FNV_INIT, &b));
    rep.count(src);
    let (ans, viol, nontrivial) = if req.is_event() {
        let r = run_event(&b);
        rep.count(match &r {
            Err(()) => "event:panic",
            Ok(Err("BufferIo")) => "event:err-BufferIo",
            Ok(Err(_)) => "event:err-InvalidPacket",
            Ok(Ok((_, e))) if e.is_empty() => "event:ok-0",
            Ok(Ok((_, e))) if e.len() == 1 => "event:ok-1",
            Ok(Ok(_)) => "event:ok-multi",
        });
        let nt = matches!(&r, Ok(Ok((_, e))) if !e.is_empty());
        (canon_event(&r), oracle_event(&b, &r), nt)
    } else {
        let r = run_ack(&b);
        match &r {
            Err(()) => rep.count("ack:panic"),
            Ok(Err("BufferIo")) => rep.count("ack:err-BufferIo"),
            Ok(Err(_)) => rep.count("ack:err-InvalidPacket"),
            Ok(Ok(a)) => {
                rep.count(&format!("ack:ok/{}", a.scd_kind));
                rep.count(&format!("ack:status/{}", a.kind.split('(').next().unwrap()));
                let tag = |n: &str, ok: bool, pa: bool| format!("view:{n}/{}", if pa { "panic" } else if ok { "ok" } else { "err" });
                rep.count(&tag("rm", matches!(a.rm, View::Ok(_)), a.rm == View::Panic));
                rep.count(&tag("wm", matches!(a.wm, View::Ok(_)), a.wm == View::Panic));
                rep.count(&tag("ws", matches!(a.ws, View::Ok(_)), a.ws == View::Panic));
            }
        }
        let nt = matches!(&r, Ok(Ok(_)));
        (canon_ack(&r), oracle_ack(&b, &r), nt)
    };
    rep.case(&canon_case, nontrivial);
    if let Some((class, what)) = viol {
        rep.violation(
            json!({"packet": if req.is_event() { "event" } else { "ack" }, "class": class}),
            &what,
            json!({"packet": if req.is_event() { "event" } else { "ack" }, "bytes": hex(&b)}),
        );
    }
    // samples: one per source class (the first accepted case of the class; for the classes that
    // are errors by construction the first case), so that the 12 kept samples are not all
    // `err InvalidPacket` lines of the status sweep
    {
        static SAMPLED: std::sync::Mutex<Vec<String>> = std::sync::Mutex::new(Vec::new());
        let mut seen = SAMPLED.lock().unwrap();
        let by_construction_err = src.contains("truncated") || src == "corpus" || src.starts_with("event-size-grid");
        if !seen.iter().any(|x| x == src) && (ans.starts_with("ok") || by_construction_err) {
            seen.push(src.to_string());
            let l: String = req.line().chars().take(160).collect();
            rep.sample(json!({"source": src, "request": l, "impl": ans}));
        }
    }
    rep.expect(req.line(), ans);
}

const KINDS: [u16; 5] = [0x0801, 0x0803, 0x0805, 0x0807, 0x0809];
const TABLE_CODES: [u16; 17] = [
    0x0000, 0x8001, 0x8002, 0x8003, 0x8004, 0x8005, 0x8006, 0x8007, 0x800B, 0x800E, 0x800F, 0x8FFF, 0xA001, 0xA002, 0xA003, 0xA004, 0xA005,
];

fn conforming_code(rng: &mut Rng) -> u16 {
    if rng.chance(1, 4) {
        // device specific: namespace 0b10, any severity / number
        (rng.below(2) as u16) << 15 | 0x4000 | rng.below(0x2000) as u16
    } else {
        *rng.pick(&TABLE_CODES)
    }
}

/// A conforming acknowledge from a field tuple: (request, the SCD's real length)
fn conforming_ack(rng: &mut Rng) -> (Vec<u8>, u16) {
    let kind = *rng.pick(&KINDS);
    let scd: Vec<u8> = match kind {
        0x0801 | 0x0807 => {
            let n = match rng.below(5) {
                0 => 0,
                1 => rng.below(8) as usize,
                2 => rng.below(1024) as usize,
                _ => rng.below(64) as usize,
            };
            rng.bytes(n)
        }
        0x0803 | 0x0805 => {
            let mut v = vec![0, 0];
            v.extend((rng.below(65536) as u16).to_le_bytes());
            v
        }
        _ => {
            let n = rng.below(9) as usize;
            let mut v = vec![];
            for _ in 0..n {
                v.extend([0, 0]);
                v.extend((rng.below(65536) as u16).to_le_bytes());
            }
            v
        }
    };
    let mut b = header(ACK_MAGIC, conforming_code(rng), kind, scd.len() as u16, rng.below(65536) as u16);
    b.extend(&scd);
    (b, kind)
}

/// A conforming event packet with `n` events; `single` uses the event_size = 0 form for the last one.
fn conforming_event(rng: &mut Rng, n: usize, single_last: bool) -> (Vec<u8>, String) {
    let mut scd = vec![];
    let mut toks = vec![];
    for i in 0..n {
        let dl = match rng.below(4) {
            0 => 0,
            1 => rng.below(4) as usize,
            _ => rng.below(40) as usize,
        };
        let size: u16 = if single_last && i + 1 == n { 0 } else { (12 + dl) as u16 };
        let id = rng.below(65536) as u16;
        let ts = rng.interesting_u64();
        let data = rng.bytes(dl);
        scd.extend(size.to_le_bytes());
        scd.extend(id.to_le_bytes());
        scd.extend(ts.to_le_bytes());
        scd.extend(&data);
        toks.push(format!("{id}:{ts}:{}", hex(&data)));
    }
    let flag = rng.below(65536) as u16;
    let req = rng.below(65536) as u16;
    let mut b = header(EVENT_MAGIC, flag, 0x0c00, scd.len() as u16, req);
    b.extend(scd);
    // request for the reference encoder of Spec/GenCPAck.lean
    let line = format!(
        "c08 {} enc-event {flag} {req} {} {}",
        profile(),
        (single_last && n > 0) as u8,
        toks.join(" ")
    );
    (b, line)
}

fn mutate(rng: &mut Rng, b: &[u8]) -> Vec<u8> {
    let mut v = b.to_vec();
    match rng.below(9) {
        0 if !v.is_empty() => {
            let i = rng.below(v.len() as u64) as usize;
            v[i] ^= 1 << rng.below(8);
        }
        1 if !v.is_empty() => {
            let i = rng.below(v.len() as u64) as usize;
            v[i] = rng.next_u64() as u8;
        }
        2 => v.truncate(rng.below(v.len() as u64 + 1) as usize),
        3 => {
            let k = 1 + rng.below(9) as usize;
            v.extend(rng.bytes(k));
        }
        // the scd_len field, around its value
        4 if v.len() >= 10 => {
            let l = u16at(&v, 8).unwrap();
            let nl = l.wrapping_add(rng.below(9) as u16).wrapping_sub(4);
            v[8..10].copy_from_slice(&nl.to_le_bytes());
        }
        5 if v.len() >= 10 => {
            let nl = *rng.pick(&[0u16, 1, 2, 3, 4, 5, 11, 12, 13, 0x7fff, 0x8000, 0xfffc, 0xfffd, 0xfffe, 0xffff]);
            v[8..10].copy_from_slice(&nl.to_le_bytes());
        }
        // header bytes only
        6 if v.len() >= 12 => {
            let i = rng.below(12) as usize;
            v[i] = rng.next_u64() as u8;
        }
        // an inner size field of an event / reserved field of an SCD
        7 if v.len() >= 14 => {
            let nl = *rng.pick(&[0u16, 1, 11, 12, 13, 14, 0xffff]);
            v[12..14].copy_from_slice(&nl.to_le_bytes());
        }
        _ => {
            if v.len() > 2 {
                let i = rng.below(v.len() as u64 - 1) as usize;
                v.swap(i, i + 1);
            }
        }
    }
    v
}

fn real_main() {
    let args = parse_args();
    let mut rep = Report::new(
        "C08",
        "acknowledge packets (header + all five typed views per packet) and event packets: conforming packets from field tuples, mutations of them, truncation at every offset, random bytes, exhaustive 16-bit status codes x ack kinds x scd_len window; a case is non-trivial when the packet header parses (ack) / at least one event is returned (event); distinct by packet bytes",
    );
    let mut rng = Rng::new(args.seed);

    if let Some(path) = &args.replay {
        let v: Value = serde_json::from_str(&std::fs::read_to_string(path).unwrap()).unwrap();
        let r = &v["replay"];
        let b = unhex(r["bytes"].as_str().unwrap());
        let req = if r["packet"] == "event" { Req::Event(b) } else { Req::AckHex(b) };
        do_case(&mut rep, &req, "replay");
        rep.write(&args);
        return;
    }
    // past failures first
    if let Ok(dir) = std::fs::read_dir("/verif/corpus/C08") {
        let mut files: Vec<_> = dir.flatten().map(|e| e.path()).collect();
        files.sort();
        for f in files {
            if let Ok(txt) = std::fs::read_to_string(&f) {
                if let Ok(v) = serde_json::from_str::<Value>(&txt) {
                    let r = &v["replay"];
                    if let Some(hx) = r["bytes"].as_str() {
                        let b = unhex(hx);
                        let req = if r["packet"] == "event" { Req::Event(b) } else { Req::AckHex(b) };
                        do_case(&mut rep, &req, "corpus");
                    }
                }
            }
        }
    }

    // ---- the repository's own test vectors
    do_case(&mut rep, &Req::AckF(0, 0x0801, 4, 1, vec![1, 2, 3, 4]), "unit-vectors");
    do_case(&mut rep, &Req::AckF(0, 0x0803, 4, 1, vec![0, 0, 0x0a, 0]), "unit-vectors");
    do_case(&mut rep, &Req::AckF(0, 0x0807, 4, 1, vec![1, 2, 3, 4]), "unit-vectors");
    do_case(&mut rep, &Req::AckF(0, 0x0809, 8, 1, vec![0, 0, 3, 0, 0, 0, 0x0a, 0]), "unit-vectors");
    do_case(&mut rep, &Req::AckF(0, 0x0805, 4, 1, vec![0, 0, 0xbc, 0x02]), "unit-vectors");
    do_case(&mut rep, &Req::AckF(0x800F, 0x0801, 0, 1, vec![]), "unit-vectors");
    do_case(&mut rep, &Req::AckF(0xA001, 0x0801, 0, 1, vec![]), "unit-vectors");

    // ---- exhaustive status codes x kinds x scd_len window around the real SCD length (8 bytes)
    let scd8 = vec![0u8, 0, 3, 0, 0, 0, 10, 0];
    // both tiers: EVERY code x ALL five kinds x a window of scd_len values around 8
    let window: Vec<u16> = if args.thorough() { vec![3, 4, 7, 8, 9, 12] } else { vec![7, 8, 9] };
    for code in 0..=65535u16 {
        for kind in KINDS.iter() {
            for l in &window {
                do_case(&mut rep, &Req::AckF(code, *kind, *l, code ^ 0x5a5a, scd8.clone()), "status-sweep");
            }
        }
        if rep.evaluations % 200_000 < 30 {
            rep.flush_model(&args.camdrv);
        }
    }
    rep.extra.insert(
        "status_sweep".into(),
        json!({"codes": "0..=65535 (all)", "kinds": "all 5 for every code", "exhaustive_over": "code x kind x scd_len window", "scd_len_window": window, "scd_bytes_present": 8}),
    );

    // ---- scd_len x bytes-present grid for every view (incl. scd_len not a multiple of 4)
    let max = if args.thorough() { 40 } else { 20 };
    for l in 0..=max {
        for present in 0..=max {
            for kind in KINDS {
                // reserved fields zero so that the stacked walk proceeds
                let scd: Vec<u8> = (0..present).map(|i| if i % 4 < 2 { 0 } else { (i * 3 + 1) as u8 }).collect();
                do_case(&mut rep, &Req::AckF(0, kind, l as u16, 7, scd), "len-grid");
            }
        }
    }
    // large scd_len values against short and long buffers
    for l in [255u16, 256, 1024, 4095, 4096, 0x7fff, 0x8000, 0xfffb, 0xfffc, 0xfffd, 0xfffe, 0xffff] {
        for present in [0usize, 4, l as usize - 1, l as usize, l as usize + 1, 65536, 65540] {
            for kind in [0x0801u16, 0x0809] {
                do_case(&mut rep, &Req::AckP(0, kind, l, 9, present, 0), "len-large");
            }
        }
    }

    // ---- conforming acks, their mutations, truncation at every offset
    let rounds = if args.thorough() { 60_000 } else { 5_000 };
    for i in 0..rounds {
        let (b, _) = conforming_ack(&mut rng);
        do_case(&mut rep, &Req::AckHex(b.clone()), "ack-conforming");
        if i % 4 == 0 {
            rep.count("encoder-check/ack");
            let enc_line = format!(
                "c08 {} enc-ack {} {} {} {}",
                profile(),
                u16at(&b, 4).unwrap(),
                u16at(&b, 6).unwrap(),
                u16at(&b, 10).unwrap(),
                hex(&b[12..])
            );
            rep.expect(enc_line, hex(&b));
        }
        let mut m = b.clone();
        for _ in 0..1 + rng.below(3) {
            m = mutate(&mut rng, &m);
        }
        do_case(&mut rep, &Req::AckHex(m), "ack-mutated");
        if i % 5 == 0 && b.len() <= 80 {
            for cut in 0..b.len() {
                do_case(&mut rep, &Req::AckHex(b[..cut].to_vec()), "ack-truncated-every-offset");
            }
        }
    }
    // ---- conforming events (0..n entries), mutations, truncation at every offset
    for i in 0..rounds {
        let n = match rng.below(6) {
            0 => 0,
            1 => 1,
            2 => 2,
            _ => 1 + rng.below(12) as usize,
        };
        let single_last = rng.chance(1, 3);
        let (b, enc_line) = conforming_event(&mut rng, n, single_last);
        do_case(&mut rep, &Req::Event(b.clone()), "event-conforming");
        if i % 4 == 0 {
            // the reference encoder must produce the very bytes the generator built
            rep.count("encoder-check/event");
            rep.expect(enc_line, hex(&b));
        }
        let mut m = b.clone();
        for _ in 0..1 + rng.below(3) {
            m = mutate(&mut rng, &m);
        }
        do_case(&mut rep, &Req::Event(m), "event-mutated");
        if i % 5 == 0 && b.len() <= 120 {
            for cut in 0..b.len() {
                do_case(&mut rep, &Req::Event(b[..cut].to_vec()), "event-truncated-every-offset");
            }
        }
    }
    // event size-field boundaries: sizes 0..=14 / 0xffff at the first event, scd_len around them
    for size in [0u16, 1, 11, 12, 13, 14, 24, 25, 0x7fff, 0xffff] {
        for scd_len in [0u16, 1, 11, 12, 13, 14, 23, 24, 25, 26, 36, 0xffff] {
            for present in [0usize, 11, 12, 13, 14, 24, 26, 40] {
                let mut b = header(EVENT_MAGIC, 0x4000, 0x0c00, scd_len, 5);
                let mut scd = size.to_le_bytes().to_vec();
                scd.extend([0x10, 0]);
                scd.extend(0x0123_4567_89ab_cdefu64.to_le_bytes());
                scd.extend(pattern(28, 1));
                scd.truncate(present);
                b.extend(scd);
                do_case(&mut rep, &Req::Event(b), "event-size-grid");
            }
        }
    }
    // the same boundaries at a SECOND and a THIRD event (running totals of the walk: the sum of
    // the sizes so far plus this size crosses scd_len / 2^16 only at a non-first event)
    for n_before in [1usize, 2] {
        for first in [12u16, 14] {
            let before = first as usize * n_before;
            for size in [0u16, 11, 12, 13, 0x7fff, 0xfff2 - (before as u16 - 12), 0xfff2, 0xfff3, 0xfff4, 0xffff] {
                for scd_len in [before as u16 + 12, before as u16 + 14, 0xffff] {
                    for present in [before + 12, before + 14, before + 28] {
                        let mut b = header(EVENT_MAGIC, 0x4000, 0x0c00, scd_len, 5);
                        let mut scd = vec![];
                        for k in 0..n_before {
                            scd.extend(first.to_le_bytes());
                            scd.extend([0x20 + k as u8, 0]);
                            scd.extend((0x1111_0000_0000_0000u64 + k as u64).to_le_bytes());
                            scd.extend(pattern(first as usize - 12, k as u64));
                        }
                        scd.extend(size.to_le_bytes());
                        scd.extend([0x10, 0]);
                        scd.extend(0x0123_4567_89ab_cdefu64.to_le_bytes());
                        scd.extend(pattern(28, 1));
                        scd.truncate(present);
                        b.extend(scd);
                        do_case(&mut rep, &Req::Event(b), if n_before == 1 { "event-size-grid-2nd" } else { "event-size-grid-3rd" });
                    }
                }
            }
        }
    }
    // large events
    for dl in [1000usize, 65535 - 12, 65535 - 13] {
        let mut scd = ((12 + dl) as u16).to_le_bytes().to_vec();
        scd.extend([1, 0]);
        scd.extend(7u64.to_le_bytes());
        scd.extend(pattern(dl, 2));
        for decl in [scd.len() as u16, scd.len() as u16 - 1] {
            let mut b = header(EVENT_MAGIC, 0, 0x0c00, decl, 5);
            b.extend(&scd);
            do_case(&mut rep, &Req::Event(b), "event-large");
        }
    }

    // ---- random bytes (with and without a valid prefix)
    for _ in 0..rounds {
        let n = match rng.below(4) {
            0 => rng.below(16) as usize,
            1 => rng.below(40) as usize,
            2 => rng.below(300) as usize,
            _ => 12 + rng.below(20) as usize,
        };
        let mut b = rng.bytes(n);
        let ev = rng.bool();
        if rng.chance(3, 4) && b.len() >= 4 {
            b[..4].copy_from_slice(&(if ev { EVENT_MAGIC } else { ACK_MAGIC }).to_le_bytes());
            if rng.bool() && b.len() >= 8 {
                let w = if ev { 0x0c00 } else { *rng.pick(&KINDS) };
                b[6..8].copy_from_slice(&w.to_le_bytes());
                if !ev && rng.bool() {
                    let c = conforming_code(&mut rng);
                    b[4..6].copy_from_slice(&c.to_le_bytes());
                }
            }
        }
        do_case(&mut rep, &if ev { Req::Event(b) } else { Req::AckHex(b) }, "random-bytes");
    }
    // a few 64 KiB strings
    for i in 0..(if args.thorough() { 40 } else { 6 }) {
        let n = 65536 - (i % 3);
        let l: u16 = *rng.pick(&[0xffffu16, 0xfffc, 0x8000, 4]);
        do_case(&mut rep, &Req::AckP(0, KINDS[i % 5], l, 0x0a03, n - 12, i as u64), "random-64KiB");
    }
    rep.write(&args);
}

/// Last panic message (the shared `catch` installs a silent hook; a panic of the HARNESS ITSELF
/// - driver missing, I/O - would otherwise end the process without a word and `check` would only
/// see "produced no result").
static LAST_PANIC: std::sync::Mutex<String> = std::sync::Mutex::new(String::new());

fn main() {
    let _ = catch(|| ()); // let the shared helper install its hook first, then replace it
    std::panic::set_hook(Box::new(|info| {
        if let Ok(mut g) = LAST_PANIC.try_lock() {
            *g = info.to_string();
        }
    }));
    if std::panic::catch_unwind(real_main).is_err() {
        eprintln!("harness internal panic (not a panic of the code under test): {}", LAST_PANIC.lock().map(|g| g.clone()).unwrap_or_default());
        std::process::exit(3);
    }
}
