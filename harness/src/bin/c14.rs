//! C14 — `ControlHandle::genapi` over a scripted in-memory U3V device.
//! The real call (real `zip` and `sha-1` crates) vs the Lean model
//! (`CamVerif.Model.GenApiFetch`, external functions supplied as tables computed here with the
//! same crates), plus an independent oracle: the manifest is decoded from the raw device image
//! by this file's own decoder and the returned text must be the stored file of the first
//! maximal-version device-XML entry (or the call must fail).

mod c14c15_common;

use std::io::{Cursor, Read, Write};

use c14c15_common::*;
use camharness::{catch, fnv_bytes, fnv_u64, json, parse_args, unhex, Report, Rng, Value, FNV_INIT};
use cameleon::DeviceControl;
use sha1::Digest;

const MT_SLOT: u64 = 0x10_0000;
/// an advertised size that can be allocated virtually but never physically (only safe to
/// generate once the implementation no longer allocates the advertised size up front)
const ABSURD_MID: u64 = 1 << 40;

/// lowercase hex, `-` for empty (same format as `camharness::hex`, without per-byte formatting)
fn hex(b: &[u8]) -> String {
    if b.is_empty() {
        return "-".into();
    }
    const D: &[u8; 16] = b"0123456789abcdef";
    let mut s = Vec::with_capacity(b.len() * 2);
    for x in b {
        s.push(D[(x >> 4) as usize]);
        s.push(D[(x & 15) as usize]);
    }
    String::from_utf8(s).unwrap()
}

#[derive(Clone, Debug)]
struct Case {
    regions: Vec<Region>,
    mt_addr: u64,
    max_ack: u32,
    ops: Vec<Option<(usize, FaultKind)>>,
    /// `updates[k]`: bytes the device changes on its own right before the k-th call (firmware
    /// update: another manifest table behind the same table address)
    updates: Vec<Vec<(u64, Vec<u8>)>>,
}

fn fault_to_json(f: &Option<(usize, FaultKind)>) -> Value {
    match f {
        None => Value::Null,
        Some((k, FaultKind::Status(c))) => json!({"at": k, "kind": "status", "code": c}),
        Some((k, FaultKind::UsbSend(n))) => json!({"at": k, "kind": "send", "err": n}),
        Some((k, FaultKind::UsbRecv(n))) => json!({"at": k, "kind": "recv", "err": n}),
    }
}

fn static_name(n: &str) -> &'static str {
    USB_ERR_NAMES.iter().find(|x| **x == n).copied().unwrap_or("Io")
}

fn fault_from_json(v: &Value) -> Option<(usize, FaultKind)> {
    if v.is_null() {
        return None;
    }
    let k = v["at"].as_u64().unwrap() as usize;
    let kind = match v["kind"].as_str().unwrap() {
        "status" => FaultKind::Status(v["code"].as_u64().unwrap() as u16),
        "send" => FaultKind::UsbSend(static_name(v["err"].as_str().unwrap())),
        _ => FaultKind::UsbRecv(static_name(v["err"].as_str().unwrap())),
    };
    Some((k, kind))
}

impl Case {
    fn to_json(&self) -> Value {
        json!({
            "regions": self.regions.iter().map(|r| json!({"base": r.base.to_string(), "data": hex(&r.data)})).collect::<Vec<_>>(),
            "mt_addr": self.mt_addr.to_string(), "max_ack": self.max_ack,
            "ops": self.ops.iter().map(fault_to_json).collect::<Vec<_>>(),
            "updates": self.updates.iter().map(|u| u.iter().map(|(a, d)| json!({"addr": a.to_string(), "data": hex(d)})).collect::<Vec<_>>()).collect::<Vec<_>>(),
        })
    }
    fn from_json(v: &Value) -> Case {
        Case {
            regions: v["regions"].as_array().unwrap().iter()
                .map(|r| Region { base: r["base"].as_str().unwrap().parse().unwrap(), data: unhex(r["data"].as_str().unwrap()) }).collect(),
            mt_addr: v["mt_addr"].as_str().unwrap().parse().unwrap(),
            max_ack: v["max_ack"].as_u64().unwrap() as u32,
            ops: v["ops"].as_array().unwrap().iter().map(fault_from_json).collect(),
            updates: v["updates"].as_array().map(|us| us.iter().map(|u| u.as_array().unwrap().iter()
                .map(|p| (p["addr"].as_str().unwrap().parse().unwrap(), unhex(p["data"].as_str().unwrap()))).collect()).collect()).unwrap_or_default(),
        }
    }
    /// The device as the k-th call sees it (updates 0..=k applied).
    fn at_call(&self, k: usize) -> Case {
        let mut c = self.clone();
        for u in self.updates.iter().take(k + 1) {
            for (a, d) in u {
                let end = *a as u128 + d.len() as u128;
                if let Some(r) = c.regions.iter_mut().find(|r| *a >= r.base && end <= r.base as u128 + r.data.len() as u128) {
                    let o = (*a - r.base) as usize;
                    r.data[o..o + d.len()].copy_from_slice(d);
                }
            }
        }
        c.updates = vec![];
        c
    }
    fn peek(&self, addr: u64, len: u64) -> Option<&[u8]> {
        if len == 0 {
            return Some(&[]); // an empty read causes no device access
        }
        let end = addr as u128 + len as u128;
        self.regions.iter().find_map(|r| {
            (addr >= r.base && end <= r.base as u128 + r.data.len() as u128)
                .then(|| &r.data[(addr - r.base) as usize..(addr - r.base) as usize + len as usize])
        })
    }
}

// ---------------------------------------------------------------------------------------------
// external functions, computed with the same crates the implementation uses

fn sha1_of(b: &[u8]) -> Vec<u8> {
    sha1::Sha1::digest(b).to_vec()
}

/// `None`: not an archive.  Members in directory order, `None` = not a file (directory entry) or
/// cannot be extracted.
fn unzip(b: &[u8]) -> Option<Vec<Option<Vec<u8>>>> {
    let r = catch(|| {
        let mut z = zip::ZipArchive::new(Cursor::new(b.to_vec())).ok()?;
        let mut out = vec![];
        for i in 0..z.len() {
            let m = match z.by_index(i) {
                Err(_) => None,
                Ok(f) if f.is_dir() => None,
                Ok(mut f) => {
                    let mut v = vec![];
                    f.read_to_end(&mut v).ok().map(|_| v)
                }
            };
            out.push(m);
        }
        Some(out)
    });
    r.unwrap_or(None)
}

fn lossy(b: &[u8]) -> Vec<u8> {
    String::from_utf8_lossy(b).into_owned().into_bytes()
}

fn make_zip(files: &[(&str, &[u8])], deflate: bool) -> Vec<u8> {
    let mut w = zip::ZipWriter::new(Cursor::new(Vec::new()));
    let method = if deflate { zip::CompressionMethod::Deflated } else { zip::CompressionMethod::Stored };
    let opts = zip::write::FileOptions::default().compression_method(method);
    for (name, content) in files {
        w.start_file(*name, opts).unwrap();
        w.write_all(content).unwrap();
    }
    w.finish().unwrap().into_inner()
}

enum ZEntry<'a> {
    Dir(&'a str),
    File(&'a str, &'a [u8]),
}

fn make_zip_entries(entries: &[ZEntry], deflate: bool) -> Vec<u8> {
    let mut w = zip::ZipWriter::new(Cursor::new(Vec::new()));
    let method = if deflate { zip::CompressionMethod::Deflated } else { zip::CompressionMethod::Stored };
    let opts = zip::write::FileOptions::default().compression_method(method);
    for e in entries {
        match e {
            ZEntry::Dir(name) => w.add_directory(*name, opts).unwrap(),
            ZEntry::File(name, content) => {
                w.start_file(*name, opts).unwrap();
                w.write_all(content).unwrap();
            }
        }
    }
    w.finish().unwrap().into_inner()
}

/// Patch the general purpose flags / compression method of the first member in both its local
/// header and its central directory record (encrypted member, unsupported method).
fn patch_first_member(z: &mut [u8], or_flags: u16, method: Option<u16>) {
    if let Some(l) = z.windows(4).position(|w| w == [0x50, 0x4b, 0x03, 0x04]) {
        let f = u16::from_le_bytes([z[l + 6], z[l + 7]]) | or_flags;
        z[l + 6..l + 8].copy_from_slice(&f.to_le_bytes());
        if let Some(m) = method {
            z[l + 8..l + 10].copy_from_slice(&m.to_le_bytes());
        }
    }
    if let Some(c) = z.windows(4).position(|w| w == [0x50, 0x4b, 0x01, 0x02]) {
        let f = u16::from_le_bytes([z[c + 8], z[c + 9]]) | or_flags;
        z[c + 8..c + 10].copy_from_slice(&f.to_le_bytes());
        if let Some(m) = method {
            z[c + 10..c + 12].copy_from_slice(&m.to_le_bytes());
        }
    }
}

/// Independent walk of the zip central directory (APPNOTE 4.3.12 / 4.3.16, no zip crate):
/// (number of members, FILES at least, FILES at most).  A member whose name ends with '/' is a
/// directory, one without that and without directory attributes is a file; a member whose name
/// does not end with '/' but whose external attributes carry the MS-DOS directory bit / a unix
/// directory mode (only seen in corrupted directories) is ambiguous and counts in the upper bound
/// only.
fn central_directory_counts(z: &[u8]) -> Option<(usize, usize, usize)> {
    let eocd = z.windows(4).rposition(|w| w == [0x50, 0x4b, 0x05, 0x06])?;
    if z.len() < eocd + 22 {
        return None;
    }
    let total = u16::from_le_bytes([z[eocd + 10], z[eocd + 11]]) as usize;
    let mut at = u32::from_le_bytes(z[eocd + 16..eocd + 20].try_into().ok()?) as usize;
    let (mut members, mut files_min, mut files_max) = (0, 0, 0);
    for _ in 0..total {
        if z.len() < at + 46 || z[at..at + 4] != [0x50, 0x4b, 0x01, 0x02] {
            return None;
        }
        let name_len = u16::from_le_bytes([z[at + 28], z[at + 29]]) as usize;
        let extra_len = u16::from_le_bytes([z[at + 30], z[at + 31]]) as usize;
        let comment_len = u16::from_le_bytes([z[at + 32], z[at + 33]]) as usize;
        let ext = u32::from_le_bytes(z[at + 38..at + 42].try_into().ok()?);
        let name = z.get(at + 46..at + 46 + name_len)?;
        let dir_by_name = name.last() == Some(&b'/');
        let dir_by_attr = ext & 0x10 != 0 || (ext >> 16) & 0o170000 == 0o040000;
        members += 1;
        if !dir_by_name {
            files_max += 1;
            if !dir_by_attr {
                files_min += 1;
            }
        }
        at += 46 + name_len + extra_len + comment_len;
    }
    Some((members, files_min, files_max))
}

/// A one-member archive whose central directory advertises (via a zip64 extra field) an
/// uncompressed size of 2^63 bytes for the member; the data itself is intact.
fn make_zip_lying_size(content: &[u8]) -> Vec<u8> {
    let mut z = make_zip(&[("device.xml", content)], false);
    let cd = z.windows(4).rposition(|w| w == [0x50, 0x4b, 0x01, 0x02]).unwrap();
    let name_len = u16::from_le_bytes([z[cd + 28], z[cd + 29]]) as usize;
    assert_eq!(u16::from_le_bytes([z[cd + 30], z[cd + 31]]), 0, "no extra field expected");
    z[cd + 24..cd + 28].copy_from_slice(&0xffff_ffffu32.to_le_bytes());
    z[cd + 30..cd + 32].copy_from_slice(&12u16.to_le_bytes());
    let mut extra = vec![0x01, 0x00, 0x08, 0x00];
    extra.extend_from_slice(&(1u64 << 63).to_le_bytes());
    let at = cd + 46 + name_len;
    z.splice(at..at, extra);
    let eocd = z.windows(4).rposition(|w| w == [0x50, 0x4b, 0x05, 0x06]).unwrap();
    let cd_size = u32::from_le_bytes(z[eocd + 12..eocd + 16].try_into().unwrap()) + 12;
    z[eocd + 12..eocd + 16].copy_from_slice(&cd_size.to_le_bytes());
    z
}

// ---------------------------------------------------------------------------------------------
// independent decoder of the manifest (from the USB3 Vision manifest entry layout)

#[derive(Clone, Debug)]
struct Entry {
    version: (u32, u32, u32),
    file_type: u32,
    compression: u32,
    /// (address, size, hash): `None` when that part of the entry is not readable
    location: Option<(u64, u64, [u8; 20])>,
}

/// `Err(())`: the part of the table every retrieval has to read (count, version and file info
/// of every advertised entry) is not readable.
fn decode_manifest(case: &Case) -> Result<Vec<Entry>, ()> {
    let count = u64::from_le_bytes(case.peek(case.mt_addr, 8).ok_or(())?.try_into().unwrap());
    if count > 4096 {
        return Err(());
    }
    let mut out = vec![];
    // the whole table must lie inside the 64 bit address space
    if case.mt_addr as u128 + 8 + 64 * count as u128 > 1u128 << 64 {
        return Err(());
    }
    for i in 0..count {
        let a = case.mt_addr + 8 + 64 * i;
        let b = case.peek(a, 8).ok_or(())?;
        let v = u32::from_le_bytes(b[0..4].try_into().unwrap());
        let info = u32::from_le_bytes(b[4..8].try_into().unwrap());
        let location = match (case.peek(a + 8, 16), case.peek(a + 24, 20)) {
            (Some(l), Some(h)) => Some((
                u64::from_le_bytes(l[0..8].try_into().unwrap()),
                u64::from_le_bytes(l[8..16].try_into().unwrap()),
                h.try_into().unwrap(),
            )),
            _ => None,
        };
        out.push(Entry {
            version: (v >> 24, (v >> 16) & 0xff, v & 0xffff),
            file_type: info & 0b111,
            compression: (info >> 10) & 0b11_1111,
            location,
        });
    }
    Ok(out)
}

/// What the property demands on a fault-free run: `Ok(text)` or "must fail".
/// The reason string classifies the failure for the input distribution.
/// `tolerant`: entries with a reserved file type are skipped instead of failing the retrieval
/// (the property text does not decide this; the implementation fails, see `props/C14.json`).
fn expected(case: &Case, tolerant: bool) -> Result<(Vec<u8>, bool), &'static str> {
    let entries = decode_manifest(case).map_err(|_| "malformed-table")?;
    // an entry with a reserved file type makes the device non conforming
    if !tolerant && entries.iter().any(|e| e.file_type > 1) {
        return Err("reserved-file-type");
    }
    let mut best: Option<&Entry> = None;
    for e in entries.iter().filter(|e| e.file_type == 0) {
        match best {
            Some(b) if e.version <= b.version => {}
            _ => best = Some(e),
        }
    }
    let e = best.ok_or("no-device-xml")?;
    let (address, size, hash) = e.location.ok_or("malformed-table")?;
    if e.compression > 1 {
        return Err("reserved-compression");
    }
    if size > 1 << 26 {
        return Err("file-not-readable");
    }
    let file = case.peek(address, size).ok_or("file-not-readable")?;
    if hash != [0u8; 20] && sha1_of(file) != hash {
        return Err("hash-mismatch");
    }
    // second component: the stored bytes are valid UTF-8 (the returned text is identical to them)
    if e.compression == 0 {
        return Ok((lossy(file), std::str::from_utf8(file).is_ok()));
    }
    match unzip(file) {
        None => Err("corrupt-archive"),
        Some(m) => {
            // "exactly one file": counted on the central directory itself, directories are not files
            let fallback = m.iter().filter(|x| x.is_some()).count().max((m.len() == 1) as usize);
            let (members, files_min, files_max) = central_directory_counts(file).unwrap_or((m.len(), fallback, fallback));
            if files_max < 1 || files_min > 1 {
                return Err("archive-not-one-file");
            }
            if files_min != files_max {
                // a member that is a file by its name and a directory by its attributes (corrupted
                // directory): either reading is defensible
                return Err("archive-ambiguous-directory-member");
            }
            if members != 1 {
                // one file next to directory entries: the property text ("exactly one file") admits
                // the document, the implementation refuses every archive with more than one member
                return Err("archive-one-file-among-directories");
            }
            match m.first() {
                Some(Some(x)) => Ok((lossy(x), std::str::from_utf8(x).is_ok())),
                _ => Err("corrupt-member"),
            }
        }
    }
}

/// For the class "one file among directory entries": the text of that one file.
fn single_file_text(case: &Case) -> Option<Vec<u8>> {
    let entries = decode_manifest(case).ok()?;
    let mut best: Option<&Entry> = None;
    for e in entries.iter().filter(|e| e.file_type == 0) {
        match best {
            Some(b) if e.version <= b.version => {}
            _ => best = Some(e),
        }
    }
    let (address, size, _) = best?.location?;
    let m = unzip(case.peek(address, size)?)?;
    let files: Vec<&Vec<u8>> = m.iter().flatten().collect();
    (files.len() == 1).then(|| lossy(files[0]))
}

// ---------------------------------------------------------------------------------------------

fn request(case: &Case) -> String {
    let mut s = format!("c14 run {} R {}", case.max_ack, case.regions.len());
    for r in &case.regions {
        s.push_str(&format!(" {} {}", r.base, hex(&r.data)));
    }
    // external results for every advertised (address, size) that is readable
    let mut files: Vec<(u64, u64, Vec<u8>, String)> = vec![];
    let mut lossy_pairs: Vec<(Vec<u8>, Vec<u8>)> = vec![];
    let mut add_lossy = |b: &[u8]| {
        let l = lossy(b);
        if l != b && !lossy_pairs.iter().any(|p| p.0 == b) {
            lossy_pairs.push((b.to_vec(), l));
        }
    };
    let n_images = case.ops.len().max(1);
    let entries_all: Vec<Entry> = (0..n_images)
        .filter_map(|k| decode_manifest(&case.at_call(k)).ok())
        .flatten()
        .collect();
    {
        let entries = entries_all;
        for e in entries {
            let Some((address, size, _)) = e.location else { continue };
            if size > 1 << 26 || files.iter().any(|f| f.0 == address && f.1 == size) {
                continue;
            }
            if let Some(b) = case.peek(address, size) {
                add_lossy(b);
                let z = match unzip(b) {
                    None => "Z0".to_string(),
                    Some(m) => {
                        let m0 = match m.first() {
                            None => "none".to_string(),
                            Some(None) => "fail".to_string(),
                            Some(Some(x)) => {
                                add_lossy(x);
                                hex(x)
                            }
                        };
                        format!("Z{}:{}", m.len(), m0)
                    }
                };
                files.push((address, size, sha1_of(b), z));
            }
        }
    }
    s.push_str(&format!(" F {}", files.len()));
    for (a, n, h, z) in &files {
        s.push_str(&format!(" {a} {n} {} {z}", hex(h)));
    }
    s.push_str(&format!(" L {}", lossy_pairs.len()));
    for (a, b) in &lossy_pairs {
        s.push_str(&format!(" {} {}", hex(a), hex(b)));
    }
    for (k, f) in case.ops.iter().enumerate() {
        for (a, d) in case.updates.get(k).map(|u| &u[..]).unwrap_or(&[]) {
            s.push_str(&format!(" M:{a}:{}", hex(d)));
        }
        match f {
            None => s.push_str(" g"),
            Some((k, kind)) => s.push_str(&format!(" g@{k}:{}", kind.spec())),
        }
    }
    s
}

struct OpObs {
    res: Result<Result<Vec<u8>, &'static str>, ()>,
    log: Vec<Acc>,
}

/// Cases that could take the whole process down (absurd advertised sizes: an implementation that
/// allocates them aborts) are written to disk first, so that the failing input survives an abort:
/// `<cwd>/c14-current-case.json` is a replay file (`--replay`).
fn persist_if_risky(case: &Case) {
    let risky = decode_manifest(case).map_or(false, |es| es.iter().any(|e| e.location.map_or(false, |l| l.1 >= 1 << 31)));
    if risky {
        let _ = std::fs::write("c14-current-case.json",
            serde_json::to_string(&json!({"property": "C14", "kind": "case in flight when the harness died", "replay": case.to_json()})).unwrap());
    }
}

fn run_impl(case: &Case) -> Result<(String, Vec<OpObs>), String> {
    persist_if_risky(case);
    let usb = FakeUsb::new(case.regions.clone());
    let mut h = open_handle(&usb)?;
    let mut toks = vec![];
    let mut obs = vec![];
    for (k, f) in case.ops.iter().enumerate() {
        for (a, d) in case.updates.get(k).map(|u| &u[..]).unwrap_or(&[]) {
            toks.push(format!("M={}", if usb.poke(*a, d) { "ok" } else { "unmapped" }));
        }
        usb.arm(f.clone());
        let r = catch(|| h.genapi());
        let res = match r {
            Ok(Ok(s)) => Ok(Ok(s.into_bytes())),
            Ok(Err(e)) => Ok(Err(ctrl_err_name(&e))),
            Err(()) => Err(()),
        };
        let log = usb.take_log();
        let mut hsh = FNV_INIT;
        for a in &log {
            match a {
                Acc::R { addr, len, .. } => hsh = fnv_u64(fnv_u64(hsh, *addr), *len as u64),
                Acc::W { addr, data, .. } => hsh = fnv_u64(fnv_u64(hsh, *addr), data.len() as u64),
            }
        }
        let rs = match &res {
            Ok(Ok(b)) => format!("ok:{}:{:016x}", b.len(), fnv_bytes(FNV_INIT, b)),
            Ok(Err(e)) => format!("err:{e}"),
            Err(()) => "panic".into(),
        };
        toks.push(format!("g={rs} n={} h={:016x}", log.len(), hsh));
        let is_panic = res.is_err();
        obs.push(OpObs { res, log });
        if is_panic {
            break;
        }
    }
    if usb.malformed_cmds() > 0 {
        return Err(format!("{} malformed commands reached the device", usb.malformed_cmds()));
    }
    let last = case.at_call(obs.len().saturating_sub(1));
    if usb.regions().iter().zip(&last.regions).any(|(a, b)| a.data != b.data) {
        return Err("genapi modified the device image".into());
    }
    Ok((toks.join(" "), obs))
}

fn run_case(rep: &mut Report, case: &Case, src: &str) -> usize {
    rep.count(&format!("src/{src}"));
    let req = request(case);
    let exp = expected(case, false);
    let exp_tolerant = expected(case, true);
    // boundary classes of the address arithmetic (for the input distribution)
    if let Some(c) = case.peek(case.mt_addr, 8) {
        let count = u64::from_le_bytes(c.try_into().unwrap());
        let end = case.mt_addr as u128 + 8 + 64 * count as u128;
        if case.mt_addr > 1 << 63 {
            rep.count(if end == 1 << 64 { "table:ends-at-2^64" } else if end > 1 << 64 { "table:top,exceeds-address-space" } else { "table:top" });
        } else if end > 1 << 64 {
            rep.count("table:count-exceeds-address-space");
        } else if count > 4096 {
            rep.count("table:huge-addressable-count");
        }
        for i in 0..count.min(16) {
            if let Some(l) = case.peek(case.mt_addr.wrapping_add(8 + 64 * i + 8), 16) {
                let a = u64::from_le_bytes(l[0..8].try_into().unwrap());
                let n = u64::from_le_bytes(l[8..16].try_into().unwrap());
                if n >= 1 << 40 {
                    rep.count("file:absurd-advertised-size");
                } else if a as u128 + n as u128 > 1 << 64 {
                    rep.count("file:range-exceeds-address-space");
                } else if n > 0 && a as u128 + n as u128 == 1 << 64 {
                    rep.count("file:ends-at-2^64");
                }
            }
        }
    }
    rep.count(&match &exp {
        Ok((_, false)) => "expect:ok(non-utf8 content: lossy text or error)".to_string(),
        Ok(_) => "expect:ok".to_string(),
        Err(why) => format!("expect:fail:{why}"),
    });
    match run_impl(case) {
        Err(msg) => {
            rep.case(&req, false);
            rep.violation(json!({"check": "harness-open"}), &msg, case.to_json());
            0
        }
        Ok((answer, obs)) => {
            let nontrivial = obs.iter().any(|o| matches!(&o.res, Ok(Ok(b)) if !b.is_empty()));
            rep.case(&format!("{:016x}{}", fnv_bytes(FNV_INIT, req.as_bytes()), req.len()), nontrivial);
            if !case.updates.is_empty() {
                let docs: Vec<Option<u64>> = obs.iter().map(|o| match &o.res { Ok(Ok(b)) => Some(fnv_bytes(FNV_INIT, b)), _ => None }).collect();
                rep.count(if docs.windows(2).any(|w| w[0] != w[1] && (w[0].is_some() || w[1].is_some())) {
                    "history:result-changes-between-calls"
                } else {
                    "history:same-result-every-call"
                });
            }
            for (i, o) in obs.iter().enumerate() {
                // what the property demands of THIS call: the device as it is now
                let (exp, exp_tolerant) = if case.updates.is_empty() {
                    (exp.clone(), exp_tolerant.clone())
                } else {
                    let img = case.at_call(i);
                    (expected(&img, false), expected(&img, true))
                };
                rep.count(&match &o.res {
                    Ok(Ok(_)) => "op:ok".to_string(),
                    Ok(Err(e)) => format!("op:err:{e}"),
                    Err(()) => "op:panic".to_string(),
                });
                let faulted = o.log.iter().any(|a| matches!(a, Acc::R { ok: false, .. } | Acc::W { ok: false, .. }))
                    && case.ops[i].is_some();
                if o.log.iter().any(|a| matches!(a, Acc::W { .. })) {
                    rep.violation(json!({"check": "read_only"}), "genapi wrote to the device", case.to_json());
                }
                match (&o.res, &exp) {
                    (Err(()), _) => {
                        let why = exp.as_ref().err().copied().unwrap_or("well-formed");
                        rep.violation(json!({"check": "no_panic", "input": why}),
                            &format!("genapi panicked (input class: {why})"), case.to_json());
                    }
                    (Ok(Ok(_)), _) if faulted => {
                        rep.violation(json!({"check": "fault_reported"}), "a device command failed but genapi returned Ok", case.to_json());
                    }
                    (Ok(Err(_)), _) if faulted => {}
                    (Ok(Ok(text)), Ok((want, _))) => {
                        if text != want {
                            rep.violation(json!({"check": "returns_stored_text"}),
                                &format!("returned text ({} bytes) differs from the stored file of the newest device XML entry ({} bytes)", text.len(), want.len()),
                                case.to_json());
                        }
                    }
                    (Ok(Ok(text)), Err("reserved-file-type")) if exp_tolerant.as_ref().ok().map(|x| &x.0) == Some(text) => {
                        // a tolerant implementation (skipping unknown file types) is acceptable
                        rep.count("reserved-file-type:skipped-by-implementation");
                    }
                    (Ok(Ok(text)), Err("archive-one-file-among-directories" | "archive-ambiguous-directory-member")) if single_file_text(&case.at_call(i)).as_ref() == Some(text) => {
                        rep.count("archive-one-file-among-directories:accepted-by-implementation");
                    }
                    (Ok(Ok(text)), Err(why)) => {
                        rep.violation(json!({"check": "must_fail", "input": why}),
                            &format!("genapi returned a {} byte document although the input is {why}", text.len()), case.to_json());
                    }
                    (Ok(Err(_)), Ok((_, false))) => {
                        // content that is not valid UTF-8 cannot be returned as identical text: an
                        // error is as acceptable as the lossy rendition (see props/C14.json)
                        rep.count("non-utf8:refused-by-implementation");
                    }
                    (Ok(Err(e)), Ok(_)) => {
                        rep.violation(json!({"check": "spurious_error"}),
                            &format!("well-formed device, no fault, but genapi returned Err({e})"), case.to_json());
                    }
                    (Ok(Err(_)), Err(_)) => {}
                }
            }
            if rep.evaluations % 499 == 1 && req.len() < 3000 {
                rep.sample(json!({"request": req, "impl": answer}));
            }
            let n = obs.first().map_or(0, |o| o.log.len());
            rep.expect(req, answer);
            n
        }
    }
}

// ---------------------------------------------------------------------------------------------
// generators

fn xml_text(rng: &mut Rng, len: usize) -> Vec<u8> {
    let head = b"<?xml version=\"1.0\"?><RegisterDescription ModelName=\"fake\">";
    let mut v: Vec<u8> = head.iter().copied().cycle().take(len.min(head.len())).collect();
    while v.len() < len {
        let c = match rng.below(20) {
            0 => b'<',
            1 => b'>',
            2 => b'\n',
            3 => b' ',
            _ => b'a' + rng.below(26) as u8,
        };
        v.push(c);
    }
    if len >= 3 && rng.chance(1, 15) {
        v[..3].copy_from_slice(&[0xef, 0xbb, 0xbf]); // UTF-8 byte order mark
    }
    if len > 0 && rng.chance(1, 12) {
        // a multi-byte UTF-8 character, and rarely an invalid byte (from_utf8_lossy is exercised)
        let s = "é".as_bytes();
        if len >= 2 {
            let i = rng.below(len as u64 - 1) as usize;
            v[i..i + 2].copy_from_slice(s);
        }
        if rng.chance(1, 3) {
            let i = rng.below(len as u64) as usize;
            v[i] = 0xff;
        }
    }
    v
}

struct EntrySpec {
    version: u32,
    info: u32,
    addr: u64,
    size: u64,
    hash: [u8; 20],
}

fn entry_bytes(e: &EntrySpec) -> Vec<u8> {
    let mut b = vec![];
    b.extend_from_slice(&e.version.to_le_bytes());
    b.extend_from_slice(&e.info.to_le_bytes());
    b.extend_from_slice(&e.addr.to_le_bytes());
    b.extend_from_slice(&e.size.to_le_bytes());
    b.extend_from_slice(&e.hash);
    b.resize(64, 0);
    b
}

fn gen_case(rng: &mut Rng, thorough: bool) -> Case {
    let max_ack = *rng.pick(&[64u32, 128, 128, 1024, 1024, 4096, 65536 + 12, u32::MAX]);
    let chunk = ((max_ack as u64).min(65535 + 12) - 12) as usize;
    let n_entries = match rng.below(10) {
        0 => 0,
        1..=3 => 1,
        4..=6 => 2 + rng.below(2) as usize,
        _ => 3 + rng.below(4) as usize,
    };
    // version pool with duplicates, unordered, subminor >= 256
    let pool: [u32; 12] = [
        0x0100_0000, 0x0100_0001, 0x0100_00ff, 0x0100_0100, 0x0100_ffff, 0x0101_0000, 0x0101_0100, 0x0200_0000,
        0x0001_0000, 0x01ff_0000, 0xff00_0000, 0x0100_0101,
    ];
    let sub_pool = &pool[rng.below(6) as usize..][..(3 + rng.below(4)) as usize];
    let mut regions = vec![];
    let mut next_file_addr: u64 = *rng.pick(&[0x20_0000u64, 0x1_0000_0000, 0x7fff_ffff_0000, 0xffff_ffff_fff0_0000]);
    let mut specs = vec![];
    for _ in 0..n_entries {
        let big = rng.chance(1, if thorough { 12 } else { 25 });
        let len = match rng.below(14) {
            0 => 0,
            1 => 1,
            2 => chunk.saturating_sub(1),
            3 => chunk,
            4 => chunk + 1,
            5 => 3 * chunk + 5,
            6 => 65_536 + rng.below(5000) as usize,
            7..=10 => rng.below(600) as usize,
            _ => rng.below(3000) as usize,
        };
        // files beyond one maximal chunk (65535 bytes) only in a few percent of the entries
        let len = if big { len.min(140_000) } else { len.min(2500) };
        let len = if max_ack <= 128 { len.min(4000) } else { len };
        let text = xml_text(rng, len);
        let file_type = match rng.below(12) {
            0..=7 => 0u32,
            8..=10 => 1,
            _ => 2 + rng.below(6) as u32,
        };
        let comp = match rng.below(12) {
            0..=5 => 0u32,
            6..=10 => 1,
            _ => 2 + rng.below(62) as u32,
        };
        let mut stored = if comp == 1 {
            match rng.below(17) {
                0 => make_zip(&[], true),
                1 => make_zip(&[("a.xml", &text[..]), ("b.xml", b"<x/>")], rng.bool()),
                // several members sharing ONE name (a name-keyed view of the archive sees one file)
                15 => make_zip(&[("device.xml", &text[..]), ("device.xml", b"<other/>")], rng.bool()),
                16 => make_zip(&[("device.xml", b"<other/>"), ("device.xml", &text[..]), ("device.xml", b"<third/>")], rng.bool()),
                2 => text.clone(), // flagged zip but plain text
                3 if text.len() < 3000 => make_zip_lying_size(&text),
                // directory entries: no file at all / one file next to a directory
                4 => make_zip_entries(&[ZEntry::Dir("xml/")], rng.bool()),
                5 => make_zip_entries(&[ZEntry::Dir("xml/"), ZEntry::File("xml/device.xml", &text[..])], rng.bool()),
                6 => make_zip_entries(&[ZEntry::File("device.xml", &text[..]), ZEntry::Dir("empty/")], rng.bool()),
                7 => make_zip_entries(&[ZEntry::Dir("a/"), ZEntry::Dir("b/")], rng.bool()),
                // encrypted member / compression method this build cannot inflate
                8 => {
                    let mut z = make_zip(&[("device.xml", &text[..])], true);
                    if rng.bool() {
                        patch_first_member(&mut z, 1, None);
                    } else {
                        patch_first_member(&mut z, 0, Some(*rng.pick(&[12u16, 14, 93, 99, 1])));
                    }
                    z
                }
                _ => make_zip(&[("device.xml", &text[..])], !rng.chance(1, 4)),
            }
        } else if rng.chance(1, 25) {
            make_zip(&[("device.xml", &text[..])], true) // zip content but flagged uncompressed
        } else {
            text.clone()
        };
        let mut hash = [0u8; 20];
        if rng.chance(2, 3) {
            hash.copy_from_slice(&sha1_of(&stored));
        } else if rng.chance(1, 3) {
            // a SPARSE hash field: zero except for one byte (any of the 20 positions) and possibly
            // some bytes behind it. That is a wrong hash, not "no hash": retrieval must fail with a
            // hash mismatch (seeded change C14-r4-seed1 compared the field in 8-byte words and lost
            // the last four bytes).
            let i = rng.below(20) as usize;
            hash[i] = 1 + rng.below(255) as u8;
            if rng.chance(1, 2) {
                for h in hash.iter_mut().skip(i + 1) {
                    if rng.chance(1, 2) {
                        *h = rng.below(256) as u8;
                    }
                }
            }
        }
        // corruptions
        match rng.below(16) {
            0 if !stored.is_empty() => {
                // bit flip in the file (keeps 7-bit text 7-bit)
                let i = rng.below(stored.len() as u64) as usize;
                stored[i] ^= 1 << rng.below(7);
            }
            1 if hash != [0u8; 20] => {
                let i = rng.below(20) as usize;
                hash[i] ^= 1 << rng.below(8);
            }
            2 | 3 if comp == 1 && stored.len() > 30 => {
                // bit flip in the zip central directory / end record
                let tail = stored.len().min(100);
                let i = stored.len() - 1 - rng.below(tail as u64) as usize;
                stored[i] ^= 1 << rng.below(8);
            }
            4 if comp == 1 && stored.len() > 30 => {
                // bit flip in local header / compressed data
                let i = rng.below(stored.len() as u64 - 22) as usize;
                stored[i] ^= 1 << rng.below(8);
            }
            _ => {}
        }
        let mut size = stored.len() as u64;
        let mut region_data = stored.clone();
        match rng.below(40) {
            0 => size += 1 + rng.below(2000), // advertised size exceeds what the device maps
            1 if !region_data.is_empty() => {
                let cut = rng.below(region_data.len() as u64) as usize;
                region_data.truncate(cut); // file region truncated
            }
            2 if size > 0 => size -= 1 + rng.below(size), // advertised size shorter than the file
            3 => region_data.extend_from_slice(&rng.bytes(20)), // trailing bytes beyond the size
            // absurd advertised sizes
            4 => size = *rng.pick(&[1u64 << 63, u64::MAX, (1u64 << 63) + 5, u64::MAX - 7, ABSURD_MID]),
            _ => {}
        }
        let addr = next_file_addr;
        next_file_addr += (region_data.len() as u64 + 0x1000) & !0xfff;
        next_file_addr += 0x1000;
        if !region_data.is_empty() {
            regions.push(Region { base: addr, data: region_data });
        }
        let schema = (rng.below(3) as u32) << 24 | (rng.below(3) as u32) << 16;
        specs.push(EntrySpec {
            version: *rng.pick(sub_pool),
            info: file_type | (comp << 10) | schema | ((rng.below(2) as u32) << 3),
            addr,
            size,
            hash,
        });
    }
    // the table
    let mut mt_addr = MT_SLOT + 8 * rng.below(32);
    let mut count = n_entries as u64;
    let mut table = vec![];
    for s in &specs {
        table.extend_from_slice(&entry_bytes(s));
    }
    match rng.below(36) {
        0 => count += 1 + rng.below(3), // advertised count exceeds the mapped table
        1 if !table.is_empty() => {
            let cut = rng.below(table.len() as u64) as usize;
            table.truncate(cut); // truncated table
        }
        2 if count > 0 => count -= 1, // last entry hidden
        // counts at / beyond what the address space can hold (the table is mapped for the real
        // entries only): the largest addressable count, one more, 2^58, u64::MAX
        3 => count = (u64::MAX - 7 - mt_addr) / 64 + rng.below(2),
        4 => count = *rng.pick(&[1u64 << 58, (1u64 << 58) - 1, u64::MAX, u64::MAX / 64, 1u64 << 63]),
        _ => {}
    }
    let mut mt = count.to_le_bytes().to_vec();
    mt.extend_from_slice(&table);
    // tables at the very top of the address space
    let top_used = match rng.below(14) {
        0 => {
            // ends exactly at 2^64 (allowed when the advertised count matches)
            mt_addr = (u64::MAX - mt.len() as u64).wrapping_add(1);
            true
        }
        1 if mt.len() >= 72 => {
            // the last advertised entry does not fit into the address space
            mt.truncate(mt.len() - 64);
            mt_addr = (u64::MAX - mt.len() as u64).wrapping_add(1);
            true
        }
        2 => {
            // only the count fits
            mt.truncate(8);
            mt_addr = u64::MAX - 7;
            true
        }
        _ => false,
    };
    if !top_used && regions.iter().all(|r| r.base < 0xffff_0000_0000_0000) {
        // a file region that ends exactly at 2^64; advertised size exact or one byte more
        if let Some(i) = (0..specs.len()).find(|i| specs[*i].size > 0 && specs[*i].size < 60_000 && rng.chance(1, 10)) {
            if let Some(pos) = regions.iter().position(|r| r.base == specs[i].addr) {
                let len = regions[pos].data.len() as u64;
                let base = (u64::MAX - len).wrapping_add(1);
                regions[pos].base = base;
                let new_size = if rng.bool() { specs[i].size } else { len + 1 + rng.below(3) };
                let mut e = EntrySpec { version: specs[i].version, info: specs[i].info, addr: base, size: new_size, hash: specs[i].hash };
                if rng.chance(1, 4) {
                    e.addr = u64::MAX - rng.below(4); // starts in the last bytes of the address space
                }
                let off = 8 + 64 * i;
                if mt.len() >= off + 64 && mt_addr < 0x8000_0000 {
                    mt[off..off + 64].copy_from_slice(&entry_bytes(&e));
                }
            }
        }
    }
    if rng.chance(1, 60) {
        mt.truncate(rng.below(8) as usize); // even the count is not readable
    }
    let sbrm_addr = 0x2_0000u64;
    let mut all = vec![
        abrm_region(0, 100 + rng.below(500) as u32, mt_addr, sbrm_addr),
        sbrm_region(sbrm_addr, 1, *rng.pick(&[64u32, 128, 1024, 65536]), max_ack, 0x3_0000),
    ];
    if !mt.is_empty() {
        all.push(Region { base: mt_addr, data: mt });
    }
    all.extend(regions);
    let ops = match rng.below(6) {
        0 => vec![None, None],
        _ => vec![None],
    };
    Case { regions: all, mt_addr, max_ack, ops, updates: vec![] }
}

/// A history on one handle: the device replaces / edits its manifest table (same table address)
/// between two calls of genapi() - a newer device XML entry becomes visible, versions are bumped
/// so that another slot is the newest, entries swap slots, an entry changes its file type, the
/// count shrinks.  File regions stay as they are.  Every call must return the newest document of
/// the table as it is at that call.
fn gen_update_case(rng: &mut Rng, thorough: bool) -> Option<Case> {
    for _ in 0..40 {
        let mut c = gen_case(rng, thorough);
        if c.mt_addr > 1 << 40 {
            continue;
        }
        let Some(pos) = c.regions.iter().position(|r| r.base == c.mt_addr) else { continue };
        let table = c.regions[pos].data.clone();
        if table.len() < 8 + 2 * 64 {
            continue;
        }
        let slots = ((table.len() - 8) / 64) as u64;
        let count = u64::from_le_bytes(table[0..8].try_into().unwrap());
        if count > slots || c.regions.iter().map(|r| r.data.len()).sum::<usize>() > 40_000 {
            continue;
        }
        let calls = 2 + rng.below(2) as usize;
        let mut cur = table.clone();
        let mut updates = vec![vec![]];
        for _ in 1..calls {
            let mut u = vec![];
            for _ in 0..1 + rng.below(2) {
                let i = rng.below(slots) as usize;
                let off = 8 + 64 * i;
                match rng.below(6) {
                    0 => {
                        // this slot becomes the newest device XML
                        let v: u32 = 0x7f00_0000 | rng.below(0x10000) as u32;
                        u.push((c.mt_addr + off as u64, v.to_le_bytes().to_vec()));
                        let info = u32::from_le_bytes(cur[off + 4..off + 8].try_into().unwrap()) & !0b111;
                        u.push((c.mt_addr + off as u64 + 4, info.to_le_bytes().to_vec()));
                    }
                    1 => {
                        // two entries swap their slots
                        let j = rng.below(slots) as usize;
                        let (a, b) = (cur[off..off + 64].to_vec(), cur[8 + 64 * j..8 + 64 * j + 64].to_vec());
                        u.push((c.mt_addr + off as u64, b));
                        u.push((c.mt_addr + 8 + 64 * j as u64, a));
                    }
                    2 => u.push((c.mt_addr, (rng.below(slots + 1)).to_le_bytes().to_vec())), // count changes
                    3 => {
                        // device XML <-> buffer XML
                        let info = u32::from_le_bytes(cur[off + 4..off + 8].try_into().unwrap()) ^ 1;
                        u.push((c.mt_addr + off as u64 + 4, info.to_le_bytes().to_vec()));
                    }
                    4 => {
                        // every version is replaced
                        for k in 0..slots as usize {
                            let v: u32 = (rng.below(3) as u32) << 24 | (rng.below(2) as u32) << 16 | rng.below(0x300) as u32;
                            u.push((c.mt_addr + 8 + 64 * k as u64, v.to_le_bytes().to_vec()));
                        }
                    }
                    _ => {
                        // the slot takes over the location (address, size, hash) of another one
                        let j = rng.below(slots) as usize;
                        u.push((c.mt_addr + off as u64 + 8, cur[8 + 64 * j + 8..8 + 64 * j + 44].to_vec()));
                    }
                }
                for (a, d) in &u {
                    let o = (*a - c.mt_addr) as usize;
                    cur[o..o + d.len()].copy_from_slice(d);
                }
            }
            updates.push(u);
        }
        c.ops = vec![None; calls];
        c.updates = updates;
        return Some(c);
    }
    None
}

fn gen_fault(rng: &mut Rng, k: usize) -> (usize, FaultKind) {
    let kind = match rng.below(4) {
        0 => FaultKind::Status(STATUS_ACCESS_DENIED),
        1 => FaultKind::Status(*rng.pick(&[0x8001u16, 0x8002, 0x8003, 0x8004, 0x8005, 0x8007, 0x800B, 0x800E, 0x800F, 0x8FFF])),
        2 => FaultKind::UsbSend(*rng.pick(&USB_ERR_NAMES[..])),
        _ => FaultKind::UsbRecv(*rng.pick(&USB_ERR_NAMES[..])),
    };
    (k, kind)
}

fn main() {
    let args = parse_args();
    let mut rep = Report::new(
        "C14",
        "one case = one handle lifetime over a scripted device: manifest (0..6 entries, device/buffer/reserved file types, duplicate and unordered versions incl. subminor >= 256, plain / real zip archives with 0/1/2 files, hash present / absent / wrong), file sizes 0 .. several acknowledge chunks, negotiated acknowledge lengths 64 .. u32::MAX, corruptions (bit flips in file, hash, zip directory, zip data; truncated tables and files; advertised sizes / counts beyond the map; absurd sizes 2^40, 2^63, u64::MAX; tables / files ending at or beyond 2^64; counts 2^58, u64::MAX, largest addressable), for a subset of the small cases the failure of each device command (<= 24 indices per case), repeated calls, histories in which the device edits its manifest table between the calls on one handle; non-trivial = genapi returned a non-empty document; distinct by request hash",
    );
    let mut rng = Rng::new(args.seed);

    if let Some(path) = &args.replay {
        let v: Value = serde_json::from_str(&std::fs::read_to_string(path).unwrap()).unwrap();
        let case = Case::from_json(&v["replay"]);
        run_case(&mut rep, &case, "replay");
        rep.write(&args);
        return;
    }

    // minimised past failures first
    if let Ok(dir) = std::fs::read_dir("/verif/corpus/C14") {
        let mut files: Vec<_> = dir.filter_map(|e| e.ok()).map(|e| e.path()).filter(|p| p.extension().map_or(false, |x| x == "json")).collect();
        files.sort();
        for f in files {
            if let Ok(v) = serde_json::from_str::<Value>(&std::fs::read_to_string(&f).unwrap_or_default()) {
                if v["replay"].is_object() {
                    run_case(&mut rep, &Case::from_json(&v["replay"]), "corpus");
                }
            }
        }
    }

    // sparse hash sweep (deterministic): a hash field that is zero except for ONE byte, at each of
    // the 20 positions, is a wrong hash (never "no hash"); retrieval must fail with a mismatch
    for pos in 0..20usize {
        let text = xml_text(&mut rng, 300 + pos);
        let mut hash = [0u8; 20];
        hash[pos] = if pos % 2 == 0 { 0x80 } else { 0x01 };
        let file_addr = 0x4000_0000u64;
        let mt_addr = MT_SLOT;
        let mut mt = 1u64.to_le_bytes().to_vec();
        mt.extend_from_slice(&entry_bytes(&EntrySpec { version: 0x0102_0003, info: 0, addr: file_addr, size: text.len() as u64, hash }));
        let c = Case {
            regions: vec![
                abrm_region(0, 200, mt_addr, 0x2_0000),
                sbrm_region(0x2_0000, 1, 1024, 1024, 0x3_0000),
                Region { base: mt_addr, data: mt },
                Region { base: file_addr, data: text },
            ],
            mt_addr,
            max_ack: 1024,
            ops: vec![None],
            updates: vec![],
        };
        run_case(&mut rep, &c, "sparse-hash");
    }

    // files around / beyond the 1 MiB growth step of the XML buffer (second and third iteration
    // of the read loop), plain, with hash, one negotiated acknowledge length each
    let step = 1usize << 20;
    let big: Vec<(usize, u32)> = if args.thorough() {
        vec![(step - 1, 65548), (step, 1024), (step + 1, 65548), (2 * step, u32::MAX), (2 * step + 70_001, 65548), (3 * step + 5, 4096)]
    } else {
        vec![(step, 65548), (step + 1, u32::MAX), (2 * step + 70_001, 65548)]
    };
    for (len, max_ack) in big {
        let text = xml_text(&mut rng, len);
        let mut hash = [0u8; 20];
        hash.copy_from_slice(&sha1_of(&text));
        let file_addr = 0x4000_0000u64;
        let mt_addr = MT_SLOT;
        let mut mt = 1u64.to_le_bytes().to_vec();
        mt.extend_from_slice(&entry_bytes(&EntrySpec { version: 0x0102_0003, info: 0, addr: file_addr, size: len as u64, hash }));
        let c = Case {
            regions: vec![
                abrm_region(0, 200, mt_addr, 0x2_0000),
                sbrm_region(0x2_0000, 1, 1024, max_ack, 0x3_0000),
                Region { base: mt_addr, data: mt },
                Region { base: file_addr, data: text },
            ],
            mt_addr,
            max_ack,
            ops: vec![None],
            updates: vec![],
        };
        run_case(&mut rep, &c, "beyond-one-growth-step");
    }

    // files whose k-th growth step ends exactly at 2^64 while the advertised size goes on: the
    // address of the next step leaves the address space (must be an error; bytes that a wrapped
    // address would find at address 0 are mapped so that a wrong document would surface).
    // Randomised: number of full steps before the boundary, excess, acknowledge length, hash.
    for _ in 0..(if args.thorough() { 6 } else { 2 }) {
        let k = 1 + rng.below(2) as usize;
        let len = k * step;
        let text = xml_text(&mut rng, len);
        let file_addr = (u64::MAX - len as u64).wrapping_add(1);
        let mt_addr = MT_SLOT + 8 * rng.below(32);
        let excess = 1 + rng.below(0x100);
        let max_ack = *rng.pick(&[4096u32, 65548, u32::MAX]);
        let mut hash = [0u8; 20];
        if rng.bool() {
            // hash of what a wrapping implementation would assemble
            let mut wrapped = text.clone();
            wrapped.extend(std::iter::repeat(b'z').take(excess as usize));
            hash.copy_from_slice(&sha1_of(&wrapped));
        }
        let mut mt = 1u64.to_le_bytes().to_vec();
        mt.extend_from_slice(&entry_bytes(&EntrySpec { version: 0x0102_0003, info: 0, addr: file_addr, size: len as u64 + excess, hash }));
        let c = Case {
            regions: vec![
                Region { base: 0, data: vec![b'z'; 0x100] },
                abrm_region(0, 200, mt_addr, 0x2_0000),
                sbrm_region(0x2_0000, 1, 1024, max_ack, 0x3_0000),
                Region { base: mt_addr, data: mt },
                Region { base: file_addr, data: text },
            ],
            mt_addr,
            max_ack,
            ops: vec![None],
            updates: vec![],
        };
        run_case(&mut rep, &c, "growth-step-leaves-address-space");
    }

    // histories: the manifest table changes between calls on one handle
    for _ in 0..(if args.thorough() { 4_000 } else { 500 }) {
        if let Some(c) = gen_update_case(&mut rng, args.thorough()) {
            run_case(&mut rep, &c, "table-changes-between-calls");
        }
    }

    let rounds = if args.thorough() { 30_000 } else { 3_000 };
    for i in 0..rounds {
        let c = gen_case(&mut rng, args.thorough());
        let n = run_case(&mut rep, &c, "random");
        let every = if args.thorough() { 6 } else { 8 };
        let total: usize = c.regions.iter().map(|r| r.data.len()).sum();
        if i % every == 0 && total < 12_000 {
            // failure of each command (all of them when few, a sample otherwise), then a retry
            let ks: Vec<usize> = if n <= 24 { (0..=n).collect() } else { (0..24).map(|_| rng.below(n as u64 + 1) as usize).collect() };
            for k in ks {
                let mut cf = c.clone();
                cf.ops = vec![Some(gen_fault(&mut rng, k)), None];
                run_case(&mut rep, &cf, "fault-each-step");
            }
        }
        if rep.evaluations % 2_000 == 0 {
            rep.flush_model(&args.camdrv);
        }
    }
    rep.write(&args);
}
