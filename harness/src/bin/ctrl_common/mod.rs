//! Scripted in-memory USB3 Vision device behind `cameleon_device::u3v::verif::VerifUsb`
//! (shared by the C06 / C07 / C14 / C15 harness bins; owner: C06/C07).
//!
//! * `SparseMem`       device memory image (pattern-filled, paged overlay, 64-bit wrap aware)
//! * `Bootstrap`       ABRM / SBRM registers at configurable addresses (`install` writes them)
//! * `DevCfg`          enforced limits, pending plan, fault plan, open-path faults
//! * `FakeUsb`         the `VerifUsb` implementation: a GenCP-conforming device (decodes every
//!                     command with an independent decoder, answers ReadMem / WriteMem, sends
//!                     `plan` many pending acks first) whose answers the fault plan may corrupt
//! * `Wire` / `Access` full wire log and device-side access log
//! * `decode_cmd` / `decode_ack`  independent offset-based packet decoders (written from the
//!                     USB3 Vision layout, nothing shared with `/repo`)
//!
//! Include with `#[path = "ctrl_common/mod.rs"] mod ctrl_common;`.
//! The public API below is kept stable.
#![allow(dead_code)]

use std::collections::{BTreeMap, BTreeSet, HashMap};
use std::sync::{Arc, Mutex};
use std::time::Duration;

pub use cameleon::u3v::ControlHandle;
pub use cameleon_device::u3v::verif::{VerifPoll, VerifUsb};
pub use cameleon_device::u3v::{
    BusSpeed, ControlIfaceInfo, Device, DeviceInfo, LibUsbError, ReceiveIfaceInfo,
};

pub const CTRL_IFACE: u8 = 0;
pub const EP_CTRL_IN: u8 = 0x81;
pub const EP_CTRL_OUT: u8 = 0x01;
pub const STREAM_IFACE: u8 = 2;
pub const EP_STREAM_IN: u8 = 0x83;

pub const MAGIC: u32 = 0x4356_3355;

/// more receives for one command than any u16 retry count allows
pub const RUNAWAY_RECVS: u32 = 70_000;

/* ------------------------------------------------------------------------- */
/* libusb error kinds (copyable mirror of `LibUsbError`)                     */
/* ------------------------------------------------------------------------- */

#[derive(Clone, Copy, Debug, PartialEq, Eq, PartialOrd, Ord)]
pub enum UsbErr {
    Io,
    InvalidParam,
    Access,
    NoDevice,
    NotFound,
    Busy,
    Timeout,
    Overflow,
    Pipe,
    Interrupted,
    NoMem,
    NotSupported,
    BadDescriptor,
    Other,
}

impl UsbErr {
    pub const ALL: [UsbErr; 14] = [
        UsbErr::Io,
        UsbErr::InvalidParam,
        UsbErr::Access,
        UsbErr::NoDevice,
        UsbErr::NotFound,
        UsbErr::Busy,
        UsbErr::Timeout,
        UsbErr::Overflow,
        UsbErr::Pipe,
        UsbErr::Interrupted,
        UsbErr::NoMem,
        UsbErr::NotSupported,
        UsbErr::BadDescriptor,
        UsbErr::Other,
    ];
    pub fn name(self) -> &'static str {
        match self {
            UsbErr::Io => "Io",
            UsbErr::InvalidParam => "InvalidParam",
            UsbErr::Access => "Access",
            UsbErr::NoDevice => "NoDevice",
            UsbErr::NotFound => "NotFound",
            UsbErr::Busy => "Busy",
            UsbErr::Timeout => "Timeout",
            UsbErr::Overflow => "Overflow",
            UsbErr::Pipe => "Pipe",
            UsbErr::Interrupted => "Interrupted",
            UsbErr::NoMem => "NoMem",
            UsbErr::NotSupported => "NotSupported",
            UsbErr::BadDescriptor => "BadDescriptor",
            UsbErr::Other => "Other",
        }
    }
    pub fn from_name(s: &str) -> Option<UsbErr> {
        UsbErr::ALL.iter().copied().find(|e| e.name() == s)
    }
    pub fn to_lib(self) -> LibUsbError {
        match self {
            UsbErr::Io => LibUsbError::Io,
            UsbErr::InvalidParam => LibUsbError::InvalidParam,
            UsbErr::Access => LibUsbError::Access,
            UsbErr::NoDevice => LibUsbError::NoDevice,
            UsbErr::NotFound => LibUsbError::NotFound,
            UsbErr::Busy => LibUsbError::Busy,
            UsbErr::Timeout => LibUsbError::Timeout,
            UsbErr::Overflow => LibUsbError::Overflow,
            UsbErr::Pipe => LibUsbError::Pipe,
            UsbErr::Interrupted => LibUsbError::Interrupted,
            UsbErr::NoMem => LibUsbError::NoMem,
            UsbErr::NotSupported => LibUsbError::NotSupported,
            UsbErr::BadDescriptor => LibUsbError::BadDescriptor,
            UsbErr::Other => LibUsbError::Other,
        }
    }
    /// `ControlError` variant the host must report for this transport error
    /// (independent transcription of the documented mapping: busy -> Busy, device gone ->
    /// Disconnected, timeout -> Timeout, everything else -> Io).
    pub fn control_error_name(self) -> &'static str {
        match self {
            UsbErr::Busy => "Busy",
            UsbErr::NoDevice | UsbErr::NotFound => "Disconnected",
            UsbErr::Timeout => "Timeout",
            _ => "Io",
        }
    }
}

/// Variant name of a `ControlError` (canonical form compared with the model).
pub fn control_error_name(e: &cameleon::ControlError) -> &'static str {
    use cameleon::ControlError::*;
    match e {
        Busy => "Busy",
        Disconnected => "Disconnected",
        Io(_) => "Io",
        Timeout => "Timeout",
        NotOpened => "NotOpened",
        InvalidDevice(_) => "InvalidDevice",
        BufferTooSmall => "BufferTooSmall",
        InvalidData(_) => "InvalidData",
    }
}

/* ------------------------------------------------------------------------- */
/* Memory image                                                              */
/* ------------------------------------------------------------------------- */

const PAGE: u64 = 4096;

/// Device memory: every address of the 64-bit space holds `default_byte(addr)` until written.
pub struct SparseMem {
    pages: HashMap<u64, Box<[u8; PAGE as usize]>>,
    pub seed: u64,
}

impl SparseMem {
    pub fn new(seed: u64) -> Self {
        SparseMem { pages: HashMap::new(), seed }
    }
    /// Content of a never-written address (shared with the Lean driver).
    pub fn default_byte(&self, addr: u64) -> u8 {
        ((addr % 251 + (addr / 251) % 7 * 3 + self.seed) % 256) as u8
    }
    pub fn get(&self, addr: u64) -> u8 {
        match self.pages.get(&(addr / PAGE)) {
            Some(p) => p[(addr % PAGE) as usize],
            None => self.default_byte(addr),
        }
    }
    pub fn set(&mut self, addr: u64, v: u8) {
        let seed = self.seed;
        let page = self.pages.entry(addr / PAGE).or_insert_with(|| {
            let base = (addr / PAGE) * PAGE;
            let mut p = Box::new([0u8; PAGE as usize]);
            for i in 0..PAGE {
                let a = base + i;
                p[i as usize] = ((a % 251 + (a / 251) % 7 * 3 + seed) % 256) as u8;
            }
            p
        });
        page[(addr % PAGE) as usize] = v;
    }
    /// `len` bytes starting at `addr` (addresses wrap modulo 2^64).
    pub fn read(&self, addr: u64, len: usize) -> Vec<u8> {
        (0..len as u64).map(|i| self.get(addr.wrapping_add(i))).collect()
    }
    pub fn write(&mut self, addr: u64, data: &[u8]) {
        for (i, b) in data.iter().enumerate() {
            self.set(addr.wrapping_add(i as u64), *b);
        }
    }
    pub fn write_u32(&mut self, addr: u64, v: u32) {
        self.write(addr, &v.to_le_bytes());
    }
    pub fn write_u64(&mut self, addr: u64, v: u64) {
        self.write(addr, &v.to_le_bytes());
    }
    pub fn read_u32(&self, addr: u64) -> u32 {
        let b = self.read(addr, 4);
        u32::from_le_bytes([b[0], b[1], b[2], b[3]])
    }
    pub fn read_u64(&self, addr: u64) -> u64 {
        let b = self.read(addr, 8);
        let mut a = [0u8; 8];
        a.copy_from_slice(&b);
        u64::from_le_bytes(a)
    }
    /// Addresses whose content differs from the initial pattern (sorted).
    pub fn modified(&self) -> Vec<(u64, u8)> {
        let mut out = vec![];
        for (pg, p) in &self.pages {
            for i in 0..PAGE {
                let a = pg * PAGE + i;
                if p[i as usize] != self.default_byte(a) {
                    out.push((a, p[i as usize]));
                }
            }
        }
        out.sort();
        out
    }
}

/* ------------------------------------------------------------------------- */
/* Bootstrap registers (USB3 Vision 1.x register tables, written from the standard) */
/* ------------------------------------------------------------------------- */

pub mod regs {
    // ABRM (absolute addresses)
    pub const ABRM_GENCP_VERSION: u64 = 0x0000;
    pub const ABRM_DEVICE_CAPABILITY: u64 = 0x01C4; // 8
    pub const ABRM_MAX_DEVICE_RESPONSE_TIME: u64 = 0x01CC; // 4, ms
    pub const ABRM_MANIFEST_TABLE_ADDRESS: u64 = 0x01D0; // 8
    pub const ABRM_SBRM_ADDRESS: u64 = 0x01D8; // 8
    pub const ABRM_DEVICE_CONFIGURATION: u64 = 0x01E0; // 8
    // SBRM (offsets)
    pub const SBRM_U3V_VERSION: u64 = 0x0000; // 4
    pub const SBRM_U3VCP_CAPABILITY: u64 = 0x0004; // 8
    pub const SBRM_U3VCP_CONFIGURATION: u64 = 0x000C; // 8
    pub const SBRM_MAX_CMD_TRANSFER_LENGTH: u64 = 0x0014; // 4
    pub const SBRM_MAX_ACK_TRANSFER_LENGTH: u64 = 0x0018; // 4
    pub const SBRM_NUMBER_OF_STREAM_CHANNELS: u64 = 0x001C; // 4
    pub const SBRM_SIRM_ADDRESS: u64 = 0x0020; // 8
    pub const SBRM_SIRM_LENGTH: u64 = 0x0028; // 4
    pub const SBRM_EIRM_ADDRESS: u64 = 0x002C; // 8
    pub const SBRM_EIRM_LENGTH: u64 = 0x0034; // 4
    pub const SBRM_CURRENT_SPEED: u64 = 0x0040; // 4
    // SIRM (offsets)
    pub const SIRM_SI_INFO: u64 = 0x0000; // 4
    pub const SIRM_SI_CONTROL: u64 = 0x0004; // 4
    pub const SIRM_REQUIRED_PAYLOAD_SIZE: u64 = 0x0008; // 8
    pub const SIRM_REQUIRED_LEADER_SIZE: u64 = 0x0010; // 4
    pub const SIRM_REQUIRED_TRAILER_SIZE: u64 = 0x0014; // 4
    pub const SIRM_MAXIMUM_LEADER_SIZE: u64 = 0x0018; // 4
    pub const SIRM_PAYLOAD_TRANSFER_SIZE: u64 = 0x001C; // 4
    pub const SIRM_PAYLOAD_TRANSFER_COUNT: u64 = 0x0020; // 4
    pub const SIRM_PAYLOAD_FINAL_TRANSFER1_SIZE: u64 = 0x0024; // 4
    pub const SIRM_PAYLOAD_FINAL_TRANSFER2_SIZE: u64 = 0x0028; // 4
    pub const SIRM_MAXIMUM_TRAILER_SIZE: u64 = 0x002C; // 4
    // Manifest table: u64 entry count at +0, 64-byte entries from +8
    pub const MANIFEST_ENTRY_SIZE: u64 = 64;
    pub const ENTRY_FILE_VERSION: u64 = 0x00; // 4
    pub const ENTRY_FILE_FORMAT_INFO: u64 = 0x04; // 4
    pub const ENTRY_REGISTER_ADDRESS: u64 = 0x08; // 8
    pub const ENTRY_FILE_SIZE: u64 = 0x10; // 8
    pub const ENTRY_SHA1_HASH: u64 = 0x18; // 20
}

/// Values of the bootstrap registers that the control handle consults.
#[derive(Clone, Debug)]
pub struct Bootstrap {
    pub sbrm_addr: u64,
    pub sirm_addr: u64,
    pub manifest_addr: u64,
    pub max_cmd: u32,
    pub max_ack: u32,
    pub response_time_ms: u32,
    /// ABRM device capability (bit 0 user defined name, bit 8 family name, ...).
    pub device_capability: u64,
    /// SBRM U3VCP capability (bit 0: SIRM available, bit 1: EIRM available).
    pub u3v_capability: u64,
}

impl Default for Bootstrap {
    fn default() -> Self {
        Bootstrap {
            sbrm_addr: 0x1_0000,
            sirm_addr: 0x2_0000,
            manifest_addr: 0x3_0000,
            max_cmd: 1024,
            max_ack: 1024,
            response_time_ms: 1,
            device_capability: 0,
            u3v_capability: 0b1,
        }
    }
}

impl Bootstrap {
    /// Write the registers into the memory image.
    pub fn install(&self, mem: &mut SparseMem) {
        mem.write_u32(regs::ABRM_GENCP_VERSION, 0x0001_0001);
        mem.write_u64(regs::ABRM_DEVICE_CAPABILITY, self.device_capability);
        mem.write_u32(regs::ABRM_MAX_DEVICE_RESPONSE_TIME, self.response_time_ms);
        mem.write_u64(regs::ABRM_MANIFEST_TABLE_ADDRESS, self.manifest_addr);
        mem.write_u64(regs::ABRM_SBRM_ADDRESS, self.sbrm_addr);
        let s = self.sbrm_addr;
        mem.write_u32(s.wrapping_add(regs::SBRM_U3V_VERSION), 0x0001_0000);
        mem.write_u64(s.wrapping_add(regs::SBRM_U3VCP_CAPABILITY), self.u3v_capability);
        mem.write_u32(s.wrapping_add(regs::SBRM_MAX_CMD_TRANSFER_LENGTH), self.max_cmd);
        mem.write_u32(s.wrapping_add(regs::SBRM_MAX_ACK_TRANSFER_LENGTH), self.max_ack);
        mem.write_u32(s.wrapping_add(regs::SBRM_NUMBER_OF_STREAM_CHANNELS), 1);
        mem.write_u64(s.wrapping_add(regs::SBRM_SIRM_ADDRESS), self.sirm_addr);
        mem.write_u32(s.wrapping_add(regs::SBRM_SIRM_LENGTH), 0x30);
    }
}

/* ------------------------------------------------------------------------- */
/* Independent packet decoders                                               */
/* ------------------------------------------------------------------------- */

pub fn le(b: &[u8]) -> u64 {
    b.iter().rev().fold(0u64, |a, x| (a << 8) | *x as u64)
}

#[derive(Clone, Debug, PartialEq, Eq)]
pub enum CmdBody {
    ReadMem { address: u64, len: u16 },
    WriteMem { address: u64, data: Vec<u8> },
    /// a command id this device does not implement (stacked commands etc.)
    Other { kind: u16 },
}

#[derive(Clone, Debug, PartialEq, Eq)]
pub struct CmdInfo {
    pub flags: u16,
    pub kind: u16,
    pub scd_len: u16,
    pub request_id: u16,
    pub body: CmdBody,
}

/// Decode a complete command packet from the wire layout; `None` = malformed.
pub fn decode_cmd(b: &[u8]) -> Option<CmdInfo> {
    if b.len() < 12 || le(&b[0..4]) != MAGIC as u64 {
        return None;
    }
    let flags = le(&b[4..6]) as u16;
    let kind = le(&b[6..8]) as u16;
    let scd_len = le(&b[8..10]) as u16;
    let request_id = le(&b[10..12]) as u16;
    if b.len() != 12 + scd_len as usize {
        return None;
    }
    let body = match kind {
        0x0800 => {
            if scd_len != 12 || le(&b[20..22]) != 0 {
                return None;
            }
            CmdBody::ReadMem { address: le(&b[12..20]), len: le(&b[22..24]) as u16 }
        }
        0x0802 => {
            if scd_len < 8 {
                return None;
            }
            CmdBody::WriteMem { address: le(&b[12..20]), data: b[20..].to_vec() }
        }
        k => CmdBody::Other { kind: k },
    };
    Some(CmdInfo { flags, kind, scd_len, request_id, body })
}

#[derive(Clone, Debug, PartialEq, Eq)]
pub struct AckInfo {
    pub status: u16,
    pub kind: u16,
    pub scd_len: u16,
    pub request_id: u16,
    /// everything after the 12-byte header
    pub scd: Vec<u8>,
}

/// Decode the header of an acknowledge packet; `None` = shorter than a header / wrong magic.
pub fn decode_ack(b: &[u8]) -> Option<AckInfo> {
    if b.len() < 12 || le(&b[0..4]) != MAGIC as u64 {
        return None;
    }
    Some(AckInfo {
        status: le(&b[4..6]) as u16,
        kind: le(&b[6..8]) as u16,
        scd_len: le(&b[8..10]) as u16,
        request_id: le(&b[10..12]) as u16,
        scd: b[12..].to_vec(),
    })
}

pub fn build_ack(status: u16, kind: u16, request_id: u16, scd: &[u8]) -> Vec<u8> {
    let mut v = Vec::with_capacity(12 + scd.len());
    v.extend_from_slice(&MAGIC.to_le_bytes());
    v.extend_from_slice(&status.to_le_bytes());
    v.extend_from_slice(&kind.to_le_bytes());
    v.extend_from_slice(&(scd.len() as u16).to_le_bytes());
    v.extend_from_slice(&request_id.to_le_bytes());
    v.extend_from_slice(scd);
    v
}

pub const ACK_READ_MEM: u16 = 0x0801;
pub const ACK_WRITE_MEM: u16 = 0x0803;
pub const ACK_PENDING: u16 = 0x0805;
pub const STATUS_SUCCESS: u16 = 0x0000;
pub const STATUS_NOT_IMPLEMENTED: u16 = 0x8001;
pub const STATUS_INVALID_PARAMETER: u16 = 0x8002;
pub const STATUS_INVALID_ADDRESS: u16 = 0x8003;

/* ------------------------------------------------------------------------- */
/* Fault plan                                                                */
/* ------------------------------------------------------------------------- */

/// One deviation from conforming behaviour, attached to a transaction index (the n-th
/// command the host attempts to send, counted from 0 over the lifetime of the device,
/// see `DevState::txn`).  Packet mutations apply to the final (non-pending) ack unless
/// wrapped in `OnPending`.
#[derive(Clone, Debug, PartialEq, Eq)]
pub enum Fault {
    /// `write_bulk` fails; the command does not reach the device.
    SendErr(UsbErr),
    /// `write_bulk` reports this error although the device received the command (and answers).
    SendErrDelivered(UsbErr),
    /// the `nth` (0-based) `read_bulk` of this transaction fails; the packet that would have
    /// been delivered is lost.
    RecvErr { nth: u32, err: UsbErr },
    /// number of pending acks sent first (overrides the plan); `u64::MAX` = endless.
    Pendings(u64),
    /// keep only the first `n` bytes.
    Truncate(usize),
    /// append `n` filler bytes (header fields untouched).
    Append(usize),
    /// xor the byte at `off` (ignored when out of range).
    XorByte { off: usize, mask: u8 },
    Magic(u32),
    /// request id := id + delta (mod 2^16)
    ReqIdDelta(u16),
    Status(u16),
    Kind(u16),
    /// overwrite the scd_len header field only.
    ScdLenField(u16),
    /// resize the SCD to `n` bytes (filler) and keep the scd_len field consistent.
    PayloadResize(usize),
    /// WriteMem ack: report this written length.
    WrittenLen(u16),
    /// WriteMem / pending ack: set the reserved u16.
    Reserved(u16),
    /// replace the packet by these bytes.
    Raw(Vec<u8>),
    /// no final ack (reads time out).
    NoAck,
    /// the device is slower than the host's timeout: the receive that would deliver the final
    /// ack times out once, the ack arrives afterwards (it stays in the pipe).
    LateAck,
    /// apply the inner packet mutation to the `k`-th pending ack of this transaction.
    OnPending(u64, Box<Fault>),
}

#[derive(Clone, Debug, Default)]
pub struct DevCfg {
    /// limits the device enforces (`None`: no limit).  Commands longer than `max_cmd`, or
    /// reads whose ack would exceed `max_ack`, are answered with INVALID_PARAMETER and
    /// recorded in `DevState::host_errors`.
    pub max_cmd: Option<u32>,
    pub max_ack: Option<u32>,
    /// transaction i is preceded by `pending_plan[i % len]` pending acks (empty: none).
    pub pending_plan: Vec<u16>,
    /// timeout announced in pending acks (the host sleeps that long: keep 0 or 1).
    pub pending_timeout_ms: u16,
    pub faults: BTreeMap<u64, Vec<Fault>>,
    /// open path: error of claim_interface / of the n-th write_control / n-th clear_halt /
    /// release_interface.
    pub claim_err: Option<UsbErr>,
    pub control_err: Option<(u32, UsbErr)>,
    pub clear_halt_err: Option<(u32, UsbErr)>,
    pub release_err: Option<UsbErr>,
}

/* ------------------------------------------------------------------------- */
/* Logs                                                                      */
/* ------------------------------------------------------------------------- */

#[derive(Clone, Debug, PartialEq, Eq)]
pub enum Wire {
    Claim(u8, Option<UsbErr>),
    Release(u8, Option<UsbErr>),
    ClearHalt(u8, Option<UsbErr>),
    Control { request_type: u8, request: u8, value: u16, index: u16, timeout_ms: u64, err: Option<UsbErr> },
    /// bytes handed to `write_bulk` (also when the fault plan makes it fail) and its timeout.
    Send { data: Vec<u8>, timeout_ms: u64, err: Option<UsbErr> },
    /// `read_bulk` with a buffer of `buf_len` bytes and its timeout.
    Recv { buf_len: usize, timeout_ms: u64, res: Result<Vec<u8>, UsbErr> },
}

#[derive(Clone, Debug, PartialEq, Eq)]
pub struct Access {
    pub write: bool,
    pub address: u64,
    pub data: Vec<u8>,
}

/* ------------------------------------------------------------------------- */
/* The device                                                                */
/* ------------------------------------------------------------------------- */

#[derive(Default)]
struct Responses {
    n_pending: u64,
    sent: u64,
    pending_pkt: Vec<u8>,
    pending_override: BTreeMap<u64, Vec<u8>>,
    final_pkt: Option<Vec<u8>>,
    recv_errs: BTreeMap<u32, UsbErr>,
    n_recv: u32,
    /// the receive that would deliver the final ack times out once; the ack stays queued
    late_final: bool,
}

pub struct DevState {
    pub mem: SparseMem,
    pub cfg: DevCfg,
    pub wire: Vec<Wire>,
    /// keep the wire log (switch off for very long runs).
    pub log_wire: bool,
    pub access: Vec<Access>,
    pub log_access: bool,
    /// number of commands the host attempted to send so far (= index of the next one).
    pub txn: u64,
    /// number of `read_bulk` calls on the control endpoint.
    pub recvs: u64,
    /// what a conforming host must never do (malformed command, limit exceeded, ...).
    pub host_errors: Vec<String>,
    pub claimed: BTreeSet<u8>,
    /// set when the host polled one command more than `RUNAWAY_RECVS` times (an unbounded
    /// retry loop); the device then reports `NoDevice` to break the loop.
    pub runaway: bool,
    /// set when the host started a bulk-in transfer with a timeout of 0 ms (= UNLIMITED for
    /// libusb; rusb passes `as_millis() as c_uint`) while the device had nothing to deliver: a
    /// real host would block forever.  The fake reports `NoDevice` so that the run continues.
    pub host_blocked: bool,
    n_control: u32,
    n_clear_halt: u32,
    /// packets of EARLIER commands the host has not fetched yet: the bulk-in pipe is a FIFO,
    /// a new command does not make them disappear (only clear_halt flushes)
    pipe: std::collections::VecDeque<Vec<u8>>,
    resp: Responses,
}

pub struct FakeUsb {
    pub st: Mutex<DevState>,
}

/// timeout handed to the transport, in whole milliseconds (saturating)
pub fn dur_ms(d: Duration) -> u64 {
    d.as_millis().min(u64::MAX as u128) as u64
}

fn filler(i: usize) -> u8 {
    (0xA5usize.wrapping_add(i * 3) % 256) as u8
}

fn mutate(pkt: &mut Vec<u8>, f: &Fault) {
    let set16 = |pkt: &mut Vec<u8>, off: usize, v: u16| {
        if pkt.len() >= off + 2 {
            pkt[off..off + 2].copy_from_slice(&v.to_le_bytes());
        }
    };
    match f {
        Fault::Truncate(n) => pkt.truncate(*n),
        Fault::Append(n) => {
            for i in 0..*n {
                pkt.push(filler(i));
            }
        }
        Fault::XorByte { off, mask } => {
            if *off < pkt.len() {
                pkt[*off] ^= mask;
            }
        }
        Fault::Magic(m) => {
            if pkt.len() >= 4 {
                pkt[0..4].copy_from_slice(&m.to_le_bytes());
            }
        }
        Fault::ReqIdDelta(d) => {
            if pkt.len() >= 12 {
                let id = le(&pkt[10..12]) as u16;
                set16(pkt, 10, id.wrapping_add(*d));
            }
        }
        Fault::Status(s) => set16(pkt, 4, *s),
        Fault::Kind(k) => set16(pkt, 6, *k),
        Fault::ScdLenField(l) => set16(pkt, 8, *l),
        Fault::PayloadResize(n) => {
            if pkt.len() >= 12 {
                let old = pkt.len() - 12;
                pkt.truncate(12 + (*n).min(old));
                for i in old..*n {
                    pkt.push(filler(i));
                }
                set16(pkt, 8, *n as u16);
            }
        }
        Fault::WrittenLen(l) => set16(pkt, 14, *l),
        Fault::Reserved(r) => set16(pkt, 12, *r),
        Fault::Raw(b) => *pkt = b.clone(),
        _ => {}
    }
}

impl DevState {
    fn handle_command(&mut self, buf: &[u8]) {
        let idx = self.txn - 1;
        let faults: Vec<Fault> = self.cfg.faults.get(&idx).cloned().unwrap_or_default();
        self.retire_responses();
        let info = match decode_cmd(buf) {
            Some(i) => i,
            None => {
                self.host_errors.push(format!("txn {idx}: malformed command packet ({} bytes)", buf.len()));
                return; // a device cannot answer what it cannot parse: the host times out
            }
        };
        if info.flags != 0x4000 {
            self.host_errors.push(format!("txn {idx}: flags {:#06x} (REQUEST_ACK expected)", info.flags));
        }
        let id = info.request_id;
        let ack_kind = info.kind | 1;
        let too_long_cmd = self.cfg.max_cmd.is_some_and(|m| buf.len() as u64 > m as u64);
        let mut final_pkt = if too_long_cmd {
            self.host_errors.push(format!("txn {idx}: command of {} bytes exceeds the maximum command length {}", buf.len(), self.cfg.max_cmd.unwrap()));
            build_ack(STATUS_INVALID_PARAMETER, ack_kind, id, &[])
        } else {
            match &info.body {
                CmdBody::ReadMem { address, len } => {
                    if self.cfg.max_ack.is_some_and(|m| 12 + *len as u64 > m as u64) {
                        self.host_errors.push(format!("txn {idx}: read of {len} bytes needs an ack longer than the maximum ack length {}", self.cfg.max_ack.unwrap()));
                        build_ack(STATUS_INVALID_PARAMETER, ack_kind, id, &[])
                    } else if (*address as u128) + (*len as u128) > 1u128 << 64 {
                        build_ack(STATUS_INVALID_ADDRESS, ack_kind, id, &[])
                    } else {
                        let data = self.mem.read(*address, *len as usize);
                        if self.log_access {
                            self.access.push(Access { write: false, address: *address, data: data.clone() });
                        }
                        build_ack(STATUS_SUCCESS, ACK_READ_MEM, id, &data)
                    }
                }
                CmdBody::WriteMem { address, data } => {
                    if self.cfg.max_ack.is_some_and(|m| 16 > m as u64) {
                        // the WriteMem ack (16 bytes) itself exceeds the limit: nothing the host
                        // could have done about it, not a host error.
                    }
                    if (*address as u128) + (data.len() as u128) > 1u128 << 64 {
                        build_ack(STATUS_INVALID_ADDRESS, ack_kind, id, &[])
                    } else {
                        self.mem.write(*address, data);
                        if self.log_access {
                            self.access.push(Access { write: true, address: *address, data: data.clone() });
                        }
                        let mut scd = vec![0u8, 0];
                        scd.extend_from_slice(&(data.len() as u16).to_le_bytes());
                        build_ack(STATUS_SUCCESS, ACK_WRITE_MEM, id, &scd)
                    }
                }
                CmdBody::Other { .. } => build_ack(STATUS_NOT_IMPLEMENTED, ack_kind, id, &[]),
            }
        };
        let mut n_pending = if self.cfg.pending_plan.is_empty() {
            0
        } else {
            self.cfg.pending_plan[(idx % self.cfg.pending_plan.len() as u64) as usize] as u64
        };
        let mut scd = vec![0u8, 0];
        scd.extend_from_slice(&self.cfg.pending_timeout_ms.to_le_bytes());
        let pending_pkt = build_ack(STATUS_SUCCESS, ACK_PENDING, id, &scd);
        let mut no_ack = false;
        let mut late_final = false;
        let mut pending_override = BTreeMap::new();
        let mut recv_errs = BTreeMap::new();
        for f in &faults {
            match f {
                Fault::SendErr(_) | Fault::SendErrDelivered(_) => {}
                Fault::RecvErr { nth, err } => {
                    recv_errs.insert(*nth, *err);
                }
                Fault::Pendings(n) => n_pending = *n,
                Fault::NoAck => no_ack = true,
                Fault::LateAck => late_final = true,
                Fault::OnPending(k, inner) => {
                    let e = pending_override.entry(*k).or_insert_with(|| pending_pkt.clone());
                    mutate(e, inner);
                }
                other => mutate(&mut final_pkt, other),
            }
        }
        // whatever the fault plan produced: a packet the host will read as a pending ack never
        // announces more than 1 ms (the host really sleeps that long; time is not under test)
        fn clamp_pending_timeout(p: &mut Vec<u8>) {
            if p.len() >= 16 && le(&p[6..8]) == ACK_PENDING as u64 && le(&p[14..16]) > 1 {
                p[14] = 1;
                p[15] = 0;
            }
        }
        clamp_pending_timeout(&mut final_pkt);
        for p in pending_override.values_mut() {
            clamp_pending_timeout(p);
        }
        self.resp = Responses {
            n_pending,
            sent: 0,
            pending_pkt,
            pending_override,
            final_pkt: if no_ack { None } else { Some(final_pkt) },
            recv_errs,
            n_recv: 0,
            late_final,
        };
    }

    /// A new command arrives (or the send failed): what the device had produced for the
    /// previous command and the host did not fetch stays in the bulk-in pipe.  (An endless
    /// stream of pending acks ends here: the device stops working on the old command.)
    fn retire_responses(&mut self) {
        let old = std::mem::take(&mut self.resp);
        let left = old.n_pending.saturating_sub(old.sent);
        if left <= 1000 {
            for k in old.sent..old.n_pending {
                self.pipe.push_back(old.pending_override.get(&k).cloned().unwrap_or_else(|| old.pending_pkt.clone()));
            }
            if let Some(f) = old.final_pkt {
                self.pipe.push_back(f);
            }
        }
    }

    /// Is the next packet the final ack of the current command (nothing older queued)?
    fn next_is_final(&self) -> bool {
        self.pipe.is_empty() && self.resp.sent >= self.resp.n_pending && self.resp.final_pkt.is_some()
    }

    fn next_packet(&mut self) -> Option<Vec<u8>> {
        if let Some(p) = self.pipe.pop_front() {
            return Some(p);
        }
        let r = &mut self.resp;
        if r.sent < r.n_pending {
            let k = r.sent;
            r.sent += 1;
            return Some(r.pending_override.get(&k).cloned().unwrap_or_else(|| r.pending_pkt.clone()));
        }
        r.final_pkt.take()
    }

    /// packets the device has produced and the host has not fetched (oldest first); an
    /// endless stream of pending acks is reported as its first 1000
    pub fn unfetched(&self) -> Vec<Vec<u8>> {
        let mut v: Vec<Vec<u8>> = self.pipe.iter().cloned().collect();
        let r = &self.resp;
        for k in r.sent..r.n_pending.min(r.sent.saturating_add(1000)) {
            v.push(r.pending_override.get(&k).cloned().unwrap_or_else(|| r.pending_pkt.clone()));
        }
        if let Some(f) = &r.final_pkt {
            v.push(f.clone());
        }
        v
    }

    /// Take (and clear) the wire log.
    pub fn take_wire(&mut self) -> Vec<Wire> {
        std::mem::take(&mut self.wire)
    }
    pub fn take_access(&mut self) -> Vec<Access> {
        std::mem::take(&mut self.access)
    }
    pub fn take_host_errors(&mut self) -> Vec<String> {
        std::mem::take(&mut self.host_errors)
    }
}

impl FakeUsb {
    pub fn new(mem: SparseMem, cfg: DevCfg) -> Arc<FakeUsb> {
        Arc::new(FakeUsb {
            st: Mutex::new(DevState {
                mem,
                cfg,
                wire: vec![],
                log_wire: true,
                access: vec![],
                log_access: true,
                txn: 0,
                recvs: 0,
                host_errors: vec![],
                claimed: BTreeSet::new(),
                runaway: false,
                host_blocked: false,
                n_control: 0,
                n_clear_halt: 0,
                pipe: std::collections::VecDeque::new(),
                resp: Responses::default(),
            }),
        })
    }

    /// Conforming device whose enforced limits equal the advertised ones.
    pub fn conforming(seed: u64, boot: &Bootstrap) -> Arc<FakeUsb> {
        let mut mem = SparseMem::new(seed);
        boot.install(&mut mem);
        FakeUsb::new(
            mem,
            DevCfg { max_cmd: Some(boot.max_cmd), max_ack: Some(boot.max_ack), ..DevCfg::default() },
        )
    }

    pub fn lock(&self) -> std::sync::MutexGuard<'_, DevState> {
        self.st.lock().unwrap_or_else(|e| e.into_inner())
    }
}

impl VerifUsb for FakeUsb {
    fn claim_interface(&self, iface: u8) -> Result<(), LibUsbError> {
        let mut st = self.lock();
        let err = st.cfg.claim_err;
        if st.log_wire {
            st.wire.push(Wire::Claim(iface, err));
        }
        match err {
            Some(e) => Err(e.to_lib()),
            None => {
                st.claimed.insert(iface);
                Ok(())
            }
        }
    }

    fn release_interface(&self, iface: u8) -> Result<(), LibUsbError> {
        let mut st = self.lock();
        let err = st.cfg.release_err;
        if st.log_wire {
            st.wire.push(Wire::Release(iface, err));
        }
        match err {
            Some(e) => Err(e.to_lib()),
            None => {
                st.claimed.remove(&iface);
                Ok(())
            }
        }
    }

    fn read_bulk(&self, endpoint: u8, buf: &mut [u8], timeout: Duration) -> Result<usize, LibUsbError> {
        let mut st = self.lock();
        if endpoint != EP_CTRL_IN {
            return Err(LibUsbError::Timeout);
        }
        st.recvs += 1;
        let nth = st.resp.n_recv;
        st.resp.n_recv += 1;
        if nth > RUNAWAY_RECVS {
            st.runaway = true;
            if st.log_wire {
                let buf_len = buf.len();
                st.wire.push(Wire::Recv { buf_len, timeout_ms: dur_ms(timeout), res: Err(UsbErr::NoDevice) });
            }
            return Err(LibUsbError::NoDevice);
        }
        let res: Result<Vec<u8>, UsbErr> = if let Some(e) = st.resp.recv_errs.get(&nth).copied() {
            // a timed-out transfer moves no data: the packet stays queued; any other transfer
            // error loses the packet that was on its way
            if e != UsbErr::Timeout {
                let _lost = st.next_packet();
            }
            Err(e)
        } else if st.resp.late_final && st.next_is_final() && timeout.as_millis() != 0 {
            st.resp.late_final = false;
            Err(UsbErr::Timeout)
        } else {
            match st.next_packet() {
                None if timeout.as_millis() == 0 => {
                    st.host_blocked = true;
                    Err(UsbErr::NoDevice)
                }
                None => Err(UsbErr::Timeout),
                // a real bulk-in transfer that receives more than the buffer holds fails with
                // LIBUSB_ERROR_OVERFLOW; it never reports more bytes than the buffer has.
                Some(p) if p.len() > buf.len() => Err(UsbErr::Overflow),
                Some(p) => Ok(p),
            }
        };
        if let Ok(p) = &res {
            buf[..p.len()].copy_from_slice(p);
        }
        let out = match &res {
            Ok(p) => Ok(p.len()),
            Err(e) => Err(e.to_lib()),
        };
        if st.log_wire {
            let buf_len = buf.len();
            st.wire.push(Wire::Recv { buf_len, timeout_ms: dur_ms(timeout), res });
        }
        out
    }

    fn write_bulk(&self, endpoint: u8, buf: &[u8], timeout: Duration) -> Result<usize, LibUsbError> {
        let mut st = self.lock();
        if endpoint != EP_CTRL_OUT {
            return Err(LibUsbError::Pipe);
        }
        let idx = st.txn;
        st.txn += 1;
        let send_err = st.cfg.faults.get(&idx).and_then(|fs| {
            fs.iter().find_map(|f| if let Fault::SendErr(e) = f { Some(*e) } else { None })
        });
        let delivered_err = st.cfg.faults.get(&idx).and_then(|fs| {
            fs.iter().find_map(|f| if let Fault::SendErrDelivered(e) = f { Some(*e) } else { None })
        });
        if st.log_wire {
            st.wire.push(Wire::Send { data: buf.to_vec(), timeout_ms: dur_ms(timeout), err: send_err.or(delivered_err) });
        }
        if let Some(e) = send_err {
            st.retire_responses();
            return Err(e.to_lib());
        }
        st.handle_command(buf);
        if let Some(e) = delivered_err {
            return Err(e.to_lib());
        }
        Ok(buf.len())
    }

    fn clear_halt(&self, endpoint: u8) -> Result<(), LibUsbError> {
        let mut st = self.lock();
        let n = st.n_clear_halt;
        st.n_clear_halt += 1;
        let err = st.cfg.clear_halt_err.and_then(|(k, e)| (k == n).then_some(e));
        if st.log_wire {
            st.wire.push(Wire::ClearHalt(endpoint, err));
        }
        // clearing a halt flushes whatever the device still had queued
        st.resp = Responses::default();
        st.pipe.clear();
        err.map_or(Ok(()), |e| Err(e.to_lib()))
    }

    fn write_control(
        &self,
        request_type: u8,
        request: u8,
        value: u16,
        index: u16,
        _buf: &[u8],
        timeout: Duration,
    ) -> Result<usize, LibUsbError> {
        let mut st = self.lock();
        let n = st.n_control;
        st.n_control += 1;
        let err = st.cfg.control_err.and_then(|(k, e)| (k == n).then_some(e));
        if st.log_wire {
            st.wire.push(Wire::Control { request_type, request, value, index, timeout_ms: dur_ms(timeout), err });
        }
        err.map_or(Ok(0), |e| Err(e.to_lib()))
    }

    fn submit_bulk(&self, _endpoint: u8, _len: usize) -> Result<u64, LibUsbError> {
        Err(LibUsbError::NotSupported)
    }

    fn poll_bulk(&self, _id: u64, _timeout: Duration) -> VerifPoll {
        VerifPoll::Pending
    }

    fn cancel_bulk(&self, _id: u64) {}
}

/* ------------------------------------------------------------------------- */
/* Building the real handle on top of the fake                               */
/* ------------------------------------------------------------------------- */

pub fn device_info() -> DeviceInfo {
    DeviceInfo {
        gencp_version: semver::Version::new(1, 1, 0),
        u3v_version: semver::Version::new(1, 0, 0),
        guid: "VERI00000001".into(),
        vendor_name: "verif".into(),
        model_name: "scripted".into(),
        family_name: None,
        device_version: "1".into(),
        manufacturer_info: "".into(),
        serial_number: "0001".into(),
        user_defined_name: None,
        supported_speed: BusSpeed::SuperSpeed,
    }
}

pub fn make_device(usb: &Arc<FakeUsb>) -> Device {
    let usb: Arc<dyn VerifUsb> = usb.clone();
    Device::verif_new(
        usb,
        ControlIfaceInfo { iface_number: CTRL_IFACE, bulk_in_ep: EP_CTRL_IN, bulk_out_ep: EP_CTRL_OUT },
        None,
        Some(ReceiveIfaceInfo { iface_number: STREAM_IFACE, bulk_in_ep: EP_STREAM_IN }),
        device_info(),
    )
}

/// The REAL `cameleon::u3v::ControlHandle` talking to the scripted device (not yet opened).
pub fn make_handle(usb: &Arc<FakeUsb>) -> ControlHandle {
    let dev = make_device(usb);
    ControlHandle::verif_new(&dev).expect("verif_new")
}

/* ------------------------------------------------------------------------- */
/* Canonical digests shared with the Lean drivers (`Driver/Control.lean`)     */
/* ------------------------------------------------------------------------- */

const FNV_INIT_: u64 = 0xcbf2_9ce4_8422_2325;
fn fnv_b(mut h: u64, bs: &[u8]) -> u64 {
    for b in bs {
        h = (h ^ (*b as u64)).wrapping_mul(0x100_0000_01b3);
    }
    h
}
fn fnv_n(h: u64, n: u64) -> u64 {
    fnv_b(h, &n.to_le_bytes())
}

fn err_code(e: Option<UsbErr>) -> u64 {
    match e {
        None => 0,
        Some(e) => UsbErr::ALL.iter().position(|x| *x == e).unwrap() as u64 + 1,
    }
}

#[derive(Clone, Debug, Default, PartialEq, Eq)]
pub struct WireStat {
    pub sends: u64,
    pub recvs: u64,
    pub ctls: u64,
    /// pending acknowledges the host must have honoured (derived from the wire: a received
    /// packet with the current command's request id, status Success, kind PendingAck, reserved 0)
    pub sleeps: u64,
    /// sum of the time-outs those pending acknowledges announce
    pub sleep_ms: u64,
    pub hash: u64,
}

impl WireStat {
    pub fn show(&self) -> String {
        format!("s={} r={} c={} sl={}:{} log={:016x}", self.sends, self.recvs, self.ctls, self.sleeps, self.sleep_ms, self.hash)
    }
}

/// Digest of a wire log (same folding as `Driver.Ctl.logStat`).
pub fn wire_stat(wire: &[Wire]) -> WireStat {
    let mut st = WireStat { hash: FNV_INIT_, ..WireStat::default() };
    let mut cur_id: Option<u16> = None;
    for w in wire {
        match w {
            Wire::Send { data, .. } => cur_id = if data.len() >= 12 { Some(le(&data[10..12]) as u16) } else { None },
            Wire::Recv { res: Ok(p), .. } => {
                if let (Some(id), Some(a)) = (cur_id, decode_ack(p)) {
                    if a.request_id == id && a.status == STATUS_SUCCESS && a.kind == ACK_PENDING && a.scd_len >= 4 && a.scd.len() >= 4 && le(&a.scd[0..2]) == 0 {
                        st.sleeps += 1;
                        st.sleep_ms += le(&a.scd[2..4]);
                    }
                }
            }
            _ => {}
        }
        let h = st.hash;
        st.hash = match w {
            Wire::Send { data, timeout_ms, err } => {
                st.sends += 1;
                fnv_b(fnv_n(fnv_n(fnv_n(fnv_n(h, 1), *timeout_ms), err_code(*err)), data.len() as u64), data)
            }
            Wire::Recv { buf_len, timeout_ms, res: Ok(p) } => {
                st.recvs += 1;
                fnv_b(fnv_n(fnv_n(fnv_n(fnv_n(h, 2), *timeout_ms), *buf_len as u64), p.len() as u64), p)
            }
            Wire::Recv { buf_len, timeout_ms, res: Err(e) } => {
                st.recvs += 1;
                fnv_n(fnv_n(fnv_n(fnv_n(h, 3), *timeout_ms), *buf_len as u64), err_code(Some(*e)))
            }
            Wire::Claim(_, e) => {
                st.ctls += 1;
                fnv_n(fnv_n(fnv_n(fnv_n(h, 4), 0), err_code(*e)), 0)
            }
            Wire::Release(_, e) => {
                st.ctls += 1;
                fnv_n(fnv_n(fnv_n(fnv_n(h, 4), 1), err_code(*e)), 0)
            }
            Wire::Control { index, timeout_ms, err, .. } => {
                st.ctls += 1;
                let code = if *index == EP_CTRL_IN as u16 { 2 } else { 3 };
                fnv_n(fnv_n(fnv_n(fnv_n(h, 4), code), err_code(*err)), *timeout_ms)
            }
            Wire::ClearHalt(ep, e) => {
                st.ctls += 1;
                let code = if *ep == EP_CTRL_IN { 4 } else { 5 };
                fnv_n(fnv_n(fnv_n(fnv_n(h, 4), code), err_code(*e)), 0)
            }
        };
    }
    st
}

/// `count:hash` over all modified bytes in address order (same as `DrvMem.digest`).
pub fn mem_digest(mem: &SparseMem) -> String {
    let m = mem.modified();
    let mut h = FNV_INIT_;
    for (a, v) in &m {
        h = fnv_b(fnv_n(h, *a), &[*v]);
    }
    format!("{}:{:016x}", m.len(), h)
}

/// `poke` lines (address, bytes) reproducing every modified byte of the image.
pub fn mem_pokes(mem: &SparseMem) -> Vec<(u64, Vec<u8>)> {
    let mut out: Vec<(u64, Vec<u8>)> = vec![];
    for (a, v) in mem.modified() {
        match out.last_mut() {
            Some((s, bs)) if s.checked_add(bs.len() as u64) == Some(a) && bs.len() < 4096 => bs.push(v),
            _ => out.push((a, vec![v])),
        }
    }
    out
}

/// deterministic data pattern shared with the Lean drivers (`dataPattern`)
pub fn data_pattern(len: usize, seed: u64) -> Vec<u8> {
    (0..len).map(|i| ((i as u64 * 7 + seed * 13 + 3) % 256) as u8).collect()
}

pub fn data_digest(d: &[u8]) -> String {
    format!("n={} d={:016x}", d.len(), fnv_b(FNV_INIT_, d))
}

/// The transport's answers of a wire log as a replay script for the Lean driver `drv_c07`
/// (`S-`/`S!Err` send, `R=<hex>`/`R!Err` receive, `C-`/`C!Err` control request).
pub fn wire_script(wire: &[Wire]) -> String {
    fn hx(b: &[u8]) -> String {
        if b.is_empty() {
            return "-".into();
        }
        let mut s = String::with_capacity(b.len() * 2);
        for x in b {
            s.push_str(&format!("{:02x}", x));
        }
        s
    }
    let opt = |tag: char, e: &Option<UsbErr>| match e {
        None => format!("{tag}-"),
        Some(e) => format!("{tag}!{}", e.name()),
    };
    let mut out: Vec<String> = vec![];
    for w in wire {
        out.push(match w {
            Wire::Send { err, .. } => opt('S', err),
            Wire::Recv { res: Ok(p), .. } => format!("R={}", hx(p)),
            Wire::Recv { res: Err(e), .. } => format!("R!{}", e.name()),
            Wire::Claim(_, e) | Wire::Release(_, e) | Wire::ClearHalt(_, e) => opt('C', e),
            Wire::Control { err, .. } => opt('C', err),
        });
    }
    out.join(" ")
}
