//! C09 — command packet serialisation of `device/src/u3v/protocol/cmd.rs`.
//! Real constructors / `serialize` / `cmd_len` / `maximum_ack_len` vs the Lean model
//! (`CamVerif.Model.Cmd`), plus the property oracle (an independent offset-based
//! decoder written here from the U3V layout) evaluated on the implementation's bytes.

use camharness::*;
use cameleon_device::u3v::prelude::*;
use cameleon_device::u3v::protocol::cmd::{ReadMem, ReadMemStacked, WriteMem, WriteMemStacked};
use cameleon_device::u3v::Error;

fn err_name(e: &Error) -> &'static str {
    match e {
        Error::LibUsb(_) => "LibUsb",
        Error::InvalidPacket(_) => "InvalidPacket",
        Error::BufferIo(_) => "BufferIo",
        Error::InvalidDevice => "InvalidDevice",
    }
}

fn pattern(len: usize, seed: u64) -> Vec<u8> {
    (0..len)
        .map(|i| ((i as u64 * 7 + seed * 13 + 3) % 256) as u8)
        .collect()
}

// ---------------------------------------------------------------- case description

#[derive(Clone, Debug)]
enum Data {
    Pat(usize, u64),
    Hex(Vec<u8>),
}

impl Data {
    fn bytes(&self) -> Vec<u8> {
        match self {
            Data::Pat(n, s) => pattern(*n, *s),
            Data::Hex(v) => v.clone(),
        }
    }
    fn token(&self) -> String {
        match self {
            Data::Pat(n, s) => format!("p:{n}:{s}"),
            Data::Hex(v) => format!("h:{}", hex(v)),
        }
    }
    fn to_json(&self) -> Value {
        match self {
            Data::Pat(n, s) => json!({"pat": [n, s]}),
            Data::Hex(v) => json!({"hex": hex(v)}),
        }
    }
    fn from_json(v: &Value) -> Data {
        if let Some(p) = v.get("pat") {
            Data::Pat(p[0].as_u64().unwrap() as usize, p[1].as_u64().unwrap())
        } else {
            Data::Hex(unhex(v["hex"].as_str().unwrap()))
        }
    }
}

#[derive(Clone, Debug)]
enum Spec {
    Rm(u64, u16),
    Wm(u64, Data),
    Rms(Vec<(u64, u16)>),
    Wms(Vec<(u64, Data)>),
}

/// Which sink, relative to the command length reported by the implementation.
#[derive(Clone, Copy, Debug, PartialEq)]
enum Sink {
    Vec,
    Exact,
    Short(usize),
    Long(usize),
    Zero,
}

/// run-length groups of equal consecutive tokens
fn rle(toks: Vec<String>) -> Vec<(usize, String)> {
    let mut out: Vec<(usize, String)> = vec![];
    for t in toks {
        match out.last_mut() {
            Some((n, last)) if *last == t => *n += 1,
            _ => out.push((1, t)),
        }
    }
    out
}

/// request tokens with the compact form `rep:<n>:<entry>` for runs of >= 4 equal entries
fn rle_tokens(toks: Vec<String>) -> String {
    rle(toks)
        .into_iter()
        .flat_map(|(n, t)| if n >= 4 { vec![format!("rep:{n}:{t}")] } else { vec![t; n] })
        .collect::<Vec<_>>()
        .join(" ")
}

impl Spec {
    fn kind(&self) -> &'static str {
        match self {
            Spec::Rm(..) => "rm",
            Spec::Wm(..) => "wm",
            Spec::Rms(..) => "rms",
            Spec::Wms(..) => "wms",
        }
    }
    fn args(&self) -> String {
        match self {
            Spec::Rm(a, l) => format!("{a} {l}"),
            Spec::Wm(a, d) => format!("{a}:{}", d.token()),
            Spec::Rms(es) => rle_tokens(es.iter().map(|(a, l)| format!("{a}:{l}")).collect()),
            Spec::Wms(es) => rle_tokens(es.iter().map(|(a, d)| format!("{a}:{}", d.token())).collect()),
        }
    }
    fn to_json(&self) -> Value {
        match self {
            Spec::Rm(a, l) => json!({"kind": "rm", "address": a.to_string(), "len": l}),
            Spec::Wm(a, d) => json!({"kind": "wm", "address": a.to_string(), "data": d.to_json()}),
            // entries are [address, length | data, repeat count]
            Spec::Rms(es) => {
                let groups = rle(es.iter().map(|(a, l)| format!("{a}:{l}")).collect());
                let mut i = 0;
                let mut out = vec![];
                for (n, _) in groups {
                    out.push(json!([es[i].0.to_string(), es[i].1, n]));
                    i += n;
                }
                json!({"kind": "rms", "entries": out})
            }
            Spec::Wms(es) => {
                let groups = rle(es.iter().map(|(a, d)| format!("{a}:{}", d.token())).collect());
                let mut i = 0;
                let mut out = vec![];
                for (n, _) in groups {
                    out.push(json!([es[i].0.to_string(), es[i].1.to_json(), n]));
                    i += n;
                }
                json!({"kind": "wms", "entries": out})
            }
        }
    }
    fn from_json(v: &Value) -> Spec {
        let addr = |x: &Value| x.as_str().unwrap().parse::<u64>().unwrap();
        match v["kind"].as_str().unwrap() {
            "rm" => Spec::Rm(addr(&v["address"]), v["len"].as_u64().unwrap() as u16),
            "wm" => Spec::Wm(addr(&v["address"]), Data::from_json(&v["data"])),
            "rms" => Spec::Rms(
                v["entries"]
                    .as_array()
                    .unwrap()
                    .iter()
                    .flat_map(|e| vec![(addr(&e[0]), e[1].as_u64().unwrap() as u16); e[2].as_u64().unwrap_or(1) as usize])
                    .collect(),
            ),
            _ => Spec::Wms(
                v["entries"]
                    .as_array()
                    .unwrap()
                    .iter()
                    .flat_map(|e| vec![(addr(&e[0]), Data::from_json(&e[1])); e[2].as_u64().unwrap_or(1) as usize])
                    .collect(),
            ),
        }
    }
}

// ---------------------------------------------------------------- implementation side

#[derive(Debug)]
struct SinkOut {
    cap: usize,
    /// Ok(bytes written) or error class
    res: Result<Vec<u8>, &'static str>,
    /// bytes of the slice after the written part were left untouched
    tail_untouched: bool,
}

#[derive(Debug)]
struct Built {
    cmd_len: usize,
    max_ack: usize,
    request_id: u16,
    ccd_scd_len: u16,
    vec: Result<Vec<u8>, &'static str>,
    sink: Option<SinkOut>,
}

fn cap_of(sink: Sink, cmd_len: usize) -> Option<usize> {
    match sink {
        Sink::Vec => None,
        Sink::Exact => Some(cmd_len),
        Sink::Short(k) => Some(cmd_len.saturating_sub(k)),
        Sink::Long(k) => Some(cmd_len + k),
        Sink::Zero => Some(0),
    }
}

fn run_packet<T: CommandScd>(scd: T, id: u16, sink: Sink) -> Built {
    let pk = scd.finalize(id);
    let cmd_len = pk.cmd_len();
    let max_ack = pk.maximum_ack_len();
    let mut v = vec![];
    let vec = pk.serialize(&mut v).map(|_| v).map_err(|e| err_name(&e));
    let sink = cap_of(sink, cmd_len).map(|cap| {
        const FILL: u8 = 0xEE;
        let mut buf = vec![FILL; cap];
        let (res, remaining) = {
            let mut s: &mut [u8] = &mut buf[..];
            let r = pk.serialize(&mut s);
            (r, s.len())
        };
        let written = cap - remaining;
        let tail_untouched = buf[written..].iter().all(|b| *b == FILL);
        SinkOut {
            cap,
            res: res.map(|_| buf[..written].to_vec()).map_err(|e| err_name(&e)),
            tail_untouched,
        }
    });
    Built { cmd_len, max_ack, request_id: pk.request_id(), ccd_scd_len: pk.ccd().scd_len(), vec, sink }
}

/// Err(()) = panic; Ok(Err(class)) = constructor refused.
fn run_impl(spec: &Spec, id: u16, sink: Sink) -> Result<Result<Built, &'static str>, ()> {
    catch(|| match spec {
        Spec::Rm(a, l) => Ok(run_packet(ReadMem::new(*a, *l), id, sink)),
        Spec::Wm(a, d) => {
            let d = d.bytes();
            match WriteMem::new(*a, &d) {
                Ok(w) => Ok(run_packet(w, id, sink)),
                Err(e) => Err(err_name(&e)),
            }
        }
        Spec::Rms(es) => {
            let ents: Vec<ReadMem> = es.iter().map(|(a, l)| ReadMem::new(*a, *l)).collect();
            match ReadMemStacked::new(ents) {
                Ok(s) => Ok(run_packet(s, id, sink)),
                Err(e) => Err(err_name(&e)),
            }
        }
        Spec::Wms(es) => {
            let datas: Vec<Vec<u8>> = es.iter().map(|(_, d)| d.bytes()).collect();
            let mut ents = vec![];
            for ((a, _), d) in es.iter().zip(datas.iter()) {
                match WriteMem::new(*a, d) {
                    Ok(w) => ents.push(w),
                    Err(e) => return Err(err_name(&e)),
                }
            }
            match WriteMemStacked::new(ents) {
                Ok(s) => Ok(run_packet(s, id, sink)),
                Err(e) => Err(err_name(&e)),
            }
        }
    })
}

fn show_bytes(bs: &[u8]) -> String {
    format!("ok n={} h={:016x} head={}", bs.len(), fnv_bytes(FNV_INIT, bs), hex(&bs[..bs.len().min(32)]))
}

fn canon(r: &Result<Result<Built, &'static str>, ()>) -> String {
    match r {
        Err(()) => "panic".into(),
        Ok(Err(e)) => format!("err {e}"),
        Ok(Ok(b)) => {
            let ser = match &b.sink {
                None => match &b.vec {
                    Ok(v) => show_bytes(v),
                    Err(e) => format!("err {e}"),
                },
                Some(s) => match &s.res {
                    Ok(v) => show_bytes(v),
                    Err(e) => format!("err {e}"),
                },
            };
            format!("ok cmdlen={} maxack={} ser={}", b.cmd_len, b.max_ack, ser)
        }
    }
}

// ---------------------------------------------------------------- property oracle

#[derive(Debug, PartialEq)]
enum Body {
    Rm(u64, u16),
    Wm(u64, Vec<u8>),
    Rms(Vec<(u64, u16)>),
    Wms(Vec<(u64, Vec<u8>)>),
}

fn u16at(b: &[u8], o: usize) -> Option<u16> {
    Some(u16::from_le_bytes(b.get(o..o + 2)?.try_into().ok()?))
}
fn u32at(b: &[u8], o: usize) -> Option<u32> {
    Some(u32::from_le_bytes(b.get(o..o + 4)?.try_into().ok()?))
}
fn u64at(b: &[u8], o: usize) -> Option<u64> {
    Some(u64::from_le_bytes(b.get(o..o + 8)?.try_into().ok()?))
}

/// Independent decoder of a complete command packet, from the U3V layout:
/// 0 magic u32 | 4 flags u16 | 6 command id u16 | 8 scd_len u16 | 10 request id u16 | 12 SCD.
fn decode(bs: &[u8]) -> Result<(u16, u16, Body), String> {
    let e = |s: &str| s.to_string();
    if u32at(bs, 0).ok_or(e("short"))? != 0x4356_3355 {
        return Err(e("magic"));
    }
    if u16at(bs, 4).ok_or(e("short"))? != 0x4000 {
        return Err(e("flag is not REQUEST_ACK"));
    }
    let kind = u16at(bs, 6).ok_or(e("short"))?;
    let scd_len = u16at(bs, 8).ok_or(e("short"))?;
    let id = u16at(bs, 10).ok_or(e("short"))?;
    if bs.len() != 12 + scd_len as usize {
        return Err(format!("scd_len field {} but {} bytes follow the header", scd_len, bs.len().saturating_sub(12)));
    }
    let end = bs.len();
    let body = match kind {
        0x0800 => {
            if scd_len != 12 || u16at(bs, 20) != Some(0) {
                return Err(e("ReadMem SCD shape"));
            }
            Body::Rm(u64at(bs, 12).unwrap(), u16at(bs, 22).unwrap())
        }
        0x0802 => {
            if scd_len < 8 {
                return Err(e("WriteMem SCD shorter than the address"));
            }
            Body::Wm(u64at(bs, 12).unwrap(), bs[20..].to_vec())
        }
        0x0806 => {
            if scd_len % 12 != 0 {
                return Err(e("ReadMemStacked SCD not a multiple of 12"));
            }
            let mut es = vec![];
            let mut o = 12;
            while o < end {
                if u16at(bs, o + 8) != Some(0) {
                    return Err(e("reserved != 0"));
                }
                es.push((u64at(bs, o).unwrap(), u16at(bs, o + 10).unwrap()));
                o += 12;
            }
            Body::Rms(es)
        }
        0x0808 => {
            let mut es = vec![];
            let mut o = 12;
            while o < end {
                if o + 12 > end {
                    return Err(e("truncated WriteMemStacked entry header"));
                }
                if u16at(bs, o + 8) != Some(0) {
                    return Err(e("reserved != 0"));
                }
                let l = u16at(bs, o + 10).unwrap() as usize;
                if o + 12 + l > end {
                    return Err(e("truncated WriteMemStacked entry data"));
                }
                es.push((u64at(bs, o).unwrap(), bs[o + 12..o + 12 + l].to_vec()));
                o += 12 + l;
            }
            Body::Wms(es)
        }
        k => return Err(format!("unknown command id {k:#x}")),
    };
    Ok((id, scd_len, body))
}

/// What the layout says about the request, computed from the inputs only.
struct Expect {
    body: Body,
    scd_len: usize,
    /// SCD length of the regular acknowledge of a conforming device
    ack_scd: usize,
    /// the constructor must refuse
    refuse: bool,
}

fn expect(spec: &Spec) -> Expect {
    match spec {
        Spec::Rm(a, l) => Expect { body: Body::Rm(*a, *l), scd_len: 12, ack_scd: *l as usize, refuse: false },
        Spec::Wm(a, d) => {
            let d = d.bytes();
            let n = d.len();
            Expect { body: Body::Wm(*a, d), scd_len: 8 + n, ack_scd: 4, refuse: n + 8 > 65535 }
        }
        Spec::Rms(es) => {
            let total: usize = es.iter().map(|e| e.1 as usize).sum();
            Expect { body: Body::Rms(es.clone()), scd_len: 12 * es.len(), ack_scd: total, refuse: 12 * es.len() > 65535 || total > 65535 }
        }
        Spec::Wms(es) => {
            let ds: Vec<(u64, Vec<u8>)> = es.iter().map(|(a, d)| (*a, d.bytes())).collect();
            let total: usize = ds.iter().map(|d| 12 + d.1.len()).sum();
            let any_big = ds.iter().any(|d| d.1.len() + 8 > 65535);
            let n = ds.len();
            Expect { body: Body::Wms(ds), scd_len: total, ack_scd: 4 * n, refuse: any_big || total > 65535 }
        }
    }
}

fn oracle(spec: &Spec, id: u16, sink: Sink, r: &Result<Result<Built, &'static str>, ()>) -> Option<(String, String)> {
    let ex = expect(spec);
    let v = |class: &str, what: String| Some((class.to_string(), what));
    match r {
        Err(()) => v("panic", "panic".into()),
        Ok(Err(e)) => {
            if !ex.refuse {
                return v("refused-constructible", format!("constructor refused ({e}) although all lengths fit 16 bits"));
            }
            None
        }
        Ok(Ok(b)) => {
            if ex.refuse {
                return v("not-refused", "lengths do not fit the 16-bit fields but the constructor succeeded (truncation)".into());
            }
            let bytes = match &b.vec {
                Ok(x) => x,
                Err(e) => return v("vec-sink-error", format!("serialize into Vec failed: {e}")),
            };
            match decode(bytes) {
                Err(why) => return v("layout", format!("independent decoder rejects the bytes: {why}")),
                Ok((did, dlen, body)) => {
                    if did != id || b.request_id != id {
                        return v("layout", format!("request id {did}/{} != {id}", b.request_id));
                    }
                    if dlen as usize != ex.scd_len || b.ccd_scd_len as usize != ex.scd_len {
                        return v("layout", format!("scd_len field {dlen} != {}", ex.scd_len));
                    }
                    if body != ex.body {
                        return v("layout", "decoded SCD fields differ from the request".into());
                    }
                }
            }
            if b.cmd_len != bytes.len() || b.cmd_len != 12 + ex.scd_len {
                return v("len-agree", format!("cmd_len {} but {} bytes / 12+{}", b.cmd_len, bytes.len(), ex.scd_len));
            }
            if b.max_ack < 12 + ex.ack_scd.max(4) {
                return v("ack-bound", format!("maximum_ack_len {} < 12 + max({},4)", b.max_ack, ex.ack_scd));
            }
            if let Some(s) = &b.sink {
                if !s.tail_untouched {
                    return v("sink", "bytes beyond the reported write position were modified".into());
                }
                match sink {
                    Sink::Exact | Sink::Long(_) => match &s.res {
                        Ok(w) if w == bytes => {}
                        Ok(_) => return v("sink", format!("slice of {} bytes (cmd_len {}) received different bytes than the Vec", s.cap, b.cmd_len)),
                        Err(e) => return v("sink", format!("slice of {} bytes (cmd_len {}) failed: {e}", s.cap, b.cmd_len)),
                    },
                    // a too-short slice is outside the property; whatever was written must be a prefix
                    _ => {
                        if let Ok(w) = &s.res {
                            if s.cap >= b.cmd_len && w != bytes {
                                return v("sink", "large-enough slice received different bytes".into());
                            }
                            if !bytes.starts_with(w) {
                                return v("sink", "short slice received bytes that are not a prefix of the serialization".into());
                            }
                        }
                    }
                }
            }
            None
        }
    }
}

// ---------------------------------------------------------------- driver

fn do_case(rep: &mut Report, spec: &Spec, id: u16, sink: Sink, src: &str) {
    do_case_opt(rep, spec, id, sink, src, true)
}

/// `send_model = false`: the implementation is still run and judged by the property oracle;
/// only the (slow, list based) model request is left out.
fn do_case_opt(rep: &mut Report, spec: &Spec, id: u16, sink: Sink, src: &str, send_model: bool) {
    let r = run_impl(spec, id, sink);
    let args = spec.args();
    let cap_tok = match (&r, sink) {
        (_, Sink::Vec) => "vec".to_string(),
        (Ok(Ok(b)), s) => cap_of(s, b.cmd_len).unwrap().to_string(),
        // constructor refused / panicked: the sink is never reached
        _ => "vec".to_string(),
    };
    let req = format!("c09 {} {} {} {} {}", profile(), spec.kind(), cap_tok, id, args);
    let canon_case = format!("{} {} {} {:x}", spec.kind(), cap_tok, id, fnv_bytes(FNV_INIT, args.as_bytes()));
    let nontrivial = matches!(&r, Ok(Ok(b)) if b.vec.is_ok());
    rep.case(&canon_case, nontrivial);
    rep.count(&format!("{}/{src}", spec.kind()));
    rep.count(&format!(
        "sink:{}",
        match sink {
            Sink::Vec => "vec",
            Sink::Exact => "slice-exact",
            Sink::Short(_) => "slice-short",
            Sink::Long(_) => "slice-long",
            Sink::Zero => "slice-empty",
        }
    ));
    rep.count(&match &r {
        Err(()) => format!("{}:panic", spec.kind()),
        Ok(Err(e)) => format!("{}:ctor-err-{e}", spec.kind()),
        Ok(Ok(b)) => match &b.sink {
            Some(SinkOut { res: Err(e), .. }) => format!("{}:ok/sink-err-{e}", spec.kind()),
            _ => format!("{}:ok", spec.kind()),
        },
    });
    if let Some((class, what)) = oracle(spec, id, sink, &r) {
        rep.violation(
            json!({"kind": spec.kind(), "class": class}),
            &what,
            json!({"spec": spec.to_json(), "id": id, "sink": format!("{sink:?}")}),
        );
    }
    let ans = canon(&r);
    if rep.evaluations % 997 == 1 {
        let short_req: String = req.chars().take(200).collect();
        rep.sample(json!({"request": short_req, "impl": ans}));
    }
    if send_model {
        rep.expect(req, ans);
    } else {
        rep.count("oracle-only(large case: model request left out for speed)");
    }
}

fn parse_sink(s: &str) -> Sink {
    let num = |s: &str| s.trim_matches(|c: char| !c.is_ascii_digit()).parse::<usize>().unwrap_or(0);
    if s.starts_with("Exact") {
        Sink::Exact
    } else if s.starts_with("Short") {
        Sink::Short(num(s))
    } else if s.starts_with("Long") {
        Sink::Long(num(s))
    } else if s.starts_with("Zero") {
        Sink::Zero
    } else {
        Sink::Vec
    }
}

fn rand_sink(rng: &mut Rng) -> Sink {
    match rng.below(10) {
        0..=3 => Sink::Vec,
        4..=6 => Sink::Exact,
        7 => Sink::Short(1 + rng.below(30) as usize),
        8 => Sink::Long(1 + rng.below(30) as usize),
        _ => {
            if rng.bool() {
                Sink::Zero
            } else {
                Sink::Short(rng.below(70000) as usize)
            }
        }
    }
}

fn rand_id(rng: &mut Rng) -> u16 {
    *rng.pick(&[0u16, 1, 2, 255, 256, 0x7fff, 0x8000, 0xfffe, 0xffff, 0x1234]) ^ (if rng.chance(1, 3) { rng.below(65536) as u16 } else { 0 })
}

fn rand_len16(rng: &mut Rng) -> u16 {
    match rng.below(4) {
        0 => *rng.pick(&[0u16, 1, 2, 3, 4, 5, 255, 256, 0x7fff, 0x8000, 65523, 65527, 65534, 65535]),
        1 => rng.below(64) as u16,
        _ => rng.below(65536) as u16,
    }
}

fn rand_data(rng: &mut Rng, n: usize) -> Data {
    if n <= 96 && rng.bool() {
        Data::Hex(rng.bytes(n))
    } else {
        Data::Pat(n, rng.below(7))
    }
}

/// entry data lengths whose Σ(12 + len) lands on `target`
fn lens_summing_to(rng: &mut Rng, target: usize, n: usize) -> Vec<usize> {
    // target >= 12 n is required; spread the remainder randomly
    let mut rest = target.saturating_sub(12 * n);
    let mut out = vec![];
    for i in 0..n {
        let take = if i + 1 == n { rest } else { rng.below(rest as u64 + 1) as usize };
        out.push(take);
        rest -= take;
    }
    out
}

fn real_main() {
    let args = parse_args();
    let mut rep = Report::new(
        "C09",
        "all four commands through the public constructors + finalize + serialize; boundary and random addresses, read lengths, data lengths 0..65535+, stacked entry lists whose SCD / acknowledge totals cross 65535, request ids, sinks Vec and &mut [u8] of exact / too-short / too-long / zero size; a case is non-trivial when the command is constructed and serialised into the Vec; distinct by (kind, sink capacity, id, argument hash)",
    );
    let mut rng = Rng::new(args.seed);

    if let Some(path) = &args.replay {
        let v: Value = serde_json::from_str(&std::fs::read_to_string(path).unwrap()).unwrap();
        let r = &v["replay"];
        let spec = Spec::from_json(&r["spec"]);
        do_case(&mut rep, &spec, r["id"].as_u64().unwrap() as u16, parse_sink(r["sink"].as_str().unwrap_or("Vec")), "replay");
        rep.write(&args);
        return;
    }

    let sinks = [Sink::Vec, Sink::Exact, Sink::Short(1), Sink::Short(5), Sink::Short(13), Sink::Long(1), Sink::Long(9), Sink::Zero];

    // ---- the repository's own four test vectors, every sink
    for s in sinks {
        do_case(&mut rep, &Spec::Rm(4, 64), 1, s, "unit-vectors");
        do_case(&mut rep, &Spec::Wm(4, Data::Hex(vec![1, 2, 3])), 1, s, "unit-vectors");
        do_case(&mut rep, &Spec::Rms(vec![(4, 4), (8, 8)]), 1, s, "unit-vectors");
        do_case(&mut rep, &Spec::Wms(vec![(4, Data::Hex(vec![1, 2, 3, 4])), (8, Data::Hex(vec![0x11, 0x12, 0x13, 0x14]))]), 1, s, "unit-vectors");
    }

    // ---- ReadMem: boundary grid
    let addrs = [0u64, 1, 4, 0xff, 0x100, 0xffff_ffff, 0x1_0000_0000, 0x0123_4567_89ab_cdef, u64::MAX - 1, u64::MAX];
    let lens = [0u16, 1, 2, 3, 4, 5, 255, 256, 0x7fff, 0x8000, 65534, 65535];
    let ids = [0u16, 1, 0xff, 0x100, 0x8000, 0xffff];
    for a in addrs {
        for l in lens {
            for (i, id) in ids.iter().enumerate() {
                do_case(&mut rep, &Spec::Rm(a, l), *id, sinks[(i + l as usize) % sinks.len()], "boundary");
            }
        }
    }
    // every sink capacity 0..=30 for one ReadMem (24 bytes) and one small WriteMem
    for k in 0..=24usize {
        do_case(&mut rep, &Spec::Rm(0x1122_3344_5566_7788, 0xabcd), 0x55aa, Sink::Short(k), "sink-sweep");
        do_case(&mut rep, &Spec::Wm(0x1122_3344_5566_7788, Data::Pat(7, 1)), 0x55aa, Sink::Short(k), "sink-sweep");
        do_case(&mut rep, &Spec::Wms(vec![(1, Data::Pat(3, 1)), (2, Data::Pat(0, 1)), (3, Data::Pat(2, 2))]), 9, Sink::Short(k), "sink-sweep");
        do_case(&mut rep, &Spec::Rms(vec![(1, 3), (2, 4)]), 9, Sink::Short(k), "sink-sweep");
    }

    // ---- WriteMem: data lengths around every boundary
    let mut dls: Vec<usize> = (0..=40).collect();
    dls.extend([255, 256, 257, 4095, 4096, 32767, 32768, 65519, 65520, 65523, 65524, 65525, 65526, 65527, 65528, 65529, 65534, 65535, 65536, 65537, 70000, 131072]);
    for (i, n) in dls.iter().enumerate() {
        for (j, s) in [Sink::Vec, Sink::Exact, Sink::Short(1), Sink::Long(3)].iter().enumerate() {
            let a = addrs[(i + j) % addrs.len()];
            do_case(&mut rep, &Spec::Wm(a, Data::Pat(*n, (i % 5) as u64)), ids[(i + j) % ids.len()], *s, "boundary");
        }
    }

    // ---- ReadMemStacked: entry counts around 65535/12 = 5461.25, totals around 65535
    for n in [0usize, 1, 2, 3, 100, 5460, 5461, 5462, 5463, 6000, 16383, 16384, 16385] {
        for s in [Sink::Vec, Sink::Exact] {
            let es: Vec<(u64, u16)> = (0..n).map(|i| (0x1000 + 4 * i as u64, (i % 3) as u16)).collect();
            do_case(&mut rep, &Spec::Rms(es), 7, s, "boundary-count");
        }
    }
    for (ls, tag) in [
        (vec![65535u16], "total=65535"),
        (vec![65535, 0], "total=65535"),
        (vec![65535, 1], "total=65536"),
        (vec![1, 65535], "total=65536"),
        (vec![32767, 32768], "total=65535"),
        (vec![32768, 32768], "total=65536"),
        (vec![65535, 65535], "total=131070"),
        (vec![65535, 65535, 2], "total=131072(wraps to 0 in u16)"),
        (vec![0, 0, 0], "total=0"),
        (vec![21845, 21845, 21845], "total=65535"),
        (vec![21845, 21845, 21846], "total=65536"),
    ] {
        rep.count(&format!("rms-ack-{tag}"));
        let es: Vec<(u64, u16)> = ls.iter().enumerate().map(|(i, l)| (i as u64 * 0x10000, *l)).collect();
        for s in [Sink::Vec, Sink::Exact, Sink::Short(2)] {
            do_case(&mut rep, &Spec::Rms(es.clone()), 0xfffe, s, "boundary-total");
        }
    }

    // ---- WriteMemStacked: Σ(12+len) around 65535, counts around 5461, one oversize entry
    for target in [65533usize, 65534, 65535, 65536, 65537, 65547, 70000] {
        for n in [1usize, 2, 3, 7] {
            let ls = lens_summing_to(&mut rng, target, n);
            let es: Vec<(u64, Data)> = ls.iter().enumerate().map(|(i, l)| (0x4000 + i as u64, Data::Pat(*l, i as u64 % 5))).collect();
            for s in [Sink::Vec, Sink::Exact] {
                do_case(&mut rep, &Spec::Wms(es.clone()), 3, s, "boundary-total");
            }
        }
    }
    for n in [0usize, 1, 2, 5460, 5461, 5462, 5463, 16383, 16384, 16385, 20000] {
        let es: Vec<(u64, Data)> = (0..n).map(|i| (i as u64, Data::Pat(0, 0))).collect();
        do_case(&mut rep, &Spec::Wms(es), 3, Sink::Vec, "boundary-count");
    }
    do_case(&mut rep, &Spec::Wms(vec![(0, Data::Pat(65528, 0))]), 3, Sink::Vec, "oversize-entry");
    do_case(&mut rep, &Spec::Wms(vec![(0, Data::Pat(3, 0)), (0, Data::Pat(70000, 0))]), 3, Sink::Vec, "oversize-entry");

    // ---- every quantity the constructors narrow to 16 bits, far beyond its limit: values that
    // are small again modulo 2^16 (a truncating cast / wrapping sum would accept them)
    // (a) ENTRY COUNT: 65535 .. 131073 entries; zero-length reads / empty or 1-byte writes so that
    //     no other limit (acknowledge total) refuses first
    let counts = [65535usize, 65536, 65537, 65536 + 1, 65536 + 5461, 65536 + 5462, 131072, 131073, 131072 + 5461];
    for n in counts {
        rep.count("narrowing/entry-count");
        // all entries equal (compact request), zero-length reads
        do_case(&mut rep, &Spec::Rms(vec![(0x40, 0); n]), 7, Sink::Vec, "narrowing-count");
        // a distinct first and last entry around the run
        let mut es = vec![(0x40u64, 0u16); n];
        es[0] = (0x1000, 0);
        es[n - 1] = (0x2000, 0);
        do_case(&mut rep, &Spec::Rms(es), 7, Sink::Exact, "narrowing-count");
        // 1-byte reads: count AND acknowledge total are beyond 16 bits
        do_case(&mut rep, &Spec::Rms(vec![(0x40, 1); n]), 7, Sink::Vec, "narrowing-count");
        do_case(&mut rep, &Spec::Wms(vec![(0x40, Data::Pat(0, 0)); n]), 7, Sink::Vec, "narrowing-count");
        do_case(&mut rep, &Spec::Wms(vec![(0x40, Data::Pat(1, 0)); n]), 7, Sink::Exact, "narrowing-count");
    }
    // (b) SUM OF READ LENGTHS (acknowledge SCD length): totals 65536 + small, 131072 + small with
    //     few entries (entry count and SCD length are fine)
    for total in [65536usize, 65537, 65536 + 4, 65536 + 5461, 131072, 131073, 196608] {
        rep.count("narrowing/read-length-sum");
        let mut ls = vec![];
        let mut rest = total;
        while rest > 0 {
            let t = rest.min(65535);
            ls.push(t as u16);
            rest -= t;
        }
        let es: Vec<(u64, u16)> = ls.iter().enumerate().map(|(i, l)| (i as u64 * 0x1_0000, *l)).collect();
        do_case(&mut rep, &Spec::Rms(es.clone()), 0x0102, Sink::Vec, "narrowing-read-sum");
        // the same total from many equal small entries (<= 5461 of them)
        let k = 4096;
        let per = total / k;
        let mut es2 = vec![(0x80u64, per as u16); k];
        es2[0].1 += (total - per * k) as u16;
        do_case(&mut rep, &Spec::Rms(es2), 0x0102, Sink::Vec, "narrowing-read-sum");
    }
    // (c) SUM OF DATA LENGTHS (SCD length of a stacked write): Σ(12 + len) = 65536 + small,
    //     131072 + small with 2..5 constructible entries
    for total in [65536usize, 65537, 65536 + 12, 65536 + 24, 131072, 131073, 131072 + 36, 196608 + 12] {
        rep.count("narrowing/data-length-sum");
        for n in [2usize, 3, 5] {
            if total < 12 * n || (total - 12 * n).div_ceil(n) > 65527 {
                continue;
            }
            let per = (total - 12 * n) / n;
            let mut ls = vec![per; n];
            ls[0] += total - 12 * n - per * n;
            let es: Vec<(u64, Data)> = ls.iter().enumerate().map(|(i, l)| (0x4000 + i as u64, Data::Pat(*l, i as u64 % 5))).collect();
            do_case(&mut rep, &Spec::Wms(es), 3, Sink::Vec, "narrowing-data-sum");
        }
    }
    // (d) PER-ENTRY LENGTH (data_len / len of one WriteMem, alone and inside a stacked write)
    for n in [65528usize, 65535, 65536, 65537, 65536 + 8, 65536 + 65527, 131072, 131073, 131072 + 8] {
        rep.count("narrowing/entry-length");
        do_case(&mut rep, &Spec::Wm(0x99, Data::Pat(n, 1)), 5, Sink::Vec, "narrowing-entry-length");
        do_case(&mut rep, &Spec::Wms(vec![(0x99, Data::Pat(n, 1))]), 5, Sink::Vec, "narrowing-entry-length");
        do_case(&mut rep, &Spec::Wms(vec![(1, Data::Pat(2, 0)), (0x99, Data::Pat(n, 1)), (2, Data::Pat(3, 0))]), 5, Sink::Vec, "narrowing-entry-length");
    }

    // ---- random
    let rounds = if args.thorough() { 60_000 } else { 6_000 };
    let mut big_budget: i64 = if args.thorough() { 2_000 } else { 120 };
    // slice sink x many stacked entries is quadratic in the list-based model
    let mut quad_budget: i64 = if args.thorough() { 60 } else { 6 };
    for _ in 0..rounds {
        let id = rand_id(&mut rng);
        let sink = rand_sink(&mut rng);
        let spec = match rng.below(4) {
            0 => Spec::Rm(rng.interesting_u64(), rand_len16(&mut rng)),
            1 => {
                let n = match rng.below(6) {
                    0 => rng.below(66_000) as usize,
                    1 => 65_500 + rng.below(80) as usize,
                    _ => rng.below(300) as usize,
                };
                Spec::Wm(rng.interesting_u64(), rand_data(&mut rng, n))
            }
            2 => {
                let n = match rng.below(8) {
                    0 => 5455 + rng.below(12) as usize,
                    1 => rng.below(6000) as usize,
                    _ => rng.below(12) as usize,
                };
                let small = rng.bool();
                Spec::Rms((0..n).map(|_| (rng.interesting_u64(), if small { rng.below(16) as u16 } else { rand_len16(&mut rng) })).collect())
            }
            _ => {
                let n = match rng.below(8) {
                    0 => 1 + rng.below(40) as usize,
                    _ => rng.below(6) as usize,
                };
                if rng.chance(1, 6) && n > 0 {
                    let target = 65_500 + rng.below(80) as usize;
                    let ls = lens_summing_to(&mut rng, target, n);
                    Spec::Wms(ls.iter().map(|l| (rng.interesting_u64(), Data::Pat(*l, rng.below(5)))).collect())
                } else {
                    Spec::Wms((0..n).map(|_| {
                        let l = if rng.chance(1, 10) { rng.below(30_000) as usize } else { rng.below(80) as usize };
                        (rng.interesting_u64(), rand_data(&mut rng, l))
                    }).collect())
                }
            }
        };
        // the list-based model is slow on very large packets: bound how many we send
        let weight = match &spec {
            Spec::Wm(_, Data::Pat(n, _)) if *n > 20_000 => 1,
            Spec::Wms(es) if es.iter().map(|e| match &e.1 { Data::Pat(n, _) => *n, Data::Hex(v) => v.len() }).sum::<usize>() > 20_000 => 1,
            Spec::Rms(es) if es.len() > 1500 => 1,
            _ => 0,
        };
        let quad = sink != Sink::Vec
            && match &spec {
                Spec::Rms(es) => es.len() > 400,
                Spec::Wms(es) => es.len() > 400,
                _ => false,
            };
        let mut send_model = true;
        if quad {
            quad_budget -= 1;
            if quad_budget < 0 {
                send_model = false;
            }
        }
        if weight > 0 {
            big_budget -= 1;
            if big_budget < 0 {
                send_model = false;
            }
        }
        do_case_opt(&mut rep, &spec, id, sink, "random", send_model);
    }
    rep.write(&args);
}

/// Last panic message (the shared `catch` installs a silent hook; a panic of the HARNESS ITSELF
/// - driver missing, I/O - would otherwise end the process without a word and `check` would only
/// see "produced no result").
static LAST_PANIC: std::sync::Mutex<String> = std::sync::Mutex::new(String::new());

fn main() {
    let _ = catch(|| ()); // let the shared helper install its hook first, then replace it
    std::panic::set_hook(Box::new(|info| {
        if let Ok(mut g) = LAST_PANIC.try_lock() {
            *g = info.to_string();
        }
    }));
    if std::panic::catch_unwind(real_main).is_err() {
        eprintln!("harness internal panic (not a panic of the code under test): {}", LAST_PANIC.lock().map(|g| g.clone()).unwrap_or_default());
        std::process::exit(3);
    }
}
