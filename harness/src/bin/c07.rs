//! C07 — faulty or hostile device responses yield errors, never panics or made-up data.
//!
//! The REAL `cameleon::u3v::ControlHandle` runs over the scripted device of `ctrl_common` with
//! a fault plan: every single fault (and sampled double faults) at every transaction index of
//! an open / read / write history, plus degenerate advertised limits.  Every call runs under
//! `catch` and a watchdog.
//!  * differential: the transport's answers of the real run are replayed to the Lean model
//!    (`Driver/C07.lean`, device = arbitrary script); result and wire digest must agree;
//!  * property oracle on the implementation: never panic / never spin; `Ok` only with data
//!    taken from a well-formed, successful, id-matching acknowledge of the right kind and
//!    size; at most `retry` receives per command; after an error the handle is usable: the
//!    following ops against the now conforming (and limit-enforcing) device succeed exactly.

#[path = "ctrl_common/mod.rs"]
mod ctrl_common;
use camharness::*;
use cameleon::DeviceControl;
use ctrl_common::*;
use std::sync::atomic::{AtomicU64, Ordering};
use std::sync::{Arc, Mutex};

#[derive(Clone, Debug)]
enum Op {
    Open,
    Close,
    Read { addr: u64, n: usize },
    Write { addr: u64, n: usize, pat: u64 },
    /// `disable_streaming()`
    Disable,
    /// recovery only: if the device still has unfetched packets queued, a 4-byte read that may
    /// fail (it drains stale packets) but must never return wrong data; skipped otherwise
    Settle,
}

#[derive(Clone, Debug)]
struct SessionSpec {
    seed: u64,
    adv_cmd: u32,
    adv_ack: u32,
    retry: u16,
    plan: Vec<u16>,
    ops: Vec<Op>,
    faults: Vec<(u64, Fault)>,
    claim_err: Option<UsbErr>,
    control_err: Option<(u32, UsbErr)>,
    clear_halt_err: Option<(u32, UsbErr)>,
    release_err: Option<UsbErr>,
    /// Maximum Device Response Time the device advertises (ms)
    resp_ms: u32,
    /// SBRM U3VCP capability (bit 0: SIRM available) and SIRM address the device advertises
    u3v_cap: u64,
    sirm_addr: u64,
}

/* ---------- (de)serialisation of faults and sessions for replay files ---------- */

fn fault_str(f: &Fault) -> String {
    match f {
        Fault::SendErr(e) => format!("SendErr:{}", e.name()),
        Fault::SendErrDelivered(e) => format!("SendErrDelivered:{}", e.name()),
        Fault::RecvErr { nth, err } => format!("RecvErr:{nth}:{}", err.name()),
        Fault::Pendings(n) => format!("Pendings:{n}"),
        Fault::Truncate(n) => format!("Truncate:{n}"),
        Fault::Append(n) => format!("Append:{n}"),
        Fault::XorByte { off, mask } => format!("XorByte:{off}:{mask}"),
        Fault::Magic(m) => format!("Magic:{m}"),
        Fault::ReqIdDelta(d) => format!("ReqIdDelta:{d}"),
        Fault::Status(s) => format!("Status:{s}"),
        Fault::Kind(k) => format!("Kind:{k}"),
        Fault::ScdLenField(l) => format!("ScdLenField:{l}"),
        Fault::PayloadResize(n) => format!("PayloadResize:{n}"),
        Fault::WrittenLen(l) => format!("WrittenLen:{l}"),
        Fault::Reserved(r) => format!("Reserved:{r}"),
        Fault::Raw(b) => format!("Raw:{}", hex(b)),
        Fault::NoAck => "NoAck".into(),
        Fault::LateAck => "LateAck".into(),
        Fault::OnPending(k, inner) => format!("OnPending:{k}:{}", fault_str(inner)),
    }
}

fn fault_parse(s: &str) -> Fault {
    let (head, rest) = s.split_once(':').unwrap_or((s, ""));
    let num = |x: &str| x.parse::<u64>().unwrap();
    match head {
        "SendErr" => Fault::SendErr(UsbErr::from_name(rest).unwrap()),
        "SendErrDelivered" => Fault::SendErrDelivered(UsbErr::from_name(rest).unwrap()),
        "RecvErr" => {
            let (a, b) = rest.split_once(':').unwrap();
            Fault::RecvErr { nth: num(a) as u32, err: UsbErr::from_name(b).unwrap() }
        }
        "Pendings" => Fault::Pendings(num(rest)),
        "Truncate" => Fault::Truncate(num(rest) as usize),
        "Append" => Fault::Append(num(rest) as usize),
        "XorByte" => {
            let (a, b) = rest.split_once(':').unwrap();
            Fault::XorByte { off: num(a) as usize, mask: num(b) as u8 }
        }
        "Magic" => Fault::Magic(num(rest) as u32),
        "ReqIdDelta" => Fault::ReqIdDelta(num(rest) as u16),
        "Status" => Fault::Status(num(rest) as u16),
        "Kind" => Fault::Kind(num(rest) as u16),
        "ScdLenField" => Fault::ScdLenField(num(rest) as u16),
        "PayloadResize" => Fault::PayloadResize(num(rest) as usize),
        "WrittenLen" => Fault::WrittenLen(num(rest) as u16),
        "Reserved" => Fault::Reserved(num(rest) as u16),
        "Raw" => Fault::Raw(unhex(rest)),
        "NoAck" => Fault::NoAck,
        "LateAck" => Fault::LateAck,
        "OnPending" => {
            let (a, b) = rest.split_once(':').unwrap();
            Fault::OnPending(num(a), Box::new(fault_parse(b)))
        }
        other => panic!("unknown fault {other}"),
    }
}

/// coarse class of a fault (signature of a violation / distribution key)
fn fault_class(f: &Fault) -> String {
    match f {
        Fault::OnPending(_, inner) => format!("OnPending-{}", fault_class(inner)),
        other => fault_str(other).split(':').next().unwrap().to_string(),
    }
}

fn op_json(o: &Op) -> Value {
    match o {
        Op::Open => json!({"op": "open"}),
        Op::Close => json!({"op": "close"}),
        Op::Settle => json!({"op": "settle"}),
        Op::Disable => json!({"op": "disable"}),
        Op::Read { addr, n } => json!({"op": "read", "addr": addr.to_string(), "n": n}),
        Op::Write { addr, n, pat } => json!({"op": "write", "addr": addr.to_string(), "n": n, "pat": pat}),
    }
}

fn op_from(v: &Value) -> Op {
    let a = |k: &str| v[k].as_str().unwrap().parse::<u64>().unwrap();
    let u = |k: &str| v[k].as_u64().unwrap();
    match v["op"].as_str().unwrap() {
        "open" => Op::Open,
        "close" => Op::Close,
        "settle" => Op::Settle,
        "disable" => Op::Disable,
        "read" => Op::Read { addr: a("addr"), n: u("n") as usize },
        "write" => Op::Write { addr: a("addr"), n: u("n") as usize, pat: u("pat") },
        other => panic!("unknown op {other}"),
    }
}

fn err_json(e: &Option<(u32, UsbErr)>) -> Value {
    match e {
        None => Value::Null,
        Some((n, e)) => json!([n, e.name()]),
    }
}

fn err_from(v: &Value) -> Option<(u32, UsbErr)> {
    v.as_array().map(|a| (a[0].as_u64().unwrap() as u32, UsbErr::from_name(a[1].as_str().unwrap()).unwrap()))
}

fn spec_json(s: &SessionSpec) -> Value {
    json!({
        "seed": s.seed, "adv_cmd": s.adv_cmd, "adv_ack": s.adv_ack, "retry": s.retry, "plan": s.plan,
        "ops": s.ops.iter().map(op_json).collect::<Vec<_>>(),
        "faults": s.faults.iter().map(|(i, f)| json!([i, fault_str(f)])).collect::<Vec<_>>(),
        "claim_err": s.claim_err.map(|e| e.name()), "control_err": err_json(&s.control_err),
        "clear_halt_err": err_json(&s.clear_halt_err), "release_err": s.release_err.map(|e| e.name()),
        "resp_ms": s.resp_ms, "u3v_cap": s.u3v_cap.to_string(), "sirm_addr": s.sirm_addr.to_string(),
    })
}

fn spec_from(v: &Value) -> SessionSpec {
    let name = |k: &str| v[k].as_str().and_then(UsbErr::from_name);
    SessionSpec {
        seed: v["seed"].as_u64().unwrap(),
        adv_cmd: v["adv_cmd"].as_u64().unwrap() as u32,
        adv_ack: v["adv_ack"].as_u64().unwrap() as u32,
        retry: v["retry"].as_u64().unwrap() as u16,
        plan: v["plan"].as_array().unwrap().iter().map(|x| x.as_u64().unwrap() as u16).collect(),
        ops: v["ops"].as_array().unwrap().iter().map(op_from).collect(),
        faults: v["faults"].as_array().unwrap().iter().map(|p| (p[0].as_u64().unwrap(), fault_parse(p[1].as_str().unwrap()))).collect(),
        claim_err: name("claim_err"),
        control_err: err_from(&v["control_err"]),
        clear_halt_err: err_from(&v["clear_halt_err"]),
        release_err: name("release_err"),
        resp_ms: v["resp_ms"].as_u64().unwrap_or(1) as u32,
        u3v_cap: v["u3v_cap"].as_str().map_or(1, |x| x.parse().unwrap()),
        sirm_addr: v["sirm_addr"].as_str().map_or(0x2_0000, |x| x.parse().unwrap()),
    }
}

/* ---------- watchdog ---------- */

static DEADLINE_MS: AtomicU64 = AtomicU64::new(u64::MAX);
static CURRENT: Mutex<String> = Mutex::new(String::new());

fn now_ms() -> u64 {
    std::time::SystemTime::now().duration_since(std::time::UNIX_EPOCH).unwrap().as_millis() as u64
}

fn start_watchdog(out: String, tier: String, seed: u64) {
    std::thread::spawn(move || loop {
        std::thread::sleep(std::time::Duration::from_millis(200));
        if now_ms() > DEADLINE_MS.load(Ordering::SeqCst) {
            let cur = CURRENT.lock().map(|s| s.clone()).unwrap_or_default();
            let replay: Value = serde_json::from_str(&cur).unwrap_or(Value::Null);
            let v = json!({
                "property": "C07", "tier": tier, "seed": seed, "profile": profile(), "rule": "watchdog",
                "evaluations": 1, "distinct_nontrivial": 0, "samples": [], "input_distribution": {},
                "n_disagreements": 0, "disagreements": [], "n_violations": 1,
                "violations": [{"sig": {"kind": "unbounded-loop"}, "what": "a control operation did not return within 30 s (watchdog)", "replay": replay}],
                "extra": {},
            });
            let _ = std::fs::write(&out, serde_json::to_string_pretty(&v).unwrap());
            std::process::exit(0);
        }
    });
}

fn guarded<T>(f: impl FnOnce() -> T) -> Result<T, ()> {
    DEADLINE_MS.store(now_ms() + 30_000, Ordering::SeqCst);
    let r = catch(f);
    DEADLINE_MS.store(u64::MAX, Ordering::SeqCst);
    r
}

/* ---------- one session ---------- */

struct Txn {
    cmd: Vec<u8>,
    send_err: Option<UsbErr>,
    recvs: Vec<Result<Vec<u8>, UsbErr>>,
}

fn split_txns(wire: &[Wire]) -> Vec<Txn> {
    let mut out: Vec<Txn> = vec![];
    for w in wire {
        match w {
            Wire::Send { data, err, .. } => out.push(Txn { cmd: data.clone(), send_err: *err, recvs: vec![] }),
            Wire::Recv { res, .. } => {
                if let Some(t) = out.last_mut() {
                    t.recvs.push(res.clone());
                }
            }
            _ => {}
        }
    }
    out
}

/// the final acknowledge of a transaction if it is genuine for its command: well-formed,
/// status Success, kind of the command, id of the command
fn genuine_ack(t: &Txn) -> Result<AckInfo, String> {
    let c = decode_cmd(&t.cmd).ok_or("host sent a malformed command")?;
    if t.send_err.is_some() {
        return Err("send failed".into());
    }
    let p = match t.recvs.last() {
        Some(Ok(p)) => p,
        _ => return Err("no acknowledge received".into()),
    };
    let a = decode_ack(p).ok_or("acknowledge shorter than a header / wrong magic")?;
    if a.status != 0 {
        return Err(format!("status {:#06x}", a.status));
    }
    if a.request_id != c.request_id {
        return Err(format!("request id {} for command {}", a.request_id, c.request_id));
    }
    if a.kind != (c.kind | 1) {
        return Err(format!("acknowledge kind {:#06x} for command {:#06x}", a.kind, c.kind));
    }
    Ok(a)
}

fn sane_limits(s: &SessionSpec) -> bool {
    s.adv_cmd >= 24 && s.adv_ack >= 20 && s.retry >= 1 && s.plan.iter().all(|k| *k < s.retry)
}

fn run_session(rep: &mut Report, spec: &SessionSpec, label: &str) {
    *CURRENT.lock().unwrap() = spec_json(spec).to_string();
    let boot = Bootstrap { max_cmd: spec.adv_cmd, max_ack: spec.adv_ack, response_time_ms: spec.resp_ms, u3v_capability: spec.u3v_cap, sirm_addr: spec.sirm_addr, ..Bootstrap::default() };
    let mut mem = SparseMem::new(spec.seed);
    boot.install(&mut mem);
    let mut cfg = DevCfg { pending_plan: spec.plan.clone(), ..DevCfg::default() };
    for (i, f) in &spec.faults {
        cfg.faults.entry(*i).or_default().push(f.clone());
    }
    cfg.claim_err = spec.claim_err;
    cfg.control_err = spec.control_err;
    cfg.clear_halt_err = spec.clear_halt_err;
    cfg.release_err = spec.release_err;
    let open_faulted = spec.claim_err.is_some() || spec.control_err.is_some() || spec.clear_halt_err.is_some();
    let usb = FakeUsb::new(mem, cfg);
    let mut h = make_handle(&usb);
    h.set_retry_count(spec.retry);
    rep.expect(format!("c07 new {}", profile()), "ok".into());
    rep.expect(format!("c07 retry {}", spec.retry), "ok".into());
    let classes: Vec<String> = {
        let mut c: Vec<String> = spec.faults.iter().map(|(_, f)| fault_class(f)).collect();
        if open_faulted {
            c.push("open-path".into());
        }
        if spec.release_err.is_some() {
            c.push("release".into());
        }
        if !sane_limits(spec) {
            c.push("degenerate-limits".into());
        }
        c
    };
    let mut violate = |rep: &mut Report, kind: &str, op: &str, what: String| {
        rep.violation(json!({"kind": kind, "op": op, "faults": classes}), &what, spec_json(spec));
    };
    let mut last_buf_len = 0usize; // size of the host's receive buffer as last seen on the wire
    let mut last_sent_id: Option<u16> = None; // request id of the last command seen on the wire
    let mut recovering = false; // an error was seen: the device is conforming from now on
    // an `open` hit by a fault returned Ok: the negotiated configuration may be garbage (the
    // fault corrupted the payload of a bootstrap register read, which no host can detect)
    let mut tainted = false;
    // a `disable_streaming` hit by a fault may have cached a corrupted SBRM address / capability /
    // SIRM address (payload corruption is undetectable, the caches live as long as the handle)
    let mut caches_tainted = false;
    let mut any_err = false;
    let mut opened = false;
    let mut ops: Vec<Op> = spec.ops.clone();
    let mut i = 0;
    while i < ops.len() {
        let mut op = ops[i].clone();
        i += 1;
        // a settle step: only while stale packets are queued; must succeed at once when fewer
        // well-formed stale acknowledges than the retry budget are queued
        let mut settle: Option<bool> = None;
        if matches!(op, Op::Settle) {
            let unf = usb.lock().unfetched();
            if unf.is_empty() || !h.is_opened() {
                continue;
            }
            // (a forged acknowledge that carries the id of an UPCOMING command is not a leftover of
            // an abandoned command: the hostile phase is still in the pipe)
            let clean = unf.iter().all(|p| p.len() <= last_buf_len.max(24) && decode_ack(p).is_some_and(|a| {
                a.status == 0 && [0x0801, 0x0803, 0x0805].contains(&a.kind)
                    && last_sent_id.is_none_or(|l| a.request_id.wrapping_sub(l).wrapping_sub(1) >= 16)
            }));
            let idx = usb.lock().txn;
            let k = if spec.plan.is_empty() { 0 } else { spec.plan[(idx % spec.plan.len() as u64) as usize] } as usize;
            settle = Some(clean && unf.len() + k < spec.retry as usize);
            // same size as the oldest stale ReadMem acknowledge (if any): should the host take that
            // acknowledge for the answer to THIS read, it passes the length check and the `inexact`
            // oracle sees foreign data
            let n = match decode_ack(&unf[0]) {
                Some(a) if a.kind == ACK_READ_MEM && a.scd_len >= 1 && a.scd_len <= 1024 => a.scd_len as usize,
                _ => 4,
            };
            op = Op::Read { addr: 0x7300, n };
        }
        // a queued packet that already carries the id of an UPCOMING command was forged by the
        // hostile phase: the op that meets it is hit by that fault (no host can tell it from the
        // real answer: right id, kind and size, received after the command was sent)
        let forged_ahead = usb.lock().unfetched().iter().any(|p| {
            decode_ack(p).is_some_and(|a| last_sent_id.is_some_and(|l| a.request_id.wrapping_sub(l).wrapping_sub(1) < 16))
        });
        let txn0 = usb.lock().txn;
        let timeout_before = dur_ms(h.timeout_duration()).max(1); // transfer_timeout(): never 0
        let started = std::time::Instant::now();
        let (name, req, r): (&str, String, Result<Result<Option<Vec<u8>>, &'static str>, ()>) = match &op {
            Op::Open => ("open", "c07 open".into(), guarded(|| h.open().map(|_| None).map_err(|e| control_error_name(&e)))),
            Op::Close => ("close", "c07 close".into(), guarded(|| h.close().map(|_| None).map_err(|e| control_error_name(&e)))),
            Op::Disable => ("disable", "c07 disable".into(), guarded(|| h.disable_streaming().map(|_| None).map_err(|e| control_error_name(&e)))),
            Op::Read { addr, n } => {
                let mut buf = vec![0xEEu8; *n];
                let r = guarded(|| h.read(*addr, &mut buf).map_err(|e| control_error_name(&e)));
                ("read", format!("c07 read {addr} {n}"), r.map(|x| x.map(|_| Some(buf))))
            }
            Op::Settle => unreachable!(),
            Op::Write { addr, n, pat } => {
                let data = data_pattern(*n, *pat);
                let r = guarded(|| h.write(*addr, &data).map_err(|e| control_error_name(&e)));
                ("write", format!("c07 write {addr} {n} {pat}"), r.map(|x| x.map(|_| None)))
            }
        };
        let elapsed_ms = started.elapsed().as_millis() as u64;
        let wire = usb.lock().take_wire();
        let _ = usb.lock().take_access();
        let txn1 = usb.lock().txn;
        let runaway = std::mem::take(&mut usb.lock().runaway);
        let host_blocked = std::mem::take(&mut usb.lock().host_blocked);
        let txns = split_txns(&wire);
        for w in &wire {
            if let Wire::Recv { buf_len, .. } = w {
                last_buf_len = *buf_len;
            }
            if let Wire::Send { data, .. } = w {
                if data.len() >= 12 {
                    last_sent_id = Some(le(&data[10..12]) as u16);
                }
            }
        }
        // the harness's own account of the channel state (never the implementation's):
        // open Ok => open; close Ok => closed; a failed open leaves it closed (the fixed code
        // closes again; if the release itself failed the next open is a no-op, also fine)
        match (&op, &r) {
            (Op::Open, Ok(Ok(_))) => opened = true,
            (Op::Open, _) => opened = opened && h.is_opened(),
            (Op::Close, Ok(Ok(_))) => opened = false,
            _ => {}
        }
        let ans = match &r {
            Err(()) => "panic".to_string(),
            Ok(Err(e)) => format!("err {e}"),
            Ok(Ok(Some(d))) => format!("ok {}", data_digest(d)),
            Ok(Ok(None)) => "ok".to_string(),
        };
        rep.count(&format!("{name}:{}", ans.split(' ').take(2).collect::<Vec<_>>().join("-").replace(|c: char| c.is_ascii_digit() || c == '=', "")));
        // ---- property oracle on the implementation ----
        // every transfer is given the configured timeout; pending acknowledges are waited for
        for w in &wire {
            let t = match w {
                Wire::Send { timeout_ms, .. } | Wire::Recv { timeout_ms, .. } | Wire::Control { timeout_ms, .. } => *timeout_ms,
                _ => continue,
            };
            if t != timeout_before {
                violate(rep, "timeout", name, format!("{name}: a transfer was given a timeout of {t} ms, the configured one is {timeout_before} ms"));
                break;
            }
        }
        let wst = wire_stat(&wire);
        if elapsed_ms < wst.sleep_ms {
            violate(rep, "pending-not-awaited", name, format!("{name}: pending acknowledges asked for {} ms, the call returned after {elapsed_ms} ms", wst.sleep_ms));
        }
        if r.is_err() {
            violate(rep, "panic", name, format!("{name} panicked"));
        }
        if host_blocked {
            violate(rep, "unbounded-loop", name, format!("{name}: a bulk-in transfer was started with a timeout of 0 ms (unlimited for libusb) while the device had nothing to deliver: the call would never return"));
        }
        if runaway {
            violate(rep, "unbounded-loop", name, format!("{name}: more than {RUNAWAY_RECVS} receives for one command"));
        }
        for (k, t) in txns.iter().enumerate() {
            if t.recvs.len() > spec.retry as usize {
                violate(rep, "pending-retried-too-often", name, format!("{name}: command #{k} polled {} times with retry count {}", t.recvs.len(), spec.retry));
                break;
            }
        }
        let faulted_here = forged_ahead || spec.faults.iter().any(|(j, _)| *j >= txn0 && *j < txn1.max(txn0 + 1)) && !recovering
            || (matches!(op, Op::Open) && open_faulted && !recovering)
            || (matches!(op, Op::Close) && spec.release_err.is_some() && !recovering);
        match (&op, &r) {
            (Op::Read { addr, n }, Ok(Ok(Some(d)))) => {
                // Ok only with genuine data
                let mut off = 0usize;
                let mut bad: Option<String> = None;
                for (k, t) in txns.iter().enumerate() {
                    match (genuine_ack(t), decode_cmd(&t.cmd).map(|c| c.body)) {
                        (Ok(a), Some(CmdBody::ReadMem { address, len })) => {
                            let len = len as usize;
                            if address != addr.wrapping_add(off as u64) {
                                bad = Some(format!("chunk #{k} requested at a wrong address"));
                            } else if a.scd_len as usize != len || a.scd.len() < len {
                                bad = Some(format!("chunk #{k}: acknowledge carries {} bytes (scd_len {}), {len} requested", a.scd.len(), a.scd_len));
                            } else if off + len > d.len() || d[off..off + len] != a.scd[..len] {
                                bad = Some(format!("chunk #{k}: returned bytes are not the acknowledge's payload"));
                            }
                            off += len;
                        }
                        (Err(w), _) => bad = Some(format!("chunk #{k}: accepted although {w}")),
                        _ => bad = Some(format!("chunk #{k}: not a ReadMem command")),
                    }
                    if bad.is_some() {
                        break;
                    }
                }
                if bad.is_none() && off != *n {
                    bad = Some(format!("Ok but only {off} of {n} bytes were acknowledged"));
                }
                if let Some(w) = bad {
                    violate(rep, "made-up-data", name, format!("read returned Ok: {w}"));
                }
                if !faulted_here && sane_limits(spec) && *d != usb.lock().mem.read(*addr, *n) {
                    violate(rep, "inexact", name, "fault-free read returned wrong data".into());
                }
            }
            (Op::Write { n, .. }, Ok(Ok(_))) => {
                let mut total = 0usize;
                let mut bad: Option<String> = None;
                for (k, t) in txns.iter().enumerate() {
                    match (genuine_ack(t), decode_cmd(&t.cmd).map(|c| c.body)) {
                        (Ok(a), Some(CmdBody::WriteMem { data, .. })) => {
                            if a.scd.len() < 4 || le(&a.scd[0..2]) != 0 || le(&a.scd[2..4]) as usize != data.len() {
                                bad = Some(format!("chunk #{k}: acknowledge does not confirm {} written bytes", data.len()));
                            }
                            total += data.len();
                        }
                        (Err(w), _) => bad = Some(format!("chunk #{k}: accepted although {w}")),
                        _ => bad = Some(format!("chunk #{k}: not a WriteMem command")),
                    }
                    if bad.is_some() {
                        break;
                    }
                }
                if bad.is_none() && total != *n {
                    bad = Some(format!("Ok but only {total} of {n} bytes were sent"));
                }
                if let Some(w) = bad {
                    violate(rep, "unconfirmed-write", name, format!("write returned Ok: {w}"));
                }
            }
            _ => {}
        }
        if matches!(op, Op::Open) && !txns.is_empty() {
            tainted = faulted_here && matches!(r, Ok(Ok(_)));
        }
        // a fault-free op on a sane, conforming device must succeed (incl. after an error)
        let in_space = match &op {
            Op::Read { addr, n } | Op::Write { addr, n, .. } => (*addr as u128) + (*n as u128) <= 1u128 << 64,
            _ => true,
        };
        if opened && matches!(r, Ok(Err("NotOpened"))) {
            violate(rep, "not-usable-after-error", name, format!("{name} returned NotOpened although the last open succeeded and close was not called"));
        }
        let in_space = in_space && match &op {
            Op::Disable => spec.u3v_cap & 1 == 1 && spec.sirm_addr.checked_add(8).is_some(),
            _ => true,
        };
        if matches!(op, Op::Disable) && faulted_here {
            caches_tainted = true;
        }
        let in_space = in_space && !(matches!(op, Op::Disable) && caches_tainted);
        let expect_ok = !faulted_here && !tainted && in_space && sane_limits(spec) && (opened || matches!(op, Op::Open | Op::Close))
            && settle != Some(false);
        if settle.is_some() {
            rep.count(if settle == Some(true) { "settle:must-succeed" } else { "settle:may-fail" });
        }
        if expect_ok && !matches!(r, Ok(Ok(_))) && !(matches!(op, Op::Read { .. } | Op::Write { .. }) && !opened) {
            let kind = if recovering { "not-usable-after-error" } else { "fault-free-op-failed" };
            violate(rep, kind, name, format!("{name} against a conforming device: {ans}"));
        }
        let canon = format!("{label} {name} {} {:?}", ans.split(' ').next().unwrap_or(""), spec.faults.iter().map(|(j, f)| format!("{j}:{}", fault_str(f))).collect::<Vec<_>>());
        rep.case(&format!("{canon} {i} {} {}", spec.adv_cmd, spec.adv_ack), faulted_here && !matches!(r, Ok(Ok(_))));
        if rep.evaluations % 4001 == 7 {
            rep.sample(json!({"request": req, "faults": spec.faults.iter().map(|(j, f)| format!("{j}:{}", fault_str(f))).collect::<Vec<_>>(), "impl": ans}));
        }
        // ---- differential: replay the transport's answers to the model ----
        rep.expect(format!("c07 script {}", wire_script(&wire)), "ok".into());
        let tag = format!("#{}/{}/{}/{:?}/{}", spec.adv_cmd, spec.adv_ack, spec.retry, spec.plan, spec.faults.iter().map(|(j, f)| format!("{j}:{}", fault_str(f))).collect::<Vec<_>>().join(",")).replace(' ', "");
        rep.expect(format!("{req} {tag}"), format!("{ans} | {} left=0 desync=false", wire_stat(&wire).show()));
        // ---- after the first error: device conforming and enforcing its limits from now on ----
        if !matches!(r, Ok(Ok(_))) && !recovering {
            any_err = true;
            recovering = true;
            let mut st = usb.lock();
            st.cfg.faults.clear();
            st.cfg.claim_err = None;
            st.cfg.control_err = None;
            st.cfg.clear_halt_err = None;
            st.cfg.release_err = None;
            if sane_limits(spec) {
                st.cfg.max_cmd = Some(spec.adv_cmd);
                st.cfg.max_ack = Some(spec.adv_ack);
            }
            drop(st);
            // re-open (a no-op when the handle is still open), then a read and a write
            // (only when a corrupted-but-accepted open left a garbage configuration behind is the
            // channel closed first so that the limits are renegotiated)
            let mut tail = if tainted { vec![Op::Close, Op::Open] } else { vec![Op::Open] };
            tainted = false;
            tail.extend(std::iter::repeat(Op::Settle).take(450));
            tail.extend([Op::Read { addr: 0x7000, n: 120 }, Op::Write { addr: 0x7100, n: 120, pat: 3 }, Op::Read { addr: 0x7100, n: 120 }, Op::Read { addr: 0x7200, n: 8 }]);
            tail.extend(ops.drain(i..));
            ops.truncate(i);
            ops.extend(tail);
        }
    }
    let _ = any_err;
    rep.count(&format!("sessions:{label}"));
}

fn main() {
    let args = parse_args();
    let mut rep = Report::new(
        "C07",
        "sessions of open/read/write on the real ControlHandle over the scripted device with a fault plan: every \
         single fault of the fault list at every transaction index of the history (open's six bootstrap reads \
         included), sampled double faults, open-path transport errors, degenerate advertised limits; a case is \
         non-trivial when the op is hit by a fault and returns an error; distinct by (scenario, op, outcome, fault plan)",
    );
    start_watchdog(args.out.clone(), args.tier.clone(), args.seed);
    let mut rng = Rng::new(args.seed);

    if let Some(path) = &args.replay {
        let v: Value = serde_json::from_str(&std::fs::read_to_string(path).unwrap()).unwrap();
        let spec = spec_from(&v["replay"]);
        run_session(&mut rep, &spec, "replay");
        rep.write(&args);
        return;
    }
    let thorough = args.thorough();

    // minimised past failures first
    if let Ok(rd) = std::fs::read_dir("/verif/corpus/C07") {
        let mut files: Vec<_> = rd.filter_map(|e| e.ok()).map(|e| e.path()).filter(|p| p.extension().is_some_and(|x| x == "json")).collect();
        files.sort();
        for f in files {
            let v: Value = serde_json::from_str(&std::fs::read_to_string(&f).unwrap()).unwrap();
            let spec = spec_from(&v["replay"]);
            run_session(&mut rep, &spec, "corpus");
        }
    }

    // base scenarios: (advertised limits, retry, pending plan, ops)
    let base_ops = |a: u64| vec![
        Op::Open,
        Op::Read { addr: 0x5000 + a, n: 100 },
        Op::Read { addr: 0x5800 + a, n: 100 },
        Op::Write { addr: 0x6000 + a, n: 100, pat: 1 },
        Op::Write { addr: 0x6800 + a, n: 100, pat: 9 },
        Op::Read { addr: 0x6800 + a, n: 100 },
        Op::Read { addr: 0x6000 + a, n: 8 },
        Op::Close,
        Op::Open,
        Op::Read { addr: 0x6000 + a, n: 30 },
    ];
    let scenarios: Vec<(u32, u32, u16, Vec<u16>, Vec<Op>)> = vec![
        (64, 64, 3, vec![], base_ops(0)),
        (64, 64, 3, vec![1, 0, 2], base_ops(7)),
        (24, 20, 2, vec![0, 1], vec![Op::Open, Op::Read { addr: 0x5000, n: 17 }, Op::Write { addr: 0x6000, n: 9, pat: 2 }]),
        (1024, 1024, 5, vec![], vec![Op::Open, Op::Write { addr: 0x6000, n: 2000, pat: 5 }, Op::Read { addr: 0x6000, n: 2000 }]),
    ];

    let mut scenarios = scenarios;
    scenarios.push((64, 64, 3, vec![], vec![Op::Open, Op::Disable, Op::Disable, Op::Read { addr: 0x2_0004, n: 4 }, Op::Close, Op::Open, Op::Disable]));
    // number of transactions of a fault-free run of each scenario
    let mut txn_counts = vec![];
    for (mc, ma, retry, plan, ops) in &scenarios {
        let spec = SessionSpec { seed: 3, adv_cmd: *mc, adv_ack: *ma, retry: *retry, plan: plan.clone(), ops: ops.clone(), faults: vec![], claim_err: None, control_err: None, clear_halt_err: None, release_err: None, resp_ms: 1, u3v_cap: 1, sirm_addr: 0x2_0000 };
        let before = rep.n_violations;
        run_session(&mut rep, &spec, "fault-free");
        let _ = before;
        // count transactions with a scratch device
        let boot = Bootstrap { max_cmd: *mc, max_ack: *ma, ..Bootstrap::default() };
        let usb = FakeUsb::conforming(3, &boot);
        usb.lock().cfg.max_cmd = None;
        usb.lock().cfg.max_ack = None;
        usb.lock().cfg.pending_plan = plan.clone();
        let mut h = make_handle(&usb);
        h.set_retry_count(*retry);
        for op in ops {
            match op {
                Op::Open => { let _ = h.open(); }
                Op::Close => { let _ = h.close(); }
                Op::Read { addr, n } => { let mut b = vec![0; *n]; let _ = h.read(*addr, &mut b); }
                Op::Write { addr, n, pat } => { let _ = h.write(*addr, &data_pattern(*n, *pat)); }
                Op::Settle => {}
                Op::Disable => { let _ = h.disable_streaming(); }
            }
        }
        txn_counts.push(usb.lock().txn);
    }

    // the fault list
    let statuses: Vec<u16> = vec![
        0x8001, 0x8002, 0x8003, 0x8004, 0x8005, 0x8006, 0x8007, 0x800B, 0x800E, 0x800F, 0x8FFF, 0xA001, 0xA002, 0xA003, 0xA004, 0xA005,
        0x0001, 0x8000, 0x8008, 0x2000, 0x2001, 0xA000, 0xA006, 0x4000, 0x4001, 0xC000, 0xC001, 0x6000, 0x6001, 0xE000, 0xFFFF, 0x1000, 0x9001,
    ];
    let mut faults: Vec<Fault> = vec![];
    for n in [0usize, 1, 3, 4, 5, 6, 8, 10, 11, 12, 13, 15, 19] {
        faults.push(Fault::Truncate(n));
    }
    for n in [1usize, 4, 100, 70_000] {
        faults.push(Fault::Append(n));
    }
    for off in [0usize, 3, 4, 5, 6, 7, 8, 9, 10, 11, 12, 13, 14, 15, 16, 30] {
        faults.push(Fault::XorByte { off, mask: 0xFF });
        faults.push(Fault::XorByte { off, mask: 0x01 });
    }
    faults.extend([Fault::Magic(0), Fault::Magic(0x4556_3355), Fault::Magic(0x5533_5643)]);
    faults.extend([Fault::ReqIdDelta(1), Fault::ReqIdDelta(0xFFFF), Fault::ReqIdDelta(0x8000), Fault::ReqIdDelta(0x100)]);
    faults.extend(statuses.iter().map(|s| Fault::Status(*s)));
    for k in [0x0801u16, 0x0803, 0x0805, 0x0807, 0x0809, 0x0800, 0x0802, 0x0c00, 0x0000, 0xFFFF] {
        faults.push(Fault::Kind(k));
    }
    for l in [0u16, 1, 3, 4, 7, 8, 9, 29, 30, 31, 44, 52, 53, 100, 0xFFFF] {
        faults.push(Fault::ScdLenField(l));
    }
    for n in [0usize, 1, 3, 4, 5, 7, 8, 9, 29, 31, 43, 45, 51, 53, 104, 1000] {
        faults.push(Fault::PayloadResize(n));
    }
    faults.extend([Fault::WrittenLen(0), Fault::WrittenLen(1), Fault::WrittenLen(43), Fault::WrittenLen(45), Fault::WrittenLen(0xFFFF)]);
    faults.extend([Fault::Reserved(1), Fault::Reserved(0xFFFF)]);
    faults.extend([Fault::Raw(vec![]), Fault::Raw(vec![0x55]), Fault::Raw(vec![0x55, 0x33, 0x56, 0x43]), Fault::Raw(rng.bytes(12)), Fault::Raw(rng.bytes(40)), Fault::NoAck, Fault::LateAck]);
    faults.extend([Fault::Pendings(1), Fault::Pendings(2), Fault::Pendings(3), Fault::Pendings(4), Fault::Pendings(5), Fault::Pendings(6), Fault::Pendings(100), Fault::Pendings(u64::MAX)]);
    for inner in [Fault::Status(0x8007), Fault::ReqIdDelta(1), Fault::Truncate(14), Fault::Truncate(12), Fault::Reserved(1), Fault::ScdLenField(0), Fault::Kind(0x0801), Fault::Magic(0), Fault::Append(3)] {
        faults.push(Fault::OnPending(0, Box::new(inner.clone())));
        faults.push(Fault::OnPending(1, Box::new(inner)));
    }
    for e in UsbErr::ALL {
        faults.push(Fault::SendErr(e));
        if matches!(e, UsbErr::Io | UsbErr::Timeout | UsbErr::Pipe | UsbErr::Other) {
            faults.push(Fault::SendErrDelivered(e));
        }
        faults.push(Fault::RecvErr { nth: 0, err: e });
        faults.push(Fault::RecvErr { nth: 1, err: e });
    }
    rep.extra.insert("fault_list_len".into(), json!(faults.len()));

    // every single fault at every transaction index
    for (si, (mc, ma, retry, plan, ops)) in scenarios.iter().enumerate() {
        let n_txn = txn_counts[si];
        let stride = if thorough || si == 0 { 1 } else { 3 };
        for idx in 0..n_txn {
            for (fi, f) in faults.iter().enumerate() {
                if (fi as u64 + idx) % stride != 0 {
                    continue;
                }
                // pendings that need pending acks only make sense with a pending-capable retry
                let spec = SessionSpec {
                    seed: 3, adv_cmd: *mc, adv_ack: *ma, retry: *retry, plan: plan.clone(), ops: ops.clone(),
                    faults: vec![(idx, f.clone())], claim_err: None, control_err: None, clear_halt_err: None, release_err: None, resp_ms: 1, u3v_cap: 1, sirm_addr: 0x2_0000,
                };
                run_session(&mut rep, &spec, "single");
                rep.count(&format!("fault:{}", fault_class(f)));
            }
            if rep.evaluations > 20_000 {
                rep.flush_model(&args.camdrv);
            }
        }
    }
    rep.flush_model(&args.camdrv);

    // degenerate Maximum Device Response Time: 0 ms (a zero timeout is UNLIMITED for libusb: a
    // lost acknowledge must not hang the host) and u32::MAX ms, with the faults that leave the
    // host waiting, at every transaction index of the first history
    for resp in [0u32, u32::MAX] {
        let (mc, ma, retry, plan, ops) = &scenarios[0];
        let waiting: Vec<Fault> = vec![Fault::NoAck, Fault::LateAck, Fault::Pendings(3), Fault::Pendings(u64::MAX), Fault::RecvErr { nth: 0, err: UsbErr::Timeout },
            Fault::Truncate(0), Fault::Status(0x8001), Fault::ReqIdDelta(1), Fault::SendErr(UsbErr::Timeout), Fault::SendErrDelivered(UsbErr::Timeout), Fault::Raw(vec![])];
        for idx in 0..txn_counts[0] {
            for f in &waiting {
                let spec = SessionSpec { seed: 3, adv_cmd: *mc, adv_ack: *ma, retry: *retry, plan: plan.clone(), ops: ops.clone(),
                    faults: vec![(idx, f.clone())], claim_err: None, control_err: None, clear_halt_err: None, release_err: None, resp_ms: resp, u3v_cap: 1, sirm_addr: 0x2_0000 };
                run_session(&mut rep, &spec, "degenerate-response-time");
            }
        }
    }
    rep.flush_model(&args.camdrv);

    // thorough: all 65536 status codes on one read transaction and one write transaction
    if thorough {
        for code in 0..=0xFFFFu32 {
            for idx in [6u64, 10] {
                let (mc, ma, retry, plan, ops) = &scenarios[0];
                let spec = SessionSpec { seed: 3, adv_cmd: *mc, adv_ack: *ma, retry: *retry, plan: plan.clone(), ops: ops[..4].to_vec(),
                    faults: vec![(idx, Fault::Status(code as u16))], claim_err: None, control_err: None, clear_halt_err: None, release_err: None, resp_ms: 1, u3v_cap: 1, sirm_addr: 0x2_0000 };
                run_session(&mut rep, &spec, "all-status-codes");
            }
            if code % 4096 == 4095 {
                rep.flush_model(&args.camdrv);
            }
        }
    }

    // double faults (sampled)
    let doubles = if thorough { 20_000 } else { 1_500 };
    for _ in 0..doubles {
        let si = rng.below(scenarios.len() as u64) as usize;
        let (mc, ma, retry, plan, ops) = &scenarios[si];
        let n_txn = txn_counts[si];
        let i1 = rng.below(n_txn);
        let i2 = if rng.chance(1, 3) { i1 } else { rng.below(n_txn + 4) };
        let spec = SessionSpec {
            seed: rng.below(200), adv_cmd: *mc, adv_ack: *ma, retry: *retry, plan: plan.clone(), ops: ops.clone(),
            faults: vec![(i1, rng.pick(&faults).clone()), (i2, rng.pick(&faults).clone())],
            claim_err: None, control_err: None, clear_halt_err: None, release_err: None, resp_ms: 1, u3v_cap: 1, sirm_addr: 0x2_0000,
        };
        run_session(&mut rep, &spec, "double");
    }
    rep.flush_model(&args.camdrv);

    // open-path transport errors: claim / set_halt (2 control requests) / clear_halt (2) / release
    for e in UsbErr::ALL {
        let (mc, ma, retry, plan, ops) = &scenarios[0];
        let base = SessionSpec { seed: 3, adv_cmd: *mc, adv_ack: *ma, retry: *retry, plan: plan.clone(), ops: ops.clone(), faults: vec![], claim_err: None, control_err: None, clear_halt_err: None, release_err: None, resp_ms: 1, u3v_cap: 1, sirm_addr: 0x2_0000 };
        run_session(&mut rep, &SessionSpec { claim_err: Some(e), ..base.clone() }, "open-path");
        for n in 0..4 {
            run_session(&mut rep, &SessionSpec { control_err: Some((n, e)), ..base.clone() }, "open-path");
            run_session(&mut rep, &SessionSpec { clear_halt_err: Some((n, e)), ..base.clone() }, "open-path");
        }
        run_session(&mut rep, &SessionSpec { release_err: Some(e), ..base.clone() }, "open-path");
    }

    // degenerate advertised limits (the device does not enforce them: the host must cope)
    // 12 + k*65536 / 20 + 65536: advertised lengths whose payload capacity is a multiple of 2^16 (a
    // capacity narrowed to 16 bits becomes 0: seeded change C07-r4-seed1)
    let degenerate: Vec<u32> = vec![0, 1, 11, 12, 13, 19, 20, 21, 23, 24, 65535, 65536, 65547, 65548, 65556, 131084, u32::MAX - 1, u32::MAX];
    for mc in &degenerate {
        for ma in &degenerate {
            let ops = vec![
                Op::Open,
                Op::Read { addr: 0x5000, n: 0 },
                Op::Read { addr: 0x5000, n: 40 },
                Op::Write { addr: 0x6000, n: 0, pat: 1 },
                Op::Write { addr: 0x6000, n: 40, pat: 1 },
                Op::Read { addr: u64::MAX - 3, n: 4 },
                Op::Read { addr: u64::MAX - 3, n: 5 },
                Op::Write { addr: u64::MAX - 3, n: 5, pat: 1 },
                Op::Write { addr: u64::MAX, n: 1, pat: 1 },
                Op::Read { addr: u64::MAX, n: 0 },
            ];
            for (ri, retry) in [0u16, 1, 3].into_iter().enumerate() {
                // the advertised response time rotates through 1, 0 and u32::MAX ms
                let resp_ms = [1u32, 0, u32::MAX][(ri + (*mc as usize % 3) + (*ma as usize % 2)) % 3];
                let spec = SessionSpec { seed: 5, adv_cmd: *mc, adv_ack: *ma, retry, plan: vec![], ops: ops.clone(), faults: vec![], claim_err: None, control_err: None, clear_halt_err: None, release_err: None, resp_ms, u3v_cap: 1, sirm_addr: 0x2_0000 };
                run_session(&mut rep, &spec, "degenerate-limits");
            }
        }
    }
    // disable_streaming with degenerate SIRM bootstrap values: SIRM not available, SI_CONTROL
    // ending exactly at / beyond the top of the address space, on a closed handle
    for (cap, sirm) in [(0u64, 0x2_0000u64), (2, 0x2_0000), (1, u64::MAX - 7), (1, u64::MAX - 6), (1, u64::MAX - 3), (1, u64::MAX), (u64::MAX, 0)] {
        for (mc, ma) in [(64u32, 64u32), (20, 64), (64, 12), (24, 20)] {
            let spec = SessionSpec { seed: 5, adv_cmd: mc, adv_ack: ma, retry: 3, plan: vec![], ops: vec![Op::Disable, Op::Open, Op::Disable, Op::Disable, Op::Close, Op::Disable],
                faults: vec![], claim_err: None, control_err: None, clear_halt_err: None, release_err: None, resp_ms: 1, u3v_cap: cap, sirm_addr: sirm };
            run_session(&mut rep, &spec, "degenerate-sirm");
        }
    }
    // ops on a handle that was never opened, large write with a failing chunk in the second block
    {
        let spec = SessionSpec { seed: 5, adv_cmd: 64, adv_ack: 64, retry: 3, plan: vec![], ops: vec![Op::Read { addr: 0, n: 4 }, Op::Write { addr: 0, n: 4, pat: 0 }, Op::Close], faults: vec![], claim_err: None, control_err: None, clear_halt_err: None, release_err: None, resp_ms: 1, u3v_cap: 1, sirm_addr: 0x2_0000 };
        run_session(&mut rep, &spec, "not-opened");
        let spec = SessionSpec { seed: 5, adv_cmd: 70_000, adv_ack: 70_000, retry: 3, plan: vec![], ops: vec![Op::Open, Op::Write { addr: 0x10_0000, n: 140_000, pat: 0 }, Op::Read { addr: 0x10_0000, n: 140_000 }],
            faults: vec![(7, Fault::WrittenLen(7)), (10, Fault::PayloadResize(9000))], claim_err: None, control_err: None, clear_halt_err: None, release_err: None, resp_ms: 1, u3v_cap: 1, sirm_addr: 0x2_0000 };
        run_session(&mut rep, &spec, "large");
    }
    rep.write(&args);
}
